(* The per-stream state machine /repo/src/proto/streams/state.rs: what C04, C09, C17 and C07 need
   from it.  Statements only; proofs are in Proofs/StreamStateProofs.v.
   Model: Model/StreamState.v (tied to state.rs by the exhaustive correspondence of
   harness/src/bin/streamstate.rs: every reachable state x every method x representative payloads);
   reference: Ref/Rfc9113Stream.v (RFC 9113 5.1, figure 2 and the per-state rules). *)
From H2V Require Import Base.Tac Base.Bytes Model.StreamState Ref.Rfc9113Stream Proofs.StreamStateProofs.
Local Open Scope N_scope.

(* ============================================================================================
   C04 - what the endpoint may send follows the stream life cycle *)

(* Every successful method call is the transition of figure 2 for its event (send_open = send H or
   H+ES, send_close = send ES, reserve_local = send PP, set_reset / set_scheduled_reset = send R,
   recv_open = recv H or H+ES, recv_close = recv ES, reserve_remote = recv PP, recv_reset = recv R),
   for all states and all payloads; the three situations where the code is not figure 2 are spelled
   out. *)
Theorem C04_state_step_refines_rfc :
  forall dbg s o s' r d k,
  step dbg s o = (s', r) -> event_of o = Some (d, k) -> res_ok r = true ->
  rfc_step (abs s) d k = Some (abs s')
  \/ (s = ReservedRemote /\ o = ORecvOpen false true /\ s' = ReservedRemote)
  \/ (k = KR /\ s = Idle /\ abs s' = closed)
  \/ (k = KR /\ d = Send /\ abs s = closed /\ abs s' = closed).
Proof. exact step_refines_rfc. Qed.

(* Once END_STREAM went out (send_open with eos, or send_close), after every later sequence of
   methods: the send half is closed, send_open is refused, the state is never "send streaming"
   again (the guard of send_data and send_trailers), a second END_STREAM would be a panic rather
   than a frame, and the RFC state allows neither DATA nor HEADERS. *)
Theorem C04_state_nothing_after_end_stream :
  forall dbg s s1 os,
  (send_open true s = (s1, RUnit) \/ send_close s = (s1, RUnit)) ->
  let s2 := run dbg s1 os in
  is_send_closed s2 = true /\ is_send_streaming s2 = false /\
  (forall eos, send_open eos s2 = (s2, RUserErr UnexpectedFrameType)) /\
  send_close s2 = (s2, RPanic) /\
  sender_may (abs s2) DATA = false /\ sender_may (abs s2) HEADERS = false.
Proof. exact nothing_after_end_stream. Qed.

Theorem C04_state_send_closed_forever :
  forall dbg s os, is_send_closed s = true -> is_send_closed (run dbg s os) = true.
Proof. exact send_closed_forever. Qed.

(* After a reset in either direction or a connection error (recv_reset, set_reset, handle_error,
   recv_eof), from any state, with any payload: Closed for every later sequence of methods, nothing
   can be opened, and the RFC state allows PRIORITY only. *)
Theorem C04_state_nothing_after_reset :
  forall dbg s o os,
  is_ending o = true ->
  let s2 := run dbg (fst (step dbg s o)) os in
  is_closed s2 = true /\ is_send_streaming s2 = false /\
  (forall eos, send_open eos s2 = (s2, RUserErr UnexpectedFrameType)) /\
  (forall t, sender_may (abs s2) t = true -> t = PRIORITY).
Proof. exact nothing_after_reset. Qed.

(* Closed is absorbing together with its cause, except for the relabelling calls
   recv_reset(.., queued = true), set_reset, and set_scheduled_reset without debug assertions.
   A reset that is only scheduled (never written) stays until one of those, any recv_reset or a connection error. *)
Theorem C04_state_closed_cause_forever :
  forall dbg c os,
  unsent c = false ->
  forallb (fun o => negb (relabels dbg o)) os = true -> run dbg (Closed c) os = Closed c.
Proof. exact closed_cause_forever. Qed.

Theorem C04_state_scheduled_cause_forever :
  forall dbg r os,
  forallb (fun o => negb (relabels_unsent dbg o)) os = true ->
  run dbg (Closed (ScheduledLibraryReset r)) os = Closed (ScheduledLibraryReset r).
Proof. exact scheduled_cause_forever. Qed.

(* The only way to become "send streaming" is a successful send_open(false): nothing is sendable on
   an idle stream, and no other method opens the send half. *)
Theorem C04_state_only_send_open_starts_streaming :
  forall dbg s o,
  is_send_streaming s = false -> is_send_streaming (fst (step dbg s o)) = true ->
  o = OSendOpen false /\ snd (step dbg s o) = RUnit.
Proof. exact only_send_open_starts_streaming. Qed.

Theorem C04_state_idle_is_silent :
  is_send_streaming Idle = false /\ send_close Idle = (Idle, RPanic) /\
  (forall t, sender_may (abs Idle) t = true -> t = HEADERS \/ t = PRIORITY).
Proof. exact idle_is_silent. Qed.

Theorem C04_state_leaving_idle :
  forall dbg o s' r,
  step dbg Idle o = (s', r) -> s' <> Idle ->
  res_ok r = true /\
  match o with
  | OSendOpen eos => s' = if eos then HalfClosedLocal AwaitingHeaders else Open Streaming AwaitingHeaders
  | OReserveLocal => s' = ReservedLocal
  | ORecvOpen _ _ | OReserveRemote => is_send_streaming s' = false
  | ORecvReset _ _ _ | OHandleError _ | ORecvEof | OSetReset _ _ _ | OSetScheduledReset _ =>
    is_closed s' = true
  | ORecvClose | OSendClose => False
  end.
Proof. exact leaving_idle. Qed.

Theorem C04_state_streaming_is_rfc_sendable :
  forall s, is_send_streaming s = true ->
  sender_may (abs s) DATA = true /\ sender_may (abs s) HEADERS = true /\ send_phase s = body.
Proof. exact streaming_is_rfc_sendable. Qed.

Theorem C04_state_nonvacuous :
  (send_close (Open Streaming Streaming) = (HalfClosedLocal Streaming, RUnit) /\
   send_open true Idle = (HalfClosedLocal AwaitingHeaders, RUnit)) /\
  run true Idle [OReserveLocal; OSendOpen false; OSendClose] = Closed EndStream /\
  run true Idle [ORecvOpen true false; OSendOpen false; OSendClose] = Closed EndStream.
Proof. exact (conj ex_after_end_stream (conj ex_push_server ex_server_exchange)). Qed.

(* ============================================================================================
   C09 - what the endpoint accepts follows the stream life cycle *)

(* A method call that fails leaves the state unchanged, and its event is one RFC 9113 5.1 forbids in
   that state, or a message-opening header section in a direction where 8.1 allows none. *)
Theorem C09_state_error_is_rfc_forbidden :
  forall dbg s o s' r d k,
  step dbg s o = (s', r) -> event_of o = Some (d, k) -> res_ok r = false ->
  s' = s /\
  (rfc_step (abs s) d k = None \/ (is_opening k = true /\ opening_ok (phase_in d s) = false)).
Proof. exact step_error_is_forbidden. Qed.

(* Every event the RFC permits is accepted. *)
Theorem C09_state_rfc_permitted_is_accepted :
  forall dbg s o d k,
  event_of o = Some (d, k) -> rfc_step (abs s) d k <> None ->
  (is_opening k = true -> opening_ok (phase_in d s) = true) ->
  res_ok (snd (step dbg s o)) = true.
Proof. exact rfc_permitted_is_accepted. Qed.

Theorem C09_state_recv_open_refines :
  forall eos info s s' b,
  recv_open eos info s = (s', RBool b) ->
  ((s = ReservedRemote /\ eos = false /\ info = true /\ s' = ReservedRemote) \/
   rfc_step (abs s) Recv (hk eos) = Some (abs s')) /\
  opening_ok (recv_phase s) = true /\
  recv_phase s' = after_opening eos info /\
  b = (is_idle s || state_eqb s ReservedRemote).
Proof. exact recv_open_refines. Qed.

(* recv_open succeeds exactly under is_recv_headers; every refusal is the connection error
   GoAway(PROTOCOL_ERROR, Library) and leaves the state unchanged. *)
Theorem C09_state_recv_open_verdict :
  forall eos info s,
  (is_recv_headers s = true /\ exists s' b, recv_open eos info s = (s', RBool b)) \/
  (is_recv_headers s = false /\
   recv_open eos info s = (s, RProtoErr (EGoAway [] PROTOCOL_ERROR Library))).
Proof. exact recv_open_verdict. Qed.

Theorem C09_state_recv_open_accepts_required :
  forall eos info s h,
  receiver_must (abs s) h HEADERS = accept -> opening_ok (recv_phase s) = true ->
  exists s' b, recv_open eos info s = (s', RBool b).
Proof. exact recv_open_accepts_required. Qed.

Theorem C09_state_recv_open_conn_error_required :
  forall eos info s h,
  receiver_must (abs s) h HEADERS = conn_error ->
  recv_open eos info s = (s, RProtoErr (library_go_away PROTOCOL_ERROR)).
Proof. exact recv_open_conn_error_required. Qed.

(* the refusals of recv_open beside the RFC's verdict: a connection error where the RFC demands
   one, and also (stricter than required) in half-closed (remote), closed, and on a second
   header section *)
Theorem C09_state_recv_open_refusals :
  forall eos info s h,
  recv_open eos info s = (s, RProtoErr (library_go_away PROTOCOL_ERROR)) ->
  receiver_must (abs s) h HEADERS = conn_error
  \/ (abs s = half_closed_remote /\ receiver_must (abs s) h HEADERS = stream_error)
  \/ abs s = closed
  \/ (receiver_must (abs s) h HEADERS = accept /\ recv_phase s = body).
Proof. exact recv_open_refusals. Qed.

(* recv_close (END_STREAM on DATA or trailers) succeeds exactly where the RFC accepts DATA, as the
   transition of figure 2; elsewhere GoAway(PROTOCOL_ERROR, Library), state unchanged. *)
Theorem C09_state_recv_close_verdict :
  forall s h,
  (receiver_must (abs s) h DATA = accept /\ snd (recv_close s) = RUnit /\
   rfc_step (abs s) Recv KES = Some (abs (fst (recv_close s)))) \/
  (receiver_must (abs s) h DATA <> accept /\ rfc_step (abs s) Recv KES = None /\
   recv_close s = (s, RProtoErr (EGoAway [] PROTOCOL_ERROR Library))).
Proof. exact recv_close_verdict. Qed.

(* RST_STREAM, with any code, is never an error for the state machine; on a closed stream (whose reset, if any, was written) with
   nothing queued it changes nothing; the only state where the RFC wants a connection error is
   idle (refused by the caller, `ensure_not_idle`). *)
Theorem C09_state_recv_reset_tolerated :
  forall sid r q s,
  snd (recv_reset sid r q s) = RUnit /\
  is_closed (fst (recv_reset sid r q s)) = true /\
  (is_closed s = true -> q = false -> get_scheduled_reset s = None -> fst (recv_reset sid r q s) = s) /\
  (receiver_must (abs s) (how_of s) RST_STREAM = conn_error -> s = Idle).
Proof. exact recv_reset_tolerated. Qed.

(* is_local_error - the test under which streams.rs discards late frames - is exactly "closed by a
   reset or error of our own", where the RFC requires every late frame to be tolerated. *)
Theorem C09_state_local_error_iff :
  forall s,
  is_local_error s = true <-> (abs s = closed /\ is_reset s = true /\ how_of s = by_sent_reset).
Proof. exact local_error_iff. Qed.

Theorem C09_state_local_error_means_tolerate :
  forall s t,
  is_local_error s = true ->
  receiver_must (abs s) (how_of s) t = tolerate \/ receiver_must (abs s) (how_of s) t = accept.
Proof. exact local_error_means_tolerate. Qed.

Theorem C09_state_local_reset_is_flagged :
  forall dbg sid r i s,
  i <> Remote ->
  is_local_error (fst (set_reset sid r i s)) = true /\
  (snd (set_scheduled_reset dbg r s) = RUnit ->
   is_local_error (fst (set_scheduled_reset dbg r s)) = true) /\
  is_local_error (fst (recv_reset sid r true s)) = false.
Proof. exact local_reset_is_flagged. Qed.

Theorem C09_state_nonvacuous :
  (recv_open false false (Open Streaming AwaitingHeaders) = (Open Streaming Streaming, RBool false) /\
   recv_open true false Idle = (HalfClosedRemote AwaitingHeaders, RBool true)) /\
  (step true (HalfClosedLocal Streaming) (OSendOpen false)
     = (HalfClosedLocal Streaming, RUserErr UnexpectedFrameType) /\
   step true (HalfClosedRemote Streaming) ORecvClose
     = (HalfClosedRemote Streaming, RProtoErr (library_go_away PROTOCOL_ERROR)) /\
   step true Idle OSendClose = (Idle, RPanic) /\
   step true (Closed EndStream) (OSetScheduledReset 8) = (Closed EndStream, RPanic) /\
   step false (Closed EndStream) (OSetScheduledReset 8) = (Closed (ScheduledLibraryReset 8), RUnit)) /\
  (is_local_error (Closed (CError (EReset 1 8 Library))) = true /\
   is_local_error (Closed (CError (EReset 1 8 Remote))) = false) /\
  run true Idle [OReserveRemote; ORecvOpen false true] = ReservedRemote.
Proof. exact (conj ex_recv_open_refines (conj ex_errors (conj ex_local_error ex_push_client_1xx))). Qed.

(* ============================================================================================
   C17 - the error that ended the stream is what its handles report, for every code *)

(* The peer's RST_STREAM(sid, r) on a stream that is not closed (or closed with frames queued): both
   poll_reset flavours report Ok(Some(r)); a read reports Err(Reset(sid, r, Remote)) - unless the
   peer's END_STREAM had already been received, then the read ends cleanly (Ok(false)): the message
   was complete, the reset only concerns what we were still sending. *)
Theorem C17_state_recv_reset_surfaces :
  forall sid r q s,
  is_closed s = false \/ q = true ->
  let s' := fst (recv_reset sid r q s) in
  both_modes (fun m => ensure_reason m s') (RReason (Some r)) /\
  is_remote_reset s' = true /\ is_reset s' = true /\ is_local_error s' = false /\
  (is_recv_end_stream s = false ->
     s' = Closed (CError (EReset sid r Remote)) /\
     ensure_recv_open s' = RProtoErr (EReset sid r Remote)) /\
  (is_recv_end_stream s = true ->
     s' = Closed (ErrorAfterEndStream (EReset sid r Remote)) /\
     ensure_recv_open s' = RBool false /\ is_recv_end_stream s' = true).
Proof. exact recv_reset_surfaces. Qed.

(* A connection-level error e (GOAWAY with its debug data, code and initiator; I/O error with kind
   and message; reset) on a stream that is not closed: the cause records exactly e, poll_reset
   reports its code, and a read reports exactly e - unless the peer's message was already complete
   (HalfClosedRemote), then the read ends cleanly. *)
Theorem C17_state_handle_error_surfaces :
  forall e s,
  is_closed s = false ->
  let s' := fst (handle_error e s) in
  (is_recv_end_stream s = false ->
     s' = Closed (CError e) /\ ensure_recv_open s' = RProtoErr e) /\
  (is_recv_end_stream s = true ->
     s' = Closed (ErrorAfterEndStream e) /\ ensure_recv_open s' = RBool false /\
     is_recv_end_stream s' = true) /\
  is_local_error s' = error_is_local e /\
  match e with
  | EReset _ r _ | EGoAway _ r _ => both_modes (fun m => ensure_reason m s') (RReason (Some r))
  | EIo _ _ => both_modes (fun m => ensure_reason m s') (RProtoErr e)
  end.
Proof. exact handle_error_surfaces. Qed.

Theorem C17_state_go_away_surfaces :
  forall debug r i s,
  is_closed s = false ->
  let s' := fst (handle_error (EGoAway debug r i) s) in
  (is_recv_end_stream s = false -> ensure_recv_open s' = RProtoErr (EGoAway debug r i)) /\
  (is_recv_end_stream s = true -> ensure_recv_open s' = RBool false) /\
  (s' = Closed (CError (EGoAway debug r i)) \/ s' = Closed (ErrorAfterEndStream (EGoAway debug r i))) /\
  both_modes (fun m => ensure_reason m s') (RReason (Some r)) /\
  is_local_error s' = initiator_is_local i.
Proof. exact go_away_surfaces. Qed.

Theorem C17_state_recv_eof_surfaces :
  forall s,
  is_closed s = false ->
  let s' := fst (recv_eof s) in
  (is_recv_end_stream s = false ->
     s' = Closed (CError (EIo IO_BROKEN_PIPE (Some EOF_MSG))) /\
     ensure_recv_open s' = RProtoErr (EIo IO_BROKEN_PIPE (Some EOF_MSG))) /\
  (is_recv_end_stream s = true ->
     s' = Closed (ErrorAfterEndStream (EIo IO_BROKEN_PIPE (Some EOF_MSG))) /\
     ensure_recv_open s' = RBool false /\ is_recv_end_stream s' = true) /\
  both_modes (fun m => ensure_reason m s') (RProtoErr (EIo IO_BROKEN_PIPE (Some EOF_MSG))).
Proof. exact recv_eof_surfaces. Qed.

Theorem C17_state_set_reset_surfaces :
  forall sid r i s,
  let s' := fst (set_reset sid r i s) in
  s' = Closed (CError (EReset sid r i)) /\
  ensure_recv_open s' = RProtoErr (EReset sid r i) /\
  both_modes (fun m => ensure_reason m s') (RReason (Some r)) /\
  is_local_error s' = initiator_is_local i /\
  is_remote_reset s' = negb (initiator_is_local i).
Proof. exact set_reset_surfaces. Qed.

Theorem C17_state_scheduled_reset_surfaces :
  forall dbg r s,
  snd (set_scheduled_reset dbg r s) = RUnit ->
  let s' := fst (set_scheduled_reset dbg r s) in
  get_scheduled_reset s' = Some r /\
  ensure_recv_open s' = RProtoErr (EGoAway [] r Library) /\
  both_modes (fun m => ensure_reason m s') (RReason (Some r)).
Proof. exact scheduled_reset_surfaces. Qed.

(* and it stays so for every later method sequence that contains no relabelling call *)
Theorem C17_state_error_persists :
  forall dbg e os,
  forallb (fun o => negb (relabels dbg o)) os = true ->
  let s' := run dbg (Closed (CError e)) os in
  ensure_recv_open s' = RProtoErr e /\
  (forall m, ensure_reason m s' = ensure_reason m (Closed (CError e))).
Proof. exact error_persists. Qed.

Theorem C17_state_first_error_wins :
  forall e c,
  (unsent c = false -> fst (handle_error e (Closed c)) = Closed c) /\ fst (recv_eof (Closed c)) = Closed c /\
  (unsent c = false -> forall sid r, fst (recv_reset sid r false (Closed c)) = Closed c).
Proof. exact first_error_wins. Qed.

Theorem C17_state_scheduled_reset_gives_way_conn :
  forall e r, fst (handle_error e (Closed (ScheduledLibraryReset r))) = Closed (CError e).
Proof. exact scheduled_reset_gives_way_conn. Qed.

(* a reset the library only scheduled was never seen by the peer: the peer's RST_STREAM is the cause *)
Theorem C17_state_scheduled_reset_gives_way :
  forall sid reason r,
  fst (recv_reset sid reason false (Closed (ScheduledLibraryReset r)))
    = Closed (CError (remote_reset sid reason)).
Proof. exact scheduled_reset_gives_way. Qed.

Theorem C17_state_nonvacuous :
  (is_closed (Open Streaming Streaming) = false /\
   fst (recv_reset 5 3735928559 false (Open Streaming Streaming))
     = Closed (CError (EReset 5 3735928559 Remote)) /\
   fst (recv_reset 5 3735928559 true (Closed EndStream))
     = Closed (ErrorAfterEndStream (EReset 5 3735928559 Remote)) /\
   fst (recv_reset 5 0 true (HalfClosedRemote Streaming))
     = Closed (ErrorAfterEndStream (EReset 5 0 Remote))) /\
  (ensure_recv_open (fst (handle_error (EGoAway [1; 2; 3] 4294967295 Remote) (HalfClosedLocal Streaming)))
     = RProtoErr (EGoAway [1; 2; 3] 4294967295 Remote) /\
   ensure_reason PRStreaming (fst (handle_error (EGoAway [1; 2; 3] 4294967295 Remote) (HalfClosedLocal Streaming)))
     = RReason (Some 4294967295)) /\
  forallb (fun o => negb (relabels true o)) [ORecvReset 1 2 false; OHandleError eof_error; ORecvEof;
                                              OSendOpen true; OSetScheduledReset 3] = true.
Proof. exact (conj ex_recv_reset_surfaces (conj ex_go_away_surfaces ex_no_relabel)). Qed.

(* ============================================================================================
   C07 - however the connection ends, every stream ends *)

(* After handle_error or recv_eof from ANY state, for every later method sequence: closed, nothing
   receivable or sendable, and a read ends - cleanly or with an error, never pending. *)
Theorem C07_state_connection_end_closes_forever :
  forall dbg s o os,
  conn_ending o = true ->
  let s2 := run dbg (fst (step dbg s o)) os in
  is_closed s2 = true /\
  is_recv_headers s2 = false /\ is_recv_streaming s2 = false /\ is_send_streaming s2 = false /\
  (ensure_recv_open s2 = RBool false \/ exists e, ensure_recv_open s2 = RProtoErr e).
Proof. exact connection_end_closes_forever. Qed.

Theorem C07_state_closed_forever :
  forall dbg s os, is_closed s = true -> is_closed (run dbg s os) = true.
Proof. exact closed_forever. Qed.

Theorem C07_state_closed_never_pending :
  forall s, is_closed s = true -> ensure_recv_open s <> RBool true.
Proof. exact closed_never_pending. Qed.

(* A stream whose peer had finished its message (is_recv_end_stream: HalfClosedRemote,
   Closed(EndStream), Closed(ErrorAfterEndStream)) keeps the clean end when the connection ends:
   after handle_error / recv_eof and every later method sequence without a relabelling call
   (recv_reset(.., queued = true), set_reset, set_scheduled_reset without debug assertions), a read
   still ends with Ok(false) and is_recv_end_stream still holds; a stream already closed is
   untouched; a HalfClosedRemote stream records the error as Closed(ErrorAfterEndStream e), and
   poll_reset reports e's code (Reset, GoAway) or e itself (Io). *)
Theorem C07_state_completed_message_after_connection_end :
  forall dbg s o os,
  conn_ending o = true -> is_recv_end_stream s = true ->
  forallb (fun o' => negb (relabels dbg o')) os = true ->
  let s1 := fst (step dbg s o) in
  let s2 := run dbg s1 os in
  s2 = s1 /\ is_closed s2 = true /\
  is_recv_end_stream s2 = true /\ ensure_recv_open s2 = RBool false /\
  (is_closed s = true -> s1 = s) /\
  (is_closed s = false ->
   exists p e, s = HalfClosedRemote p /\ s1 = Closed (ErrorAfterEndStream e) /\
               (o = OHandleError e \/ (o = ORecvEof /\ e = eof_error)) /\
               forall m, ensure_reason m s2 = reason_report e).
Proof. exact completed_message_after_connection_end. Qed.

(* The repaired defect: without the HalfClosedRemote arm (handle_error_old = h2 before the fix) the
   clean end of a completely received message was replaced by the connection error. *)
Theorem C07_state_fix_needed :
  ~ (forall e s, is_recv_end_stream s = true ->
                 ensure_recv_open (fst (handle_error_old e s)) = RBool false) /\
  (forall e s, is_recv_end_stream s = true ->
               ensure_recv_open (fst (handle_error e s)) = RBool false) /\
  (forall e p, is_recv_end_stream (HalfClosedRemote p) = true /\
               ensure_recv_open (HalfClosedRemote p) = RBool false /\
               ensure_recv_open (fst (handle_error_old e (HalfClosedRemote p))) = RProtoErr e).
Proof. exact fix_needed. Qed.

(* in contrast the peer's RST_STREAM keeps the received END_STREAM, in every state *)
Theorem C07_state_recv_reset_keeps_end_stream :
  forall sid r q s,
  is_recv_end_stream s = true ->
  is_recv_end_stream (fst (recv_reset sid r q s)) = true /\
  ensure_recv_open (fst (recv_reset sid r q s)) = RBool false.
Proof. exact recv_reset_keeps_end_stream. Qed.

Theorem C07_state_nonvacuous :
  (is_recv_end_stream (HalfClosedRemote Streaming) = true /\
   ensure_recv_open (HalfClosedRemote Streaming) = RBool false /\
   fst (recv_eof (HalfClosedRemote Streaming)) = Closed (ErrorAfterEndStream eof_error) /\
   ensure_recv_open (fst (recv_eof (HalfClosedRemote Streaming))) = RBool false /\
   ensure_recv_open (fst (recv_eof (Closed EndStream))) = RBool false /\
   ensure_recv_open (fst (recv_eof (Open Streaming Streaming))) = RProtoErr eof_error) /\
  run true Idle [OSendOpen false; OSendClose; ORecvOpen false true; ORecvOpen false false; ORecvClose]
    = Closed EndStream.
Proof. exact (conj ex_completed_then_eof ex_client_exchange). Qed.
