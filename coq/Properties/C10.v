(* Property C10: the header blocks an endpoint emits decode - by any conforming HPACK decoder
   that has seen the connection's earlier blocks - to exactly the submitted fields in order;
   the encoder's dynamic table never exceeds the size the peer allowed, and a reduction is
   signalled at the start of the next block.
   Restatements only; proofs are in Proofs/HpackEncProofs.v.

   Reading guide
   * [enc_new], [enc_update_max_size], [enc_encode] : model of Encoder::{new, update_max_size,
     encode} of /repo/src/hpack/encoder.rs with table.rs / header.rs (Model/HpackEnc.v).  The
     dynamic table is the list of its entries; the hash index of table.rs is abstracted to a
     search of that list, which the byte-exact correspondence run validates on every check.
     [field_in] = (name or None for `Field { name: None }`, value, sensitive flag);
     [submitted fl] = the (name, value) list meant by [fl] (nameless items take the previous name).
   * [history] = list of (values given to update_max_size before the block, header list);
     [enc_run st h] runs the model over a history: [EOk (final state, blocks)] or [EFail reason].
   * [dec_run L rs h blocks] : the peer.  The reference decoder [rfc_ref_decode_block] of
     Ref/Rfc7541Block.v (RFC 7541 incl. the clause of 4.2 that a reduction must be signalled;
     at most L continuation octets per integer, h2's own decoder has L = 4) with the Huffman
     decoder model [huff_decode_opt], told the same limits ([last_limit]), fed the blocks in order,
     state threaded.
   * [history_ok h] : every name and value is a string of octets (< 256) shorter than 2^24 and no
     block starts with a nameless item (for which the Rust code panics by design). *)
From Coq Require Import String.
From H2V Require Import Base.Tac Base.Bytes Model.Huffman Ref.Rfc7541Block Model.HpackEnc.
From H2V Require Import Proofs.HpackEncProofs.
Local Open Scope N_scope.

(* Round trip.  Both ends start from min(m0, 4096): Encoder::new caps the size it is given at
   DEFAULT_MAX_ALLOWED_SIZE, and update_max_size caps every later value the same way.
   For every initial size, every history of size changes and header lists (any
   names, values, repeats, sensitive values, pseudo headers, sizes from empty to larger than the
   table, table sizes including 0) and every integer-length limit L >= 4 of the decoder: the
   encoder does not fail, and the reference decoder accepts every block and returns exactly the
   submitted fields, in order. *)
Theorem C10_roundtrip :
  forall (L : nat) (m0 : N) (h : history),
  (4 <= L)%nat -> history_ok h = true ->
  exists st outs,
    enc_run (enc_new m0) h = EOk (st, outs) /\
    dec_run L (rstate_init (N.min m0 4096)) h outs = Some (map (fun b => submitted (snd b)) h).
Proof. exact enc_roundtrip. Qed.

(* the hypotheses are satisfiable and the conclusion is not vacuous: a three-block history with a
   pseudo header, a static name, repeats, a nameless item, sensitive values, a lower-then-higher
   and a to-zero size change; the blocks start with 0x82, 0x3f (size update), 0x20 (size update 0) *)
Theorem C10_roundtrip_nonvacuous :
  history_ok demo_history = true /\
  match enc_run (enc_new 4096) demo_history with
  | EOk (_, outs) =>
    dec_run 4 (rstate_init 4096) demo_history outs
    = Some (map (fun b => submitted (snd b)) demo_history) /\
    map (fun o => hd_error o) outs = [Some 130; Some 63; Some 32]
  | EFail _ => False
  end.
Proof. exact demo_roundtrip. Qed.

(* For EVERY history (no hypothesis on the strings): the only failure of the encoder is the
   documented panic for a block that starts with a nameless item; the table's eviction loop never
   runs on an empty table, its size never underflows, no sensitive header reaches an insert. *)
Theorem C10_never_panics :
  forall (m0 : N) (h : history) (e : fail),
  enc_run (enc_new m0) h = EFail e -> e = NoPreviousName.
Proof. exact enc_never_panics. Qed.

(* For EVERY history: the table's accounted size is the RFC size of its entries, it is within
   max_size, and max_size is within the last value given to update_max_size ([allowed]: the
   initial size when there was none) and within 4096. *)
Theorem C10_table_bound :
  forall (m0 : N) (h : history) (st : enc_state) (outs : list (list N)),
  enc_run (enc_new m0) h = EOk (st, outs) ->
  table_size (et_entries (e_table st)) = et_size (e_table st) /\
  et_size (e_table st) <= et_max (e_table st) /\
  et_max (e_table st) <= allowed m0 h /\
  et_max (e_table st) <= 4096.
Proof. exact enc_table_bound. Qed.

(* After update_max_size calls u, ups (capped at max_allowed_size) whose minimum [lo] is below the
   table's max_size, the next block starts with the size update for [lo], followed - when the
   last value [fin] differs - by the one for [fin], before the header field representations
   ([rest] is what the field loop emits from the resized table). *)
Theorem C10_reduction_signalled :
  forall (st : enc_state) (u : N) (ups : list N) (fl : list field_in) (st2 : enc_state) (out : list N),
  tinv (e_table st) -> e_size_update st = None ->
  let vs := map (capv st) ups in
  let lo := fold_left N.min vs (capv st u) in
  let fin := last vs (capv st u) in
  lo < et_max (e_table st) ->
  enc_encode (fold_left enc_update_max_size (u :: ups) st) fl = EOk (st2, out) ->
  exists t1 rest,
    (out = enc_size_update lo ++ rest \/ out = enc_size_update lo ++ enc_size_update fin ++ rest) /\
    (lo <> fin -> out = enc_size_update lo ++ enc_size_update fin ++ rest) /\
    et_max t1 = fin /\ encode_loop t1 None fl = EOk (e_table st2, rest) /\
    et_max (e_table st2) = fin.
Proof. exact enc_reduction_signalled. Qed.

Theorem C10_reduction_signalled_nonvacuous :
  let st := enc_new 4096 in
  tinv (e_table st) /\ e_size_update st = None /\
  fold_left N.min (map (capv st) [4096]) (capv st 100) < et_max (e_table st) /\
  exists st2 out, enc_encode (fold_left enc_update_max_size [100; 4096] st)
                             [FI (Some (HttpTokens.bstr "a"%string)) (HttpTokens.bstr "b"%string) false] = EOk (st2, out).
Proof. exact demo_reduction. Qed.

(* A block split into HEADERS / CONTINUATION fragments at any offsets: the decoder's result is a
   function of the concatenation only (the framing is property C12). *)
Theorem C10_split :
  forall (hdf : list N -> option (list N)) (L : nat) (rs : rstate) (frags : list (list N)) (block : list N),
  concat frags = block ->
  ref_decode_block hdf L rs (concat frags) = ref_decode_block hdf L rs block.
Proof. exact split_irrelevant. Qed.

(* A sensitive header never changes the dynamic table (and encoding it does not fail). *)
Theorem C10_sensitive_never_indexed :
  forall (t : enc_table) (h : hdr),
  tinv t -> hdr_is_sensitive h = true ->
  exists idx octets, table_index t h = EOk (t, idx) /\ encode_header idx h = EOk octets.
Proof. exact sensitive_not_inserted. Qed.
