(* C16 — the send-capacity API tells the truth.  Statements only (proofs: Proofs/SendFlow*.v). *)
From H2V Require Import Base.Tac Model.SendFlow Ref.Accountant Proofs.SendFlowLists Proofs.SendFlowInv Proofs.SendFlowLedger Proofs.SendFlowRun.
Local Open Scope Z_scope.

(* After every error-free history: the capacity the API reports for a stream is at most what is
   assigned to it; what is assigned to a stream that can still send is within that stream's remaining
   wire credit; the total assigned over all streams is within the connection's remaining wire
   credit (so reported capacity can be sent with no further grant); and capacity is conserved:
   assigned + unassigned = connection window (nothing leaks, nothing is assigned twice) across
   reserve (raise/lower/zero), send, END_STREAM, reset, implicit reset, SETTINGS deltas and
   max_send_buffer_size. *)
Theorem C16_capacity_is_backed :
  forall (mb init : Z) (ls : list label) (st : fstate) (outs : list (list out)),
  0 <= mb -> 0 <= init <= MAXW -> Forall label_ok ls ->
  run (init_state mb init) ls = inl (Some (st, outs)) -> no_conn_err outs = true ->
  exists a, acct_run (acct0 init) (all_wevs ls outs) = Some a /\
    sum_avail (c_strs st) <= a_credit a - a_sent a /\
    sum_avail (c_strs st) + c_avail st = c_win st /\
    forall s, In s (c_strs st) ->
      0 <= capacity (c_maxbuf st) s <= s_avail s /\
      (s_dead s = false ->
         exists c sn, a_find (s_id s) (a_streams a) = Some (c, sn) /\ s_avail s <= Z.max 0 (c - sn)).
Proof. exact C16_capacity_is_backed. Qed.

(* even after a connection error nothing is over-assigned: the conservation law degrades to an
   inequality (capacity claimed by the failed SETTINGS decrease is lost, never duplicated) *)
Theorem C16_never_over_assigned :
  forall ls st d, 0 <= d -> InvD d st -> Forall label_ok ls ->
  match run st ls with
  | inl (Some (st', outs)) =>
      (exists d', d <= d' /\ InvD d' st') /\ (no_conn_err outs = true -> InvD d st')
  | inl None => True
  | inr (_, Panic _) => False
  | inr (_, _) => True
  end.
Proof. exact run_safe. Qed.

(* a capacity notification never reports zero *)
Theorem C16_poll_capacity_never_zero :
  forall st sid o st' outs, step st (LPollCapacity sid o) = Ok st' outs -> ~ In (ORes 0) outs.
Proof. exact C16_poll_capacity_never_zero. Qed.
