(* C09 at the dispatch layer (which State method the callers invoke for which received frame, and how they react to
   its verdict): statements only; proofs in Proofs/DispatchRecv.v, DispatchTol.v, DispatchErr.v.
   Model: Model/Dispatch.v (tied to streams.rs / recv.rs / send.rs / prioritize.rs by the lock-step of
   lib/props/parts/dispatch.py); reference: Ref/Rfc9113Stream.v (receiver_must_for, violation_code).
   Every theorem is about ONE step from an ARBITRARY state of the store, hence about every history; the observed
   inputs (admission, flow-control and header verdicts, quotas) are universally quantified.

   pview: the state of a stream as the peer can know it - idle while our HEADERS / PUSH_PROMISE for it are still
   queued (is_pending_open of a client, is_pending_push), reserved (local) while a pushed response waits for a slot,
   else the state of the record.
   wf_shape: the record shapes no history produces (checked at every label by the lock-step).
   lenient: the classes where h2 is more lenient than RFC 9113 5.1 demands (a stream error or silence instead of
   GOAWAY; after repair 28d67d9 none of them hands anything to the application) (see the C09_wire_lenient theorems). *)
From H2V Require Import Base.Tac Base.Bytes Model.StreamState Ref.Rfc9113Stream Proofs.StreamStateProofs
  Model.Dispatch Proofs.DispatchRecv Proofs.DispatchTol Proofs.DispatchErr Proofs.DispatchLenient.
Local Open Scope N_scope.

(* a received frame changes at most the record of its own stream (for a PUSH_PROMISE: the promised one) and never puts
   a frame on the wire itself: other streams keep working
   (same_or_failed: unchanged, or - only when the section discards that stream's queue and the queue holds a PUSH_PROMISE
   that was never written - the promised stream is failed with it, repair cc6ac6c) *)
Theorem C09_wire_other_streams_untouched :
  forall st l sid t st' outs,
  recv_frame l = Some (sid, t) -> step st l = Ok st' outs ->
  (forall k, k <> touched st l -> same_or_failed st st' k) /\ has_emit outs = false.
Proof. exact recv_confined. Qed.

(* where RFC 9113 5.1 demands a connection error for a frame on a stream the endpoint has a record of: the result is
   a connection error with a non-zero code, nothing is handed to the application, the store is unchanged *)
Theorem C09_wire_conn_error_required_except_known :
  forall st l sid t k r st' outs,
  recv_frame l = Some (sid, t) -> iget st sid = Some (k, r) -> c_recv_max st <? sid = false ->
  wf_shape (c_role st) sid r = true ->
  receiver_must_for (is_local_init (c_role st) sid) (fst (pview (c_role st) r)) (snd (pview (c_role st) r)) t = conn_error ->
  lenient (c_role st) r t = false ->
  step st l = Ok st' outs ->
  is_conn_error (result_of outs) = true /\ has_app outs = false /\ st' = st.
Proof. exact recv_conn_error_required. Qed.

(* a frame other than PRIORITY (and other than HEADERS of the peer's own) on an identifier that was never used *)
Theorem C09_wire_idle_is_conn_error :
  forall st l sid t st' outs,
  recv_frame l = Some (sid, t) -> iget st sid = None -> not_idle st sid = false ->
  c_recv_max st <? sid = false -> t <> PRIORITY ->
  (t = HEADERS -> is_local_init (c_role st) sid = true) ->
  step st l = Ok st' outs ->
  is_conn_error (result_of outs) = true /\ has_app outs = false /\ st' = st.
Proof. exact recv_idle_conn_error. Qed.

(* whatever is refused - by an error returned to the connection or by a reset inside the section - is not handed to
   the application *)
Theorem C09_wire_refused_not_surfaced :
  forall st l sid t st' outs,
  recv_frame l = Some (sid, t) -> step st l = Ok st' outs ->
  blames (result_of outs) = true \/ refused_in outs = true ->
  has_app outs = false.
Proof. exact recv_refused_not_surfaced. Qed.

(* a stream error handled inside the section leaves the record reset and queues a RST_STREAM, unless the stream had
   been reset before or has nothing left to close *)
Theorem C09_wire_stream_error_resets :
  forall st l sid t st' outs,
  recv_frame l = Some (sid, t) -> step st l = Ok st' outs ->
  refused_in outs = true -> result_of outs = ROk ->
  exists r', kget st' (touched st l) = Some r' /\ is_reset (s_state r') = true /\
    (queued_reset outs <> None \/
     exists r, kget st (touched st l) = Some r /\
               (is_reset (s_state r) = true \/
                (s_q r = [] /\ s_infl r = None /\ (is_closed (s_state r) = true \/ frame_ends l = true)))).
Proof. exact recv_stream_error_resets. Qed.

(* a stream error handed up to the connection is answered by Inner::send_reset: RST_STREAM with that code on that
   stream (or GOAWAY ENHANCE_YOUR_CALM when the reset quota is exhausted) *)
Theorem C09_wire_poll2_reset :
  forall st sid code quota can nk st' outs,
  step st (LPoll2Reset sid code quota can nk) = Ok st' outs ->
  (quota = false /\ result_of outs = RErr too_many_internal_resets /\ queued_reset outs = None)
  \/ (quota = true /\ result_of outs = ROk /\
      exists k r', iget st' sid = Some (k, r') /\ is_reset (s_state r') = true /\
        (queued_reset outs = Some (sid, code) \/
         exists r, iget st sid = Some (k, r) /\ (is_reset (s_state r) = true \/ closed_full r = true))).
Proof. exact poll2_reset_resets. Qed.

(* tolerance: a frame RFC 9113 5.1 permits (accept) or orders to be tolerated (the documented races: frames on a stream
   the endpoint has reset and still remembers, WINDOW_UPDATE / RST_STREAM on closed or reserved streams, frames for a
   pushed stream waiting for a concurrency slot), at a legal place of the peer's message, with observed verdicts that
   are not the peer's fault: no connection error, no stream error with a code that accuses the peer *)
Theorem C09_wire_tolerated :
  forall st l sid t k r st' outs,
  recv_frame l = Some (sid, t) -> iget st sid = Some (k, r) -> (sid =? 0) = false ->
  wf_shape (c_role st) sid r = true ->
  tolerable (receiver_must_for (is_local_init (c_role st) sid) (fst (pview (c_role st) r)) (snd (pview (c_role st) r)) t) = true ->
  obs_fine l = true -> msg_fine l (s_state r) = true -> conn_fine st l = true ->
  step st l = Ok st' outs ->
  penalised outs = false.
Proof. exact recv_tolerated. Qed.

(* WINDOW_UPDATE / RST_STREAM / PRIORITY on a stream that is closed and forgotten: ignored *)
Theorem C09_wire_forgotten_tolerated :
  forall st l sid t st' outs,
  recv_frame l = Some (sid, t) -> iget st sid = None -> (sid =? 0) = false ->
  (t = WINDOW_UPDATE \/ t = RST_STREAM \/ t = PRIORITY) -> not_idle st sid = true \/ t = PRIORITY ->
  obs_fine l = true ->
  step st l = Ok st' outs ->
  penalised outs = false /\ st' = st /\ has_app outs = false.
Proof. exact recv_unknown_tolerated. Qed.

(* a new request of the peer *)
Theorem C09_wire_new_stream_tolerated :
  forall st sid eos info o nk st' outs,
  iget st sid = None -> is_server (c_role st) = true -> is_client_init sid = true ->
  (match c_recv_next st with Some n => n <=? sid | None => false end) = true ->
  obs_fine (LRecvHeaders sid eos info o nk) = true ->
  step st (LRecvHeaders sid eos info o nk) = Ok st' outs ->
  penalised outs = false.
Proof. exact recv_new_stream_tolerated. Qed.

(* the classes of `lenient` are real: closed witnesses, each satisfying every other hypothesis of
   C09_wire_conn_error_required_except_known (Proofs/DispatchLenient.v; reproduced on the real crate, replays
   corpus/dispatch/lenient_*.json) *)
Theorem C09_wire_conn_error_required_refuted :
  ~ (forall st l sid t k r st' outs,
     recv_frame l = Some (sid, t) -> iget st sid = Some (k, r) -> c_recv_max st <? sid = false ->
     wf_shape (c_role st) sid r = true ->
     receiver_must_for (is_local_init (c_role st) sid) (fst (pview (c_role st) r)) (snd (pview (c_role st) r)) t = conn_error ->
     step st l = Ok st' outs ->
     is_conn_error (result_of outs) = true).
Proof. exact conn_error_required_refuted. Qed.

Theorem C09_wire_lenient_witnesses :
  (demands_conn_error st_l1 2 RST_STREAM = true /\ reacts st_l1 (LRecvReset 2 8 robs_ok) = false /\
   demands_conn_error st_l1 2 WINDOW_UPDATE = true /\ reacts st_l1 (LRecvWindowUpdate 2 wobs_ok) = false) /\
  (demands_conn_error st_l4 2 HEADERS = true /\ reacts st_l4 (LRecvHeaders 2 false false hobs_ok 9) = false).
Proof. exact (conj lenient_promise_unsent lenient_headers_on_reserved_local). Qed.

(* repaired by 28d67d9 (found with this model): a PUSH_PROMISE on a request not sent yet, on a request reset before it was
   sent, or on a stream that is itself pushed is now a connection error (it used to be accepted) *)
Theorem C09_wire_push_only_on_a_seen_request :
  demands_conn_error st_l3 1 PUSH_PROMISE = true /\ reacts st_l3 (LRecvPushPromise 1 2 pobs_ok 9) = true /\
  demands_conn_error st_l2 1 PUSH_PROMISE = true /\ reacts st_l2 (LRecvPushPromise 1 2 pobs_ok 9) = true /\
  demands_conn_error st_l5 2 PUSH_PROMISE = true /\ reacts st_l5 (LRecvPushPromise 2 4 pobs_ok 9) = true.
Proof. exact push_only_on_a_seen_request. Qed.

(* the repaired defect 60d7633 (found with this model): the refusal of a PUSH_PROMISE on a locally reset parent named
   an identifier nobody had checked *)
Theorem C09_wire_push_refusal_fix_needed :
  (match old_refusal_arm st_l6 7 with
   | Ok st1 outs =>
     result_of outs = RErr (EReset 7 CANCEL Library) /\ not_idle st1 7 = false /\ is_local_init (c_role st1) 7 = true /\
     match step st1 (LPoll2Reset 7 CANCEL true true 9) with
     | Ok st2 outs2 => outs_queued outs2 = [(7, 3, false, false, CANCEL)] /\ c_send_next st2 = Some 9
     | _ => False
     end
   | _ => False
   end) /\
  (match step st_l6 (LRecvPushPromise 1 7 pobs_ok 9) with
   | Ok st1 outs => is_conn_error (result_of outs) = true /\ st1 = st_l6
   | _ => False
   end).
Proof. exact push_refusal_fix_needed. Qed.
