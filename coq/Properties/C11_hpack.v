(* C11 (HPACK integer + header-block decoder): property statements.  Restatements only. *)
From H2V Require Import Base.Tac Base.Bytes Gen.StaticTable.
From H2V Require Import Ref.Rfc7541Static Ref.Rfc7541Int Ref.Rfc7541Block.
From H2V Require Import Model.HttpTokens Model.HpackInt Model.HpackDec.
From H2V Require Import Proofs.HpackIntProofs Proofs.HpackDecProofs.
Local Open Scope N_scope.

(* h2's static table (get_static / Table::get constants, rendered by the translator) is RFC 7541
   Appendix A *)
Theorem C11_gen_static_is_rfc :
  map snd static_get = rfc_static /\
  map fst static_get = map N.of_nat (seq 1 61) /\
  get_static_last = rfc_static_len /\
  get_dyn_base = rfc_static_len + 1 /\
  dyn_offset = rfc_static_len + 1.
Proof. exact gen_static_is_rfc. Qed.

(* index_static (encoder) is consistent with get_static (decoder) *)
Theorem C11_static_index_inverse :
  forallb static_index_entry_ok static_index = true /\
  forallb static_get_entry_covered static_get = true.
Proof. exact static_index_inverse. Qed.

(* the executable reference decoder decides the declarative RFC relation *)
Theorem C11_ref_decode_block_spec :
  forall hd L rs bs fs rs',
  ref_decode_block hd L rs bs = Some (fs, rs') <-> block_decodes hd L rs bs fs rs'.
Proof. exact ref_decode_block_spec. Qed.

(* decode_int: exactly the RFC 7541 5.1 representations of at most 1 + 4 octets *)
Theorem C11_decode_int_spec :
  forall p bs v rest, 1 <= p <= 8 -> octets bs ->
  (decode_int p bs = ROk v rest <->
   exists b t enc, bs = b :: t /\ bs = enc ++ rest /\ int_repr_L h2_int_limit p (b / 2 ^ p) v enc).
Proof. exact decode_int_spec. Qed.

Theorem C11_decode_int_need_more :
  forall p bs, 1 <= p <= 8 -> octets bs ->
  (decode_int p bs = RErr (NeedMore IntegerUnderflow) <->
   bs = [] \/
   exists b t, bs = b :: t /\ b mod 2 ^ p = 2 ^ p - 1 /\ (length t < h2_int_limit)%nat /\
               Forall (fun c => 128 <= c) t).
Proof. exact decode_int_need_more. Qed.

Theorem C11_decode_int_truncated :
  forall p hi v enc n, 1 <= p <= 8 -> octets enc ->
  int_repr_L h2_int_limit p hi v enc -> (n < length enc)%nat ->
  decode_int p (firstn n enc) = RErr (NeedMore IntegerUnderflow).
Proof. exact decode_int_truncated. Qed.

Theorem C11_decode_int_overflow :
  forall p bs, 1 <= p <= 8 -> octets bs ->
  (decode_int p bs = RErr IntegerOverflow <->
   exists b t, bs = b :: t /\ b mod 2 ^ p = 2 ^ p - 1 /\ (h2_int_limit <= length t)%nat /\
               Forall (fun c => 128 <= c) (firstn h2_int_limit t)).
Proof. exact decode_int_overflow. Qed.

Theorem C11_decode_int_bound :
  forall p bs v rest, 1 <= p <= 8 -> octets bs ->
  decode_int p bs = ROk v rest -> v < 2 ^ 28 + 255.
Proof. exact decode_int_bound. Qed.

Theorem C11_decode_int_encode_int :
  forall p hi v rest, 1 <= p <= 8 -> hi < 2 ^ (8 - p) ->
  v < 2 ^ p - 1 + 2 ^ 28 -> octets rest ->
  decode_int p (encode_int p hi v ++ rest) = ROk v rest.
Proof. exact decode_int_encode_int. Qed.

(* the decode loop always terminates within its fuel *)
Theorem C11_decode_no_fuel :
  forall hd d bs, r_verdict (decode hd d bs) <> VFuel.
Proof. exact decode_no_fuel. Qed.

(* whatever is accepted is what RFC 7541 assigns to the block *)
Theorem C11_hpack_decode_sound :
  forall hd d bs,
  wf d -> octets bs ->
  r_verdict (decode hd d bs) = VOk ->
  block_decodes hd h2_int_limit (abs (take_queued d)) bs
                (r_fields (decode hd d bs)) (abs (r_dec (decode hd d bs))).
Proof. exact hpack_decode_sound. Qed.

(* ... including the 4.2 clause, except for known finding KF-C11-3 *)
Theorem C11_hpack_decode_sound_rfc_except_known :
  forall hd d bs,
  wf d -> octets bs ->
  ~ required_update_pending d ->
  r_verdict (decode hd d bs) = VOk ->
  rfc_block_decodes hd h2_int_limit (abs (take_queued d)) bs
                    (r_fields (decode hd d bs)) (abs (r_dec (decode hd d bs))).
Proof. exact hpack_decode_sound_rfc_except_known. Qed.

(* whatever the RFC accepts (within h2's integer limit) with headers that pass the http-crate
   validation is accepted, with the same headers and table *)
Theorem C11_hpack_decode_complete_modulo_validation :
  forall hd d bs fs rs',
  wf d -> octets bs ->
  block_decodes hd h2_int_limit (abs (take_queued d)) bs fs rs' ->
  forallb field_valid fs = true ->
  r_verdict (decode hd d bs) = VOk /\
  r_fields (decode hd d bs) = fs /\
  abs (r_dec (decode hd d bs)) = rs'.
Proof. exact hpack_decode_complete_modulo_validation. Qed.

(* dynamic table invariants over every history *)
Theorem C11_hpack_table_bounded :
  forall hd size evs,
  let d := run_events hd (decoder_new size) evs in
  t_size (d_table d) = table_size (t_entries (d_table d)) /\
  t_size (d_table d) <= t_max (d_table d) /\
  t_max (d_table d) <= max_limit size evs.
Proof. exact hpack_table_bounded. Qed.

(* the hypothesis [wf] of the theorems above holds in every reachable decoder state *)
Theorem C11_reachable_wf :
  forall hd size evs, wf (run_events hd (decoder_new size) evs).
Proof. exact reachable_wf. Qed.

(* within the limit in force, except for known finding KF-C11-3 *)
Theorem C11_hpack_table_within_limit_except_known :
  forall hd d frags,
  wf d -> ~ required_update_pending d ->
  let d' := r_dec (decode_chunks hd d frags) in
  t_size (d_table d') <= t_max (d_table d') /\ t_max (d_table d') <= d_last_max d'.
Proof. exact hpack_table_within_limit_except_known. Qed.

(* fragments: same result as the whole block, except for known finding KF-C11-1 *)
Theorem C11_hpack_chunking_except_known :
  forall hd d frags,
  frags <> [] ->
  ~ size_update_after_field hd d (concat frags) ->
  same_result (decode_chunks hd d frags) (decode hd d (concat frags)).
Proof. exact hpack_chunking_except_known. Qed.

Theorem C11_hpack_chunking_by_verdict :
  forall hd d frags,
  frags <> [] ->
  r_verdict (decode hd d (concat frags)) <> VErr InvalidMaxDynamicSize ->
  same_result (decode_chunks hd d frags) (decode hd d (concat frags)).
Proof. exact hpack_chunking_by_verdict. Qed.

(* the exceptions are necessary: the unconditional statements are false *)
Theorem C11_known_1_refuted :
  ~ (forall (hd : list N -> option (list N)) d frags, frags <> [] ->
       same_result (decode_chunks hd d frags) (decode hd d (concat frags))).
Proof. exact known_1_refuted. Qed.

Theorem C11_known_3_refuted :
  ~ (forall (hd : list N -> option (list N)) size evs,
       let d := run_events hd (decoder_new size) evs in
       t_size (d_table d) <= d_last_max d) /\
  ~ (forall (hd : list N -> option (list N)) d bs, wf d -> octets bs ->
       r_verdict (decode hd d bs) = VOk ->
       rfc_block_decodes hd h2_int_limit (abs (take_queued d)) bs
                         (r_fields (decode hd d bs)) (abs (r_dec (decode hd d bs)))).
Proof. exact known_3_refuted. Qed.
