(* C16, second half: "capacity a stream does not use returns to the connection and reaches other waiting
   streams" - with the pending_capacity FIFO explicit (Model/CapQueue.v) instead of an observed visiting order.
   Statements only (proofs: Proofs/CapQueueProofs.v).

   Vocabulary (Proofs/CapQueueProofs.v):
     AvNN st          every record's assigned capacity is >= 0 (part of SendFlowInv.InvD)
     additional s     min(requested - assigned, stream window - assigned)
     reached s o      try_assign_capacity gets past its early returns: not pending open/push, additional <> 0,
                      send side streaming or data buffered
     active s o       the stream is not evicted when popped: streaming or data buffered
     push_after       this try_assign_capacity call reaches `pending_capacity.push(stream)`
     fifo_step q q'   q' = skipn n q ++ pushed: streams leave at the front, enter at the back
     QInv st q        no duplicates, and nobody is queued while the connection has unassigned capacity *)
From H2V Require Import Base.Tac Model.SendFlow Model.CapQueue Ref.Accountant Proofs.SendFlowLists Proofs.SendFlowInv
  Proofs.SendFlowLedger Proofs.SendFlowRun Proofs.CapQueueProofs.
Local Open Scope Z_scope.

(* REFINEMENT: a run with the explicit queue is a SendFlow run on the same labels with the visits filled in by the
   model; every theorem about SendFlow runs (C16, C02) therefore holds for the computed visiting order *)
Theorem C16_fifo_refines :
  forall ls st q st' q' pls os,
  qrun st q ls = Some (st', q', pls, os) -> run st pls = inl (Some (st', os)).
Proof. exact qrun_refines. Qed.

(* ... and when the lock-step check accepts a recorded run, the visits the model computed are exactly the
   try_assign_capacity calls that were observed, and the queue it ends with is the observed queue *)
Theorem C16_fifo_check_sound :
  forall ls st q i fin,
  check_qrun st q i ls fin = 0%N ->
  exists st' os, qrun st q (map fst ls) = Some (st', fin, observed_labels (map fst ls), os).
Proof. exact check_qrun_sound. Qed.

(* C16_capacity_is_backed carried over, plus the queue invariant at the end of every error-free history *)
Theorem C16_fifo_capacity_is_backed :
  forall mb init ls st q pls outs,
  0 <= mb -> 0 <= init <= MAXW -> Forall label_ok pls ->
  qrun (init_state mb init) [] ls = Some (st, q, pls, outs) -> no_conn_err outs = true ->
  (exists a, acct_run (acct0 init) (all_wevs pls outs) = Some a /\
    sum_avail (c_strs st) <= a_credit a - a_sent a /\
    sum_avail (c_strs st) + c_avail st = c_win st /\
    forall s, In s (c_strs st) ->
      0 <= capacity (c_maxbuf st) s <= s_avail s /\
      (s_dead s = false ->
         exists c sn, a_find (s_id s) (a_streams a) = Some (c, sn) /\ s_avail s <= Z.max 0 (c - sn))) /\
  NoDup q /\ (c_avail st <= 0 \/ q = []).
Proof. exact qrun_capacity_is_backed. Qed.

(* QUEUE INVARIANT, one label from any state that satisfies the SendFlow invariant (also after a connection error):
   no duplicates, nobody queued while unassigned connection capacity exists, FIFO discipline *)
Theorem C16_fifo_queue_invariant :
  forall d st q l ob st' q' outs vs,
  0 <= d -> InvD d st -> label_ok l -> QInv st q -> qstep st q l ob = QOk st' q' outs vs ->
  QInv st' q' /\ fifo_step q q' /\ exists d', d <= d' /\ InvD d' st'.
Proof. exact qstep_inv. Qed.

(* ... over whole runs, Send::clear_queues included *)
Theorem C16_fifo_queue_invariant_run :
  forall ls d st q st' q' pls os,
  0 <= d -> InvD d st -> Forall label_ok pls -> QInv st q ->
  qrun st q ls = Some (st', q', pls, os) ->
  QInv st' q' /\ exists d', d <= d' /\ InvD d' st'.
Proof. exact qrun_inv. Qed.

(* MEANING OF AN ENTRY, at the one place where entries are made: try_assign_capacity queues the stream iff after
   the assignment it may send, still wants more than it has, and its own window has room - only connection
   capacity is missing - and then the connection has none left.  (The converse over time does NOT hold: see
   C16_fifo_stale_entry_refuted.) *)
Theorem C16_fifo_queued_iff_waiting :
  forall st sid o s st' outs,
  AvNN st -> find_s sid (c_strs st) = Some s -> try_assign st sid o = Ok st' outs ->
  exists s1, find_s sid (c_strs st') = Some s1 /\
    (push_after st sid o = true <->
       o_pending_open o = false /\ (o_streaming o = true \/ s_buf s1 <> 0) /\
       s_avail s1 < s_req s1 /\ s_avail s1 < as_size (s_win s1)) /\
    (push_after st sid o = true -> c_avail st' <= 0).
Proof. exact queued_iff_waiting. Qed.

(* every label changes the queue by pushes at the back only, or by pushes followed by ONE call of
   assign_connection_capacity from an entry state with AvNN: the three theorems below apply to every call made
   from a reachable state *)
Theorem C16_fifo_every_label_via_call :
  forall d st q l ob, 0 <= d -> InvD d st -> label_ok l -> via_call ob q (qstep st q l ob).
Proof. exact qstep_via_call. Qed.

(* NO OVERTAKING inside one call that hands n bytes back (lowered reservation, reset, end of stream, handle drop,
   SETTINGS decrease, WINDOW_UPDATE on stream 0): the head that still wants capacity receives
   min(unassigned, requested - assigned, stream window - assigned) first; a stream further back receives something
   only if everything in front of it has left the queue *)
Theorem C16_fifo_no_overtaking :
  forall st q n ob st' q' outs vs,
  q_assign_conn st q n ob = QOk st' q' outs vs -> AvNN st -> NoDup q ->
  (forall h t s o, q = h :: t -> 0 < c_avail st + n ->
     find_s h (c_strs st) = Some s -> find_ob h ob = Some o -> active s o = true -> reached s o = true ->
     exists s', find_s h (c_strs st') = Some s' /\
       s_avail s' = s_avail s + Z.min (c_avail st + n) (Z.min (s_req s - s_avail s) (as_size (s_win s) - s_avail s))) /\
  (forall pre k post, q = pre ++ k :: post -> find_s k (c_strs st') <> find_s k (c_strs st) ->
     forall i, In i pre -> ~ In i q').
Proof. exact assign_conn_fifo. Qed.

(* RETURNED CAPACITY REACHES THE WAITERS: after the call the connection has no unassigned capacity left or nobody is
   queued; and whoever left the queue no longer waits for connection capacity (evicted because it cannot send,
   pending open, wants no more, or blocked by its OWN stream window) *)
Theorem C16_returned_capacity_reaches_waiters :
  forall st q n ob st' q' outs vs,
  q_assign_conn st q n ob = QOk st' q' outs vs -> AvNN st -> NoDup q ->
  (c_avail st' <= 0 \/ q' = []) /\
  (forall k o s', In k q -> ~ In k q' -> find_ob k ob = Some o -> find_s k (c_strs st') = Some s' ->
     active s' o = false \/ o_pending_open o = true \/ ~ (s_avail s' < s_req s' /\ s_avail s' < as_size (s_win s'))).
Proof. exact assign_conn_reaches_waiters. Qed.

(* NO STARVATION UNDER RETURNS (bounded bypass): a call with capacity to hand out pops m >= 1 streams from the front;
   a waiting stream at position |pre| is among them, or moves up by exactly m places, untouched; the only stream
   that can be appended behind it is one of the popped ones, partly served with the last of the capacity.  So it is
   visited after at most |pre| + 1 such calls.  (Across labels the position never grows: fifo_step in
   C16_fifo_queue_invariant.) *)
Theorem C16_no_starvation_under_returns :
  forall st q n ob st' q' outs vs pre k post,
  q_assign_conn st q n ob = QOk st' q' outs vs -> AvNN st -> NoDup q ->
  0 < c_avail st + n -> q = pre ++ k :: post ->
  exists m pushed, (1 <= m)%nat /\ q' = skipn m q ++ pushed /\ (length pushed <= 1)%nat /\
    (forall x, In x pushed -> In x (firstn m q) /\ c_avail st' <= 0) /\
    ((m <= length pre)%nat ->
       q' = skipn m pre ++ k :: post ++ pushed /\ find_s k (c_strs st') = find_s k (c_strs st)).
Proof. exact assign_conn_progress. Qed.

(* the fuel of the model's loop is never exhausted (the loop of the code terminates: every iteration pops, and a
   push uses up the connection's capacity) *)
Theorem C16_fifo_loop_terminates :
  forall st q inc ob, AvNN st -> NoDup q -> q_assign_conn st q inc ob <> QStuck 50.
Proof. exact q_assign_conn_fuel. Qed.

(* REFUTED stronger reading: strict FIFO across calls.  A partly served head is re-queued at the BACK, so the next
   return reaches the streams behind it first (round-robin among the waiting streams). *)
Theorem C16_fifo_strict_order_refuted : ~ strict_fifo_across_calls.
Proof. exact strict_fifo_across_calls_refuted. Qed.

(* REFUTED stronger reading: a queued stream still wants capacity (stale entries exist; they are dropped at the next
   visit) *)
Theorem C16_fifo_stale_entry_refuted : ~ queued_implies_wants.
Proof. exact queued_implies_wants_refuted. Qed.

(* non-vacuity: three streams compete, a lowered reservation returns capacity, the partly served head is re-queued at
   the back; and an instance satisfying the hypotheses of the three call theorems *)
Theorem C16_fifo_demo :
  match qrun (init_state 409600 65535) [] demo with
  | Some (st, q, pls, _) =>
      q = [2%N] /\ avail_of st 1 = Some 65335 /\ avail_of st 2 = Some 190 /\ avail_of st 3 = Some 10 /\ c_avail st = 0 /\
      map visits_of (skipn 6 pls) = [[mkV 2 oS]; [mkV 3 oS; mkV 2 oS]]
  | None => False
  end.
Proof. exact demo_lowered_reservation_requeues_head. Qed.

Theorem C16_fifo_nonvacuous :
  AvNN demo_st /\ NoDup [2%N; 3%N] /\ 0 < c_avail demo_st + 100 /\
  [2%N; 3%N] = [2%N] ++ 3%N :: [] /\
  (exists s, find_s 2 (c_strs demo_st) = Some s /\ active s oS = true /\ reached s oS = true) /\
  exists st' outs vs, q_assign_conn demo_st [2%N; 3%N] 100 demo_ob = QOk st' [3%N; 2%N] outs vs /\
    avail_of st' 2 = Some 100 /\ avail_of st' 3 = Some 0 /\ c_avail st' = 0.
Proof. exact assign_conn_nonvacuous. Qed.
