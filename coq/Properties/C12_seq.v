(* Property C12 for SEQUENCES of frames (used by C01's wire composition): restatements only; every theorem
   is proved in Proofs/FrameSeqProofs.v from the single-frame theorems of C12 and is closed under the
   global context.  A HEADERS / PUSH_PROMISE with its CONTINUATION frames is ONE logical frame.
   [poll] = one call of FramedRead::poll_next (Model/WireCodec.v); [drain] = the reader loop of
   Model/ReadBuf.v ([pump] with enough fuel, Proofs/ReadBufProofs.v). *)
From H2V Require Import Base.Tac Base.Bytes Gen.FrameConsts Ref.Rfc9113Frame Model.FrameCodec Model.WriteBuf
  Model.ReadBuf Model.WireCodec Proofs.WriteBufProofs Proofs.FrameCodecProofs Proofs.ReadBufProofs
  Proofs.FrameSeqProofs.
Local Open Scope N_scope.

(* the reference stream decoder is compositional: the Length field of each 9-octet head determines the
   split, so decoding a concatenation is concatenating the decodings *)
Theorem C12_stream_compositional : forall max a b wa wb,
  rfc_decode_stream max a = Some wa -> rfc_decode_stream max b = Some wb ->
  rfc_decode_stream max (a ++ b) = Some (wa ++ wb).
Proof. exact rfc_decode_stream_app. Qed.

(* for every list of well-formed frames: the concatenation of their encodings decodes (reference:
   split, parse, CONTINUATION reassembly) to exactly their values, in order *)
Theorem C12_seq_roundtrip_stream : forall max fs,
  42 <= max -> max <= MAX_MAX_FRAME_SIZE -> frames_wf max fs = true ->
  exists bs, encode_all max fs = EOk bs /\ rfc_decode_stream max bs = Some (map wire_value_of fs).
Proof. exact frames_roundtrip_stream. Qed.

(* prefix form: every prefix of the octet stream is the complete encodings of a prefix of the frames
   (decoded to their values) followed by a STRICT prefix of the next frame's encoding *)
Theorem C12_seq_stream_prefix : forall max fs,
  42 <= max -> max <= MAX_MAX_FRAME_SIZE -> frames_wf max fs = true ->
  exists bs, encode_all max fs = EOk bs /\
    forall w tail, w ++ tail = bs ->
      exists fs1 fs2 w1 w2,
        fs = fs1 ++ fs2 /\ w = w1 ++ w2 /\ encode_all max fs1 = EOk w1 /\
        rfc_decode_stream max w1 = Some (map wire_value_of fs1) /\
        (w2 = [] \/ exists f fs2' b, fs2 = f :: fs2' /\ encode max f = EOk b /\
                                    DataPathProofs.strict_prefix w2 b).
Proof. exact frames_stream_prefix. Qed.

(* the reader loop of C12 is the iteration of poll_next until it answers Pending, for every HPACK instance *)
Theorem C12_pump_is_iterated_poll : forall (HS : Type) (ops : hpack_ops HS) n (st : rstate HS),
  (length (r_buf st) <= n)%nat ->
  drain ops st =
  match poll ops st with
  | (st', None) => (st', [])
  | (st', Some e) => let (s2, evs) := drain ops st' in (s2, e :: evs)
  end.
Proof. exact @drain_poll. Qed.

(* one logical frame: what the encoder writes for a well-formed value, in front of ANY further octets,
   comes out of ONE poll_next as the event carrying the value, leaving exactly the further octets
   buffered; every strict prefix of it yields Pending.  [cont_ok]: the receiver's CONTINUATION-flood limit
   is not exceeded. *)
Theorem C12_seq_poll_logical : forall smax rmax hls f,
  42 <= smax -> smax <= MAX_MAX_FRAME_SIZE -> smax <= rmax ->
  frame_wf smax f = true -> cont_ok smax rmax hls f ->
  exists bs, encode smax f = EOk bs /\ (9 <= length bs)%nat /\
    (forall st more, rclean rmax hls st -> r_buf st = bs ++ more ->
       exists hs', poll hp_raw st = (set_core st more LdHead None hs' false, Some (raw_event f))) /\
    (forall st, rclean rmax hls st -> DataPathProofs.strict_prefix (r_buf st) bs -> snd (poll hp_raw st) = None).
Proof. exact poll_logical. Qed.

(* sequences through the model's reader: whatever prefix of the sender's octets has arrived, in whatever
   reads, the reader has delivered a prefix of the frames in order; all of them once all octets are there *)
Theorem C12_seq_reader_prefix : forall smax rmax hls,
  42 <= smax -> smax <= MAX_MAX_FRAME_SIZE -> smax <= rmax ->
  forall fs, frames_wf smax fs = true -> Forall (cont_ok smax rmax hls) fs ->
  exists bs, encode_all smax fs = EOk bs /\
    forall chunks tail, concat chunks ++ tail = bs ->
      exists fs1 fs2, fs = fs1 ++ fs2 /\
        map raw_event_frame (snd (feed_all hp_raw (rinit [] rmax hls) chunks)) = map Some fs1 /\
        (tail = [] -> fs2 = []).
Proof. exact reader_frames_prefix. Qed.

Theorem C12_seq_nonvacuous :
  let fs := [FHeaders 1 (headers_END_HEADERS + headers_END_STREAM) None (repeat 65 200);
             FData 3 0 None [1; 2; 3];
             FPushPromise 1 headers_END_HEADERS 2 (repeat 66 70);
             FReset 3 8] in
  frames_wf 64 fs = true /\ Forall (cont_ok 64 16384 16777216) fs /\
  match encode_all 64 fs with
  | EOk bs =>
      payload_lengths (S (length bs)) bs = Some [64; 64; 64; 8; 3; 64; 10; 4] /\
      rfc_decode_stream 64 bs = Some (map wire_value_of fs) /\
      map raw_event_frame (snd (feed_all hp_raw (rinit [] 16384 16777216) (cut (repeat 7 60) bs))) = map Some fs /\
      map raw_event_frame (snd (feed_all hp_raw (rinit [] 16384 16777216) [firstn (length bs - 1) bs]))
        = map Some (removelast fs)
  | _ => False
  end.
Proof. exact frames_seq_nonvacuous. Qed.
