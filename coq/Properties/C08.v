(* C08 - no peer input can panic an endpoint: the inventory side.
   The no-panic theorems themselves are those of the area models (C02_flow_code_never_panics, C03_no_panic,
   C05_counts_invariant, C10_never_panics, C11_decode_no_fuel, C12_*_never_panics, C14_no_assert, C15_no_assert):
   ./check C08 audits each of them in its own Properties file. *)
From Coq Require Import String List NArith Bool.
From H2V Require Import Gen.PanicSites Model.PanicCover Proofs.PanicCoverProofs.
Import ListNotations.

(* every panic!/unreachable!/assert!/unwrap/expect site of the receive-path files, as regenerated from /repo's
   current source, has a coverage class *)
Theorem C08_sites_classified : forallb is_classified panic_sites = true.
Proof. exact sites_classified. Qed.

(* no entry of the hand-written table is stale *)
Theorem C08_table_live : forallb entry_live manual = true.
Proof. exact table_live. Qed.

(* every theorem the table cites is audited by the check *)
Theorem C08_cited_are_audited : forallb (fun n => existsb (String.eqb n) audited) (cited manual) = true.
Proof. exact cited_are_audited. Qed.

(* the inventory is not empty and the classes are all in use (non-vacuity) *)
Theorem C08_inventory_nonvacuous :
  (0 < count (fun c => match c with ByTheorem _ => true | _ => false end))%N /\
  (0 < count (fun c => match c with Residual _ => true | _ => false end))%N /\
  (100 < N.of_nat (length panic_sites))%N.
Proof. exact inventory_nonvacuous. Qed.
