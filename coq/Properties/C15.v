(* C15 — GOAWAY: the last-stream ids an endpoint sends never increase and are never below a processed peer stream; after
   receiving GOAWAY(L) the send side is capped at L, a larger L later is a connection error, the connection's result reports
   the peer's code and debug data; graceful shutdown.
   Statements only (proofs: Proofs/ControlProofs.v; model: Model/Control.v). *)
From H2V Require Import Base.Tac Base.Bytes Model.Control Proofs.ControlProofs.
Local Open Scope N_scope.

(* For ALL label sequences: (newest first) the last_stream_ids of the emitted GOAWAY frames never increase; each is >= the
   highest peer-initiated stream id processed before its emission (second component of the log entry); and the highest
   processed id never exceeds Recv::max_stream_id. *)
Theorem C15_monotone :
  forall p0 ls s tr,
  crun (init p0) ls = inl (s, tr) ->
  let h := hG_ (upd_trace (hist0 p0) tr) in
  desc (hg_goaways h) /\ Forall (fun e => snd e <= fst e) (hg_goaways h) /\ hg_maxproc h = r_last s /\ r_last s <= r_max s.
Proof. exact C15_monotone. Qed.

(* the assert! of GoAway::go_away (and every other assert of the four files and of Recv::go_away) never fires *)
Theorem C15_no_assert :
  forall p0 ls, match crun (init p0) ls with inr (_, SPanic _) => False | _ => True end.
Proof. exact C15_no_assert. Qed.

Theorem C15_headers_above_max_ignored :
  forall s id, can_recv s = true -> r_max s < id -> cstep s (LRecv (InHeaders id true)) = SStuck 11.
Proof. exact C15_headers_above_max_ignored. Qed.

Theorem C15_recv_goaway_accept :
  forall s last reason debug,
  can_recv s = true -> last <= s_max s ->
  cstep s (LRecv (InGoAway last reason debug)) =
  SOk (set_conn (set_ids s (r_last s) (r_max s) last) (c_state s) (Some (last, reason, debug)))
      [OStreamsGoAway last reason debug] FNext.
Proof. exact C15_recv_goaway_accept. Qed.

Theorem C15_recv_goaway_increase :
  forall s h last reason debug,
  InvG s h -> can_recv s = true -> s_max s < last ->
  cstep s (LRecv (InGoAway last reason debug)) =
  SOk (set_ga s true (Some (r_last s, PROTOCOL_ERROR)) (g_user s) (Some (r_last s, PROTOCOL_ERROR, []))) [OStreamsError] FLoop.
Proof. exact C15_recv_goaway_increase. Qed.

Theorem C15_recv_goaways :
  forall p0 ls s tr,
  crun (init p0) ls = inl (s, tr) ->
  let h := hE_ (upd_trace (hist0 p0) tr) in
  s_max s = head_last h /\ descE h /\ (forall l r d, c_error s = Some (l, r, d) -> hd_error h = Some (l, r, d)).
Proof. exact C15_recv_goaways. Qed.

Theorem C15_take_error :
  forall s ours i,
  c_state s = CClosed ours i ->
  cstep s LTakeError = SOk (set_conn s (CClosed ours i) None) [OConnResult (conn_result ours i (c_error s))] FReturn.
Proof. exact C15_take_error. Qed.

Theorem C15_graceful_start :
  forall s h,
  InvG s h -> g_going s = None ->
  cstep s LGraceful =
  SOk (set_ping (set_ga (set_ids s (r_last s) MAX_ID (s_max s)) (g_close_now s) (Some (MAX_ID, NO_ERROR)) (g_user s)
                        (Some (MAX_ID, NO_ERROR, [])))
                (Some (PING_SHUTDOWN, false)) (p_pong s) (p_user s))
      [ORecvMax MAX_ID] FNext.
Proof. exact C15_graceful_start. Qed.

Theorem C15_graceful_twice :
  forall s, g_going s <> None -> cstep s LGraceful = SOk s [] FNext.
Proof. exact C15_graceful_twice. Qed.

Theorem C15_goaway_emit :
  forall s l d,
  is_open s = true -> g_pending s = Some (l, NO_ERROR, d) -> g_close_now s = false ->
  cstep s (LPollGoAway Ready) = SOk (set_ga s false (g_going s) (g_user s) None) [OFrame (WGoAway l NO_ERROR d)] FNext.
Proof. exact C15_goaway_emit. Qed.

Theorem C15_shutdown_ping_emit :
  forall s pl,
  in_poll_ready s = true -> p_ping s = Some (pl, false) ->
  cstep s (LPollPing Ready) = SOk (set_ping s (Some (pl, true)) (p_pong s) (p_user s)) [OFrame (WPing false pl)] FNext.
Proof. exact C15_shutdown_ping_emit. Qed.

Theorem C15_shutdown_pong :
  forall s h b,
  InvG s h -> can_recv s = true -> p_ping s = Some (PING_SHUTDOWN, b) ->
  cstep s (LRecv (InPing true PING_SHUTDOWN)) =
  SOk (set_ga (set_ids (set_ping s None None (p_user s)) (r_last s) (r_last s) (s_max s)) false (Some (r_last s, NO_ERROR))
              (g_user s) (Some (r_last s, NO_ERROR, [])))
      [ORecvMax (r_last s)] FNext.
Proof. exact C15_shutdown_pong. Qed.

(* known finding KF-C15-1 (should_close_on_idle's `!= StreamId::MAX` test): closing when idle is proved except when the final
   GOAWAY names stream 2^31-1, and refuted in that case *)
Theorem C15_idle_close_except_known :
  forall s l r,
  is_open s = true -> g_close_now s = false -> g_going s = Some (l, r) -> l <> MAX_ID ->
  cstep s (LIdle false) = lift (ga_go_away_now s (r_last s, NO_ERROR, [])) [] FNext.
Proof. exact C15_idle_close_except_known. Qed.

Theorem C15_idle_close_known_refuted :
  forall s r hs,
  is_open s = true -> g_close_now s = false -> g_going s = Some (MAX_ID, r) -> c_error s = None ->
  cstep s (LIdle hs) = SOk s [] FPending.
Proof. exact C15_idle_close_known_refuted. Qed.

Theorem C15_known_refuted_run :
  match crun (init no_params)
             [ LPollGoAway Ready; LPollPong Ready; LPollPing Ready; LSettingsAck Ready None; LSettingsLocal Ready;
               LRecv (InHeaders MAX_ID true); LGraceful;
               LPollGoAway Ready; LPollPong Ready; LPollPing Ready; LSettingsAck Ready None; LSettingsLocal Ready;
               LRecv (InPing true PING_SHUTDOWN);
               LPollGoAway Ready; LPollPong Ready; LPollPing Ready; LSettingsAck Ready None; LSettingsLocal Ready;
               LIdle false ] with
  | inl (s, tr) =>
    frames_of tr = [WGoAway MAX_ID NO_ERROR []; WPing false PING_SHUTDOWN; WGoAway MAX_ID NO_ERROR []] /\
    c_state s = COpen /\ g_close_now s = false /\ snd (last tr (LIdle false, [], FNext)) = FPending
  | inr _ => False
  end.
Proof. exact demo_known_refuted. Qed.

Theorem C15_close_now_closes :
  forall s h l r,
  InvG s h -> is_open s = true -> g_close_now s = true -> g_user s = false -> g_going s = Some (l, r) ->
  exists o, cstep s (LPollGoAway Ready) =
            SOk (set_conn (set_ga s true (Some (l, r)) false None) (CClosing r ILibrary) (c_error s)) o FLoop /\
            (o = [] \/ exists d, g_pending s = Some (l, r, d) /\ o = [OFrame (WGoAway l r d)]).
Proof. exact C15_close_now_closes. Qed.

Theorem C15_closing_closed :
  forall s r i,
  c_state s = CClosing r i -> cstep s (LShutdown Ready) = SOk (set_conn s (CClosed r i) (c_error s)) [] FNext.
Proof. exact C15_closing_closed. Qed.

Theorem C15_nonvacuous :
  match crun (init no_params) demo_labels2 with
  | inl (s, tr) =>
    frames_of tr = [WGoAway 0 PROTOCOL_ERROR []] /\ results_of tr = [CRGoAway [100; 98; 103] 2 IRemote] /\ s_max s = 7
  | inr _ => False
  end.
Proof. exact demo_control2. Qed.

Theorem C15_nonvacuous_graceful :
  match crun (init no_params) demo_labels with
  | inl (s, tr) =>
    frames_of tr = [ WSettingsAck; WPing true 77; WPing false PING_USER; WGoAway MAX_ID NO_ERROR []; WPing false PING_SHUTDOWN;
                     WGoAway 3 NO_ERROR [] ] /\
    results_of tr = [CROk] /\ c_state s = CClosed NO_ERROR ILibrary /\ r_last s = 3 /\ r_max s = 3
  | inr _ => False
  end.
Proof. exact demo_control. Qed.
