(* Property C12 (frame codec): restatements only; every theorem is proved in Proofs/ and is closed
   under the global context.  Model: Model/{FrameCodec,ReadBuf,WriteBuf}.v (h2's src/frame/*.rs and
   src/codec/*.rs); reference: Ref/Rfc9113Frame.v (RFC 9113 sections 4.1, 4.2, 4.3, 6). *)
From H2V Require Import Base.Tac Base.Bytes Gen.FrameConsts Ref.Rfc9113Frame Model.FrameCodec Model.WriteBuf
  Model.ReadBuf Proofs.WriteBufProofs Proofs.FrameCodecProofs Proofs.ReadBufProofs.
Local Open Scope N_scope.

(* every frame an endpoint serialises is parsed back to the same frame by the independent RFC 9113
   parser, and by the model of h2's own parser *)
Theorem C12_roundtrip : forall max f,
  42 <= max -> max <= MAX_MAX_FRAME_SIZE ->
  frame_wf max f = true -> single_frame max f = true ->
  exists bs,
    encode max f = EOk bs /\
    rfc_parse_frame max bs = Accept (wire_value_of f) /\
    model_parse max bs = POk (LdFrame f).
Proof. exact FrameCodecProofs.C12_roundtrip. Qed.

(* ... including HEADERS / PUSH_PROMISE split into CONTINUATION frames: reference splitter, parser and
   reassembly give back the value that was sent *)
Theorem C12_roundtrip_stream : forall max f,
  42 <= max -> max <= MAX_MAX_FRAME_SIZE -> frame_wf max f = true ->
  exists bs, encode max f = EOk bs /\ rfc_decode_stream max bs = Some [wire_value_of f].
Proof. exact ReadBufProofs.C12_roundtrip_stream. Qed.

(* every octet string is given the same verdict, and on acceptance the same value, by the model of
   h2's frame loader and by the RFC grammar at the codec boundary (RST_STREAM / CONTINUATION on
   stream 0 are handed up and refused by the stream layer / the reassembly) -- no exception *)
Theorem C12_parse_agrees_with_rfc : forall max bs,
  bytes_ok bs = true ->
  agree (model_parse max bs) (rfc_parse_frame_codec max bs) = true.
Proof. exact FrameCodecProofs.C12_parse_agrees_with_rfc. Qed.

(* the codec-boundary grammar differs from the plain grammar only by deferring those two refusals *)
Theorem C12_codec_boundary_only_defers : forall max bs w,
  rfc_parse_frame_codec max bs = Accept w ->
  rfc_parse_frame max bs = Accept w \/
  (deferred_to_upper_layer w = true /\ rfc_parse_frame max bs = Reject PROTOCOL_ERROR).
Proof. exact FrameCodecProofs.codec_boundary_only_defers. Qed.

(* ... and the deferred CONTINUATION on stream 0 is always refused by decode_frame *)
Theorem C12_continuation_stream_zero_refused :
  forall (HS : Type) (ops : hpack_ops HS) mh mc pt hs bytes h payload,
  parse_head bytes = Some (h, payload) -> kind_new (h_kind h) = KContinuation -> h_sid h = 0 ->
  match pt with Some p => frame_sid (pt_frame p) <> 0 | None => True end ->
  snd (decode_frame ops mh mc pt hs bytes) = go_away_protocol.
Proof. exact @ReadBufProofs.continuation_stream_zero_refused. Qed.

Theorem C12_parse_never_panics : forall max bs, model_parse max bs <> PPanic.
Proof. exact FrameCodecProofs.model_parse_never_panics. Qed.

Theorem C12_load_never_panics : forall bs, 9 <= lenN bs -> load_frame bs <> PPanic.
Proof. exact FrameCodecProofs.load_frame_never_panics. Qed.

(* however the transport splits the reads, the reader yields the same events and ends in the same state *)
Theorem C12_read_chunking : forall (HS : Type) (ops : hpack_ops HS) chunks (st : rstate HS) bs,
  settled ops st -> concat chunks = bs ->
  feed_all ops st chunks = feed_all ops st [bs].
Proof. exact @ReadBufProofs.C12_read_chunking. Qed.

Theorem C12_read_chunking_init : forall (HS : Type) (ops : hpack_ops HS) hs0 max_frame max_hls chunks,
  feed_all ops (rinit hs0 max_frame max_hls) chunks = feed_all ops (rinit hs0 max_frame max_hls) [concat chunks].
Proof. exact @ReadBufProofs.C12_read_chunking_init. Qed.

(* partial writes never duplicate, drop or reorder octets *)
Theorem C12_write_no_dup_drop :
  forall vectored max ops script st' ws os,
    1 <= max -> max <= MAX_MAX_FRAME_SIZE ->
    WriteBuf.run ops (winit vectored max) script = (st', ws, os) ->
    exists total rest,
      encode_all max (buffered_frames ops os) = EOk total /\
      pending st' = EOk rest /\
      concat ws ++ rest = total.
Proof. exact WriteBufProofs.C12_write_no_dup_drop. Qed.

Theorem C12_write_prefix :
  forall vectored max ops script st' ws os,
    1 <= max -> max <= MAX_MAX_FRAME_SIZE ->
    WriteBuf.run ops (winit vectored max) script = (st', ws, os) ->
    exists total,
      encode_all max (buffered_frames ops os) = EOk total /\
      is_prefix (concat ws) total = true.
Proof. exact WriteBufProofs.C12_write_prefix. Qed.

Theorem C12_write_complete :
  forall vectored max ops script st' ws os,
    1 <= max -> max <= MAX_MAX_FRAME_SIZE ->
    WriteBuf.run ops (winit vectored max) script = (st', ws, os) ->
    pending st' = EOk [] ->
    encode_all max (buffered_frames ops os) = EOk (concat ws).
Proof. exact WriteBufProofs.C12_write_complete. Qed.

Theorem C12_write_zero : forall st st1 script,
  settle st = SBusy st1 ->
  flush st (TZero :: script) = (st1, [], FWriteZero, script) /\
  flush st (TAccept 0 :: script) = (st1, [], FWriteZero, script).
Proof. exact WriteBufProofs.C12_write_zero. Qed.

(* no emitted frame payload exceeds the encoder's max_frame_size *)
Theorem C12_send_limit : forall max f bs,
  42 <= max -> max <= MAX_MAX_FRAME_SIZE ->
  frame_wf max f = true -> encode max f = EOk bs ->
  all_payloads_le max bs = true.
Proof. exact WriteBufProofs.C12_send_limit. Qed.

Theorem C12_send_limit_data_enforced : forall st sid fl pad data st',
  buffer st (FData sid fl pad data) = BOk st' -> lenN data <= w_max st.
Proof. exact WriteBufProofs.C12_send_limit_data_enforced. Qed.

(* a frame above the local limit is refused with FRAME_SIZE_ERROR from its Length field alone *)
Theorem C12_recv_limit : forall (HS : Type) (ops : hpack_ops HS) (st : rstate HS) l0 l1 l2 more,
  r_dead st = false -> r_ld st = LdHead -> r_buf st = [] ->
  r_max_frame st < (l0 * 256 + l1) * 256 + l2 ->
  feed ops st (l0 :: l1 :: l2 :: more) =
    (set_core st (l0 :: l1 :: l2 :: more) LdHead (r_partial st) (r_hs st) true,
     [EvError (PEGoAway [] reason_FRAME_SIZE_ERROR)]).
Proof. exact @ReadBufProofs.C12_recv_limit. Qed.

Theorem C12_recv_dead_silent : forall (HS : Type) (ops : hpack_ops HS) chunks (st : rstate HS),
  r_dead st = true -> snd (feed_all ops st chunks) = [] /\ r_dead (fst (feed_all ops st chunks)) = true.
Proof. exact @ReadBufProofs.dead_silent_all. Qed.

(* from the initial state the reader never reaches a Rust panic and the model never runs out of fuel *)
Theorem C12_reader_never_panics : forall (HS : Type) (ops : hpack_ops HS) hs0 max_frame max_hls chunks,
  Forall clean_event (snd (feed_all ops (rinit hs0 max_frame max_hls) chunks)).
Proof. exact @ReadBufProofs.reader_never_panics. Qed.

(* the model's own reader parses the model's encoder output (CONTINUATION runs included) back to [f] *)
Theorem C12_roundtrip_reader : forall smax rmax hls f,
  42 <= smax -> smax <= MAX_MAX_FRAME_SIZE -> smax <= rmax ->
  frame_wf smax f = true ->
  continuations_needed smax f <= calc_max_continuation_frames hls rmax + 1 ->
  exists bs,
    encode smax f = EOk bs /\
    map raw_event_frame (snd (feed hp_raw (rinit [] rmax hls) bs)) = [Some f].
Proof. exact ReadBufProofs.C12_roundtrip_reader. Qed.

(* (literal HPACK instance) a header block that a fragment made malformed is never delivered by a later
   CONTINUATION, wherever the block was cut *)
Theorem C12_malformed_block_never_delivered : forall mh mc p (hs : lit_state) bytes f hs'',
  lt_malformed hs = true ->
  snd (decode_frame hp_lit mh mc (Some p) hs bytes) <> DEvent (EvHeaders f hs'').
Proof. exact ReadBufProofs.malformed_block_never_delivered. Qed.
