(* C17 at the dispatch layer: explicit resets, last-handle drops, what leaves the queue afterwards, how the peer's
   RST_STREAM / GOAWAY / a connection error reaches the handles.  Statements only; proofs in Proofs/DispatchReset.v
   and Proofs/DispatchSend.v.  Model: Model/Dispatch.v (lock-step: lib/props/parts/dispatch.py); composed with the state
   machine theorems C17_state_* of Properties/StreamState.v.  One step from ANY state, all observed inputs, every
   32-bit code.
   no_push q: the queue holds no unsent PUSH_PROMISE (every stream of a client, every pushed stream); when it does, the
   promised streams are failed together with the dropped promises (repair cc6ac6c) and the statements hold for the
   stream itself up to that (C09_wire_other_streams_untouched). *)
From H2V Require Import Base.Tac Base.Bytes Model.StreamState Ref.Rfc9113Stream Proofs.StreamStateProofs
  Model.Dispatch Proofs.DispatchRecv Proofs.DispatchReset Proofs.DispatchSend.
Local Open Scope N_scope.

(* send_reset(code): nothing when the stream is reset already; no RST_STREAM when it had closed cleanly and is flushed;
   else exactly one RST_STREAM with the caller's code - queued after the HEADERS (the first queued frame) of a stream
   that is not opened yet (what was queued behind them is discarded, repair a052906), else alone, that stream's own
   queued frames discarded; no other record changes; nothing goes to the codec here *)
Theorem C17_wire_explicit_reset :
  forall st k code can st' outs r,
  kget st k = Some r -> no_push (s_q r) = true -> step st (LSendReset k code can) = Ok st' outs ->
  (forall k', k' <> k -> kget st' k' = kget st k') /\ c_ids st' = c_ids st /\ has_emit outs = false /\
  exists r', kget st' k = Some r' /\ s_id r' = s_id r /\
  (is_reset (s_state r) = true ->
     queued_all outs = [] /\ s_state r' = s_state r /\ s_q r' = s_q r /\ s_infl r' = s_infl r) /\
  (is_reset (s_state r) = false ->
     s_state r' = Closed (CError (EReset (s_id r) code User)) /\
     (closed_full r = true -> queued_all outs = [] /\ s_q r' = []) /\
     (closed_full r = false ->
        queued_all outs = [(s_id r, QReset code)] /\ s_infl r' = None /\
        s_q r' = (if s_popen r then firstn 1 (s_q r) ++ [QReset code] else [QReset code]))).
Proof. exact explicit_reset. Qed.

(* the last handle is dropped: nothing if the stream has finished; else a reset is scheduled - CANCEL, or NO_ERROR for a
   server that had completed its response while the request was still arriving - the queue is left as it is *)
Theorem C17_wire_last_drop :
  forall st k can st' outs r,
  kget st k = Some r -> step st (LDropLast k can []) = Ok st' outs ->
  outs = [] /\ (forall k', k' <> k -> kget st' k' = kget st k') /\ c_ids st' = c_ids st /\
  exists r', kget st' k = Some r' /\ s_id r' = s_id r /\ s_q r' = s_q r /\ s_infl r' = s_infl r /\
  (is_closed (s_state r) = true -> s_state r' = s_state r) /\
  (is_closed (s_state r) = false -> s_state r' = Closed (ScheduledLibraryReset (drop_reason (c_role st) (s_state r)))).
Proof. exact last_drop. Qed.

(* what then leaves the queue: queued HEADERS first, buffered DATA discarded (kept for NO_ERROR), then exactly the
   RST_STREAM with the scheduled code, after which the record is an ordinary reset *)
Theorem C17_wire_pop_scheduled :
  forall st k o st' outs r reason,
  kget st k = Some r -> no_push (s_q r) = true -> get_scheduled_reset (s_state r) = Some reason ->
  step st (LPop k o) = Ok st' outs ->
  match s_q r with
  | [] => outs = [OEmit (WFrame (s_id r) (QReset reason))] /\
          exists r', kget st' k = Some r' /\ s_state r' = Closed (CError (EReset (s_id r) reason Library)) /\ s_q r' = []
  | QData eos :: q' =>
    if reason =? NO_ERROR
    then has_app outs = false
    else outs = [OCleared (s_id r)] /\ exists r', kget st' k = Some r' /\ s_q r' = [] /\ s_state r' = s_state r
  | QPush p :: q' => outs = [] \/ outs = [OEmit (WFrame (s_id r) (QPush p))]
  | f :: q' => outs = [OEmit (WFrame (s_id r) f)] /\ exists r', kget st' k = Some r' /\ s_q r' = q' /\ s_state r' = s_state r
  end.
Proof. exact pop_scheduled. Qed.

(* exactly one: a reset record emits a RST_STREAM only if one is in its queue, and nothing puts a second one there *)
Theorem C17_wire_reset_emitted_only_if_queued :
  forall st k o st' outs r code,
  kget st k = Some r -> get_scheduled_reset (s_state r) = None ->
  step st (LPop k o) = Ok st' outs ->
  In (OEmit (WFrame (s_id r) (QReset code))) outs -> exists q', s_q r = QReset code :: q'.
Proof. exact pop_reset_only_queued. Qed.

Theorem C17_wire_no_second_reset :
  forall st k r code can st' outs,
  kget st k = Some r -> is_reset (s_state r) = true ->
  step st (LSendReset k code can) = Ok st' outs -> queued_all outs = [].
Proof. exact reset_queues_no_second. Qed.

Theorem C17_wire_drop_after_end_nothing :
  forall st k r can st' outs,
  kget st k = Some r -> is_closed (s_state r) = true ->
  step st (LDropLast k can []) = Ok st' outs -> outs = [] /\ kget st' k = Some r.
Proof. exact drop_after_reset_nothing. Qed.

(* the peer's RST_STREAM(code), any code: the record takes exactly the state machine's recv_reset, its queue is
   discarded, and what a read / poll_reset on any handle of it is told is that state's answer *)
Theorem C17_wire_peer_reset_reaches_handles :
  forall st sid code o st' outs k r,
  iget st sid = Some (k, r) -> no_push (s_q r) = true ->
  step st (LRecvReset sid code o) = Ok st' outs -> result_of outs = ROk ->
  let s' := fst (recv_reset sid code (r_queued o) (s_state r)) in
  (exists r', kget st' k = Some r' /\ s_state r' = s' /\ s_q r' = [] /\ s_infl r' = None /\ s_id r' = s_id r) /\
  (forall k', k' <> k -> kget st' k' = kget st k') /\
  step st' (LPollRecv k) = Ok st' [OSurface (s_id r) (ensure_recv_open s')] /\
  (forall m, step st' (LPollReset k m) = Ok st' [OSurface (s_id r) (ensure_reason m s')]).
Proof. exact peer_reset_reaches_handles. Qed.

(* composed with C17_state_recv_reset_surfaces: exactly the received code, origin Remote *)
Theorem C17_wire_peer_reset_surfaces_exact :
  forall st sid code o st' outs k r,
  iget st sid = Some (k, r) -> no_push (s_q r) = true ->
  step st (LRecvReset sid code o) = Ok st' outs -> result_of outs = ROk ->
  is_closed (s_state r) = false \/ r_queued o = true ->
  (forall m, step st' (LPollReset k m) = Ok st' [OSurface (s_id r) (RReason (Some code))]) /\
  (is_recv_end_stream (s_state r) = false ->
   step st' (LPollRecv k) = Ok st' [OSurface (s_id r) (RProtoErr (EReset sid code Remote))]) /\
  (is_recv_end_stream (s_state r) = true ->
   step st' (LPollRecv k) = Ok st' [OSurface (s_id r) (RBool false)]).
Proof. exact peer_reset_surfaces_exact. Qed.

(* a connection error (our GOAWAY, an I/O failure, the error of handle_go_away) reaches every linked record (`failed`:
   the promised records failed together with a PUSH_PROMISE dropped from a parent's queue, repair cc6ac6c) *)
Theorem C17_wire_conn_error_reaches_handles :
  forall st e failed st' outs k r,
  step st (LHandleError e failed) = Ok st' outs -> kget st k = Some r -> is_linked st k = true ->
  ~ In k failed ->
  let s' := fst (handle_error e (s_state r)) in
  (exists r', kget st' k = Some r' /\ s_state r' = s' /\ s_q r' = [] /\ s_infl r' = None) /\
  c_conn_error st' = Some e /\
  step st' (LPollRecv k) = Ok st' [OSurface (s_id r) (ensure_recv_open s')] /\
  (forall m, step st' (LPollReset k m) = Ok st' [OSurface (s_id r) (ensure_reason m s')]).
Proof. exact conn_error_reaches_handles. Qed.

(* the peer's GOAWAY(last, code, debug data): every linked stream of ours above `last` fails with exactly that error,
   every other record is untouched *)
Theorem C17_wire_go_away_reaches_handles :
  forall st last code debug st' outs k r,
  step st (LRecvGoAway last code debug) = Ok st' outs -> result_of outs = ROk ->
  kget st k = Some r -> is_linked st k = true ->
  let e := EGoAway debug code Remote in
  exists r', kget st' k = Some r' /\
    (if (last <? s_id r) && is_local_init (c_role st) (s_id r)
     then s_state r' = fst (handle_error e (s_state r)) /\ s_q r' = [] /\ s_infl r' = None
     else r' = r) /\
  c_conn_error st' = Some e.
Proof. exact go_away_reaches_handles. Qed.

Theorem C17_wire_nonvacuous :
  (let st := mkC Client true true [(1, mkS 1 (Open Streaming AwaitingHeaders) true false false [QHeaders false false] None)]
                 [(1, 1)] (Some 3) (Some 2) MAX_ID MAX_ID None None in
   match step st (LSendReset 1 4294967295 true) with
   | Ok st' outs => queued_all outs = [(1, QReset 4294967295)] /\
                    match kget st' 1 with Some r' => s_q r' = [QHeaders false false; QReset 4294967295] | None => False end
   | _ => False
   end) /\
  (let st := mkC Client true true [(1, mkS 1 (HalfClosedLocal Streaming) false false false [] None)]
                 [(1, 1)] (Some 3) (Some 2) MAX_ID MAX_ID None None in
   match step st (LRecvReset 1 3735928559 (mkR false true)) with
   | Ok st' outs => step st' (LPollRecv 1) = Ok st' [OSurface 1 (RProtoErr (EReset 1 3735928559 Remote))]
   | _ => False
   end).
Proof. exact (conj ex_explicit_reset_after_headers ex_peer_reset_any_code). Qed.
