(* C20, the link of the hand-over model to the flow-control model (Model/SendFlow.v): restatements only.
   SendFlow's per-stream list `s_frames` evolves at a pop exactly like Handover's `abs_queue` at staging
   (C20_staging_charges_len_once, same `len`), re-queueing is a stutter for it (C20_reclaim_is_a_stutter_of_the_flow_model),
   clear_queue empties both (C20_clear_discards_everything_once).  So the accounting theorems of C02 / C16, which are about
   SendFlow, are not disturbed by the unlocked window. *)
From H2V Require Import Base.Tac Model.SendFlow Proofs.HandoverFlow.
Local Open Scope Z_scope.

Theorem C20_flow_pop_queue :
  forall st sid sz max_len st' outs,
  step st (LPopData sid sz max_len) = Ok st' outs ->
  exists s s' q,
    find_s sid (c_strs st) = Some s /\ s_frames s = sz :: q /\
    find_s sid (c_strs st') = Some s' /\
    s_frames s' = (if pop_len s sz max_len <? sz then [sz - pop_len s sz max_len] else []) ++ q /\
    s_buf s' = s_buf s - pop_len s sz max_len /\
    s_win s' = s_win s - pop_len s sz max_len /\
    c_win st' = c_win st - pop_len s sz max_len.
Proof. exact sendflow_pop_queue. Qed.

Theorem C20_flow_clear_queue :
  forall st sid st' outs,
  clear_queue st sid = Ok st' outs ->
  exists s s', find_s sid (c_strs st) = Some s /\ find_s sid (c_strs st') = Some s' /\ s_frames s' = [] /\ s_buf s' = 0.
Proof. exact sendflow_clear_queue. Qed.
