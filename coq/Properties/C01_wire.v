(* Property C01, wire round trip for the CONCRETE codec: restatements only; proofs in
   Proofs/WireCodecProofs.v (on Proofs/FrameSeqProofs.v = C12 for sequences and Proofs/HpackSyncProofs.v =
   C10 with C11), closed under the global context.
   [h2_wcodec p] (Model/WireCodec.v): sending side = HPACK encoder model + frame encoder model (HEADERS /
   PUSH_PROMISE split into CONTINUATION, DATA, RST_STREAM); receiving side = one FramedRead::poll_next of
   the reader model + HPACK decoder model (Huffman decoder model inside).
   [codec_sync_on P proj c R] is DataPath's [codec_sync] relative to the side conditions P and to what the
   wire preserves (proj = [norm_wire]: the head/interim/trailers tag of a HEADERS frame is not on the wire).
   Side conditions [sframe_ok p es (sid, f)], exactly:
     stream id below 2^31 and not 0;  DATA: payload of octets, at most the sender's max_frame_size;
     RST_STREAM: 32-bit code;  PUSH_PROMISE: promised id below 2^31;
     HEADERS / PUSH_PROMISE: names and values octet strings shorter than 2^24 (C10), fields accepted by the
     validation of h2's decoder (C11), and the block the encoder produces needs no more CONTINUATION frames
     than the receiver's flood limit (C12, [block_fits]). *)
From H2V Require Import Base.Tac Base.Bytes Gen.FrameConsts.
From H2V Require Import Model.FrameCodec Model.ReadBuf Model.HpackEnc Model.HpackDec.
From H2V Require Import Proofs.HpackSyncProofs Proofs.FrameSeqProofs.
From H2V Require Import Model.StreamState Model.DataPath Model.WireCodec Proofs.DataPathProofs Proofs.WireCodecProofs.
Local Open Scope N_scope.

(* the relative interface generalises DataPath's: codec_sync is the instance P = True, proj = identity *)
Theorem C01_wire_interface_generalised : forall (F ES DS : Type) (c : wcodec F ES DS) (R : ES -> DS -> Prop),
  codec_sync c R <-> codec_sync_on (fun _ _ => True) (fun f => f) c R.
Proof. exact @codec_sync_is_on. Qed.

Theorem C01_wire_prefix_on :
  forall (F ES DS : Type) (P : ES -> F -> Prop) (proj : F -> F) (c : wcodec F ES DS) (R : ES -> DS -> Prop),
  codec_sync_on P proj c R ->
  forall fs es ds w tail fuel,
  R es ds -> all_ok P c es fs -> w ++ tail = enc_all c es fs -> (length fs < fuel)%nat ->
  exists fs1 fs2, fs = fs1 ++ fs2 /\ dec_all c fuel ds w = map proj fs1.
Proof. exact @wire_prefix_on. Qed.

(* THE INSTANCE: decode after encode is the frame (modulo the tag) whatever octets follow, a strict prefix
   of an encoding is "need more", no frame from no octets, and the HPACK contexts stay synchronised *)
Theorem C01_wire_h2_sync : forall p,
  wparams_ok p -> codec_sync_on (sframe_ok p) norm_wire (h2_wcodec p) hsync.
Proof. exact h2_sync. Qed.

(* C01_wire_roundtrip for the concrete codec *)
Theorem C01_wire_roundtrip_h2 : forall p,
  wparams_ok p ->
  forall chain ls st os es ds w tail sid,
  run (init_state chain) ls = ROk st os ->
  hsync es ds ->
  all_ok (sframe_ok p) (h2_wcodec p) es (wire_frames os) ->
  w ++ tail = enc_all (h2_wcodec p) es (wire_frames os) ->
  let rx := dec_all (h2_wcodec p) (S (length (wire_frames os))) ds w in
  (exists later, rx ++ later = map norm_wire (wire_frames os)) /\
  (exists more, payloads (frames_of sid rx) ++ more = payloads (submitted sid ls)) /\
  (no_drop sid os -> exists more, flat (frames_of sid rx) ++ more = map norm_atom (flat (submitted sid ls))).
Proof. exact wire_roundtrip_h2. Qed.

(* ... from the start of a connection (Encoder::new / Decoder::new) *)
Theorem C01_wire_roundtrip_h2_init : forall p m0,
  wparams_ok p ->
  forall chain ls st os w tail sid,
  run (init_state chain) ls = ROk st os ->
  all_ok (sframe_ok p) (h2_wcodec p) (enc_new m0) (wire_frames os) ->
  w ++ tail = enc_all (h2_wcodec p) (enc_new m0) (wire_frames os) ->
  let rx := dec_all (h2_wcodec p) (S (length (wire_frames os))) (decoder_new (N.min m0 4096)) w in
  (exists later, rx ++ later = map norm_wire (wire_frames os)) /\
  (exists more, payloads (frames_of sid rx) ++ more = payloads (submitted sid ls)) /\
  (no_drop sid os -> exists more, flat (frames_of sid rx) ++ more = map norm_atom (flat (submitted sid ls))).
Proof. exact wire_roundtrip_h2_init. Qed.

(* the sender's octet stream of the theorems above IS what the frame writer of C12 serialises: enc_all of
   the concrete codec = WriteBuf's encode_all of the frame values handed to Codec::buffer ([h2_frames]),
   all of them well-formed and within the receiver's CONTINUATION limit -- so C12_write_no_dup_drop /
   C12_write_prefix (every partial-write pattern leaves a prefix of it on the transport) and
   C12_seq_reader_prefix (every chunking of a prefix of it through the reader loop) apply to it *)
Theorem C01_wire_octets_are_writer_input : forall p,
  wparams_ok p ->
  forall fs es ds, hsync es ds -> all_ok (sframe_ok p) (h2_wcodec p) es fs ->
  WriteBuf.encode_all (wp_smax p) (h2_frames p es fs) = FrameCodec.EOk (enc_all (h2_wcodec p) es fs) /\
  frames_wf (wp_smax p) (h2_frames p es fs) = true /\
  Forall (cont_ok (wp_smax p) (wp_rmax p) (wp_hls p)) (h2_frames p es fs).
Proof. exact enc_all_is_encode_all. Qed.

(* the side conditions are decidable: an executable check implies them *)
Theorem C01_wire_side_conditions_decidable : forall p fs es,
  all_okb p es fs = true -> all_ok (sframe_ok p) (h2_wcodec p) es fs.
Proof. exact all_okb_ok. Qed.

(* non-vacuity: two interleaved streams, a body cut by a 1-octet window and reclaimed from the codec,
   trailers; all hypotheses hold, and the concrete decoder returns the frames from all octets, all but the
   trailers from all but the last three octets *)
Theorem C01_wire_roundtrip_h2_nonvacuous :
  wparams_ok ex_p /\
  exists st os,
    run (init_state 256) ex_labels = ROk st os /\
    wire_frames os = [(1, ex_head); (3, ex_head); (1, FData [10] false); (3, FData [20;21;22] false);
                      (1, FData [11;12;13;14] true); (3, ex_trailers)] /\
    all_ok (sframe_ok ex_p) (h2_wcodec ex_p) (enc_new 4096) (wire_frames os) /\
    let total := enc_all (h2_wcodec ex_p) (enc_new 4096) (wire_frames os) in
    dec_all (h2_wcodec ex_p) (S (length (wire_frames os))) (decoder_new 4096) total
      = map norm_wire (wire_frames os) /\
    dec_all (h2_wcodec ex_p) (S (length (wire_frames os))) (decoder_new 4096) (firstn (length total - 3) total)
      = map norm_wire (removelast (wire_frames os)) /\
    length total = 81%nat.
Proof. exact wire_roundtrip_h2_nonvacuous. Qed.
