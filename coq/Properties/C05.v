(* C05 — concurrent-stream limits are honoured in both directions and slots are recycled.
   Statements only (proofs: Proofs/CountsProofs.v; model: Model/Counts.v, tied to
   /repo/src/proto/streams/counts.rs by the lock-step correspondence). *)
From H2V Require Import Base.Tac Model.Counts Proofs.CountsProofs.
Local Open Scope Z_scope.

(* Every state reachable by ANY sequence of calls into counts.rs that respects the callers'
   query-then-increment discipline (which the correspondence checks on the real code) satisfies the
   invariant: counters equal the number of counted records per direction, no record is counted twice,
   the receive count is within the advertised limit; and no assert! of counts.rs fires. *)
Theorem C05_counts_invariant :
  forall ls st, CInv st ->
  match crun st ls with
  | inl (Some (st', _)) => CInv st'
  | inl None => True
  | inr (_, CPanic _) => False
  | inr (_, _) => True
  end.
Proof. exact crun_inv. Qed.

Theorem C05_initial_state_ok :
  forall ms mr mlr mrr mle, limit_ok mr -> CInv (cinit ms mr mlr mrr mle).
Proof. exact cinit_inv. Qed.

Theorem C05_send_admission :
  forall st key st' outs,
  CInv st -> cstep st (IncSend key) = COk st' outs ->
  below (num_send st) (max_send st) = true /\ num_send st' = num_send st + 1 /\
  match max_send st' with None => True | Some m => num_send st' <= m end.
Proof. exact C05_send_admission. Qed.

Theorem C05_recv_limit :
  forall st, CInv st -> match max_recv st with None => True | Some m => num_recv st <= m end.
Proof. exact C05_recv_limit. Qed.

Theorem C05_slot_recycled :
  forall st key o st' outs,
  CInv st -> cstep st (TransitionAfter key o) = COk st' outs ->
  t_closed o = true -> t_sched_reset o = false ->
  cmem key (counted st') = false /\
  (cmem key (counted st) = true ->
     if t_local o then num_send st' = num_send st - 1 /\ num_recv st' = num_recv st
     else num_recv st' = num_recv st - 1 /\ num_send st' = num_send st) /\
  (cmem key (counted st) = false -> num_send st' = num_send st /\ num_recv st' = num_recv st).
Proof. exact C05_slot_recycled. Qed.

Theorem C05_nonvacuous :
  match crun (cinit (Some 1) (Some 5) 10 20 None) demo_clabels with
  | inl (Some (st, outs)) => num_send st = 1 /\ outs = [[CBool true]; []; [CBool false]; []; [CBool true]; []]
  | _ => False
  end.
Proof. exact demo_counts. Qed.

(* the slot of a locally reset stream is given back exactly when its record has left the reset-expiration
   queue, flushed or not (the behaviour repaired in /repo: before, a record that expired while its RST_STREAM
   was still queued leaked its slot for the rest of the connection) *)
Theorem C05_reset_slot_returned :
  forall st key o st' outs,
  cstep st (TransitionAfter key o) = COk st' outs ->
  num_lreset st' = if negb (t_pending_reset o) && t_reset_counted o then num_lreset st - 1 else num_lreset st.
Proof. exact reset_slot_returned. Qed.

Theorem C05_reset_slot_fix_needed :
  exists st key o, cstep_prefix st key o = COk st [] /\ t_pending_reset o = false /\ t_reset_counted o = true /\
                   num_lreset st = 1 /\
                   match cstep st (TransitionAfter key o) with COk st' _ => num_lreset st' = 0 | _ => False end.
Proof. exact reset_slot_fix_needed. Qed.
