(* Property C10 composed with C11: h2's HPACK ENCODER model feeding h2's HPACK DECODER model (Huffman
   decoder model inside).  Restatements only; proofs in Proofs/HpackSyncProofs.v, closed under the global
   context.  Side conditions, exactly: [history_ok] (C10: names and values are octet strings shorter than
   2^24, no block starts with a nameless item) and [history_valid] (C11: every submitted field passes the
   validation h2's decoder applies, Header::new).  No known-class hypothesis. *)
From Coq Require Import String.
From H2V Require Import Base.Tac Base.Bytes Model.Huffman Model.HpackInt Ref.Rfc7541Block Model.HpackEnc Model.HpackDec.
From H2V Require Import Proofs.HpackIntProofs Proofs.HpackEncProofs Proofs.HpackDecProofs Proofs.HpackSyncProofs.
Local Open Scope N_scope.

(* whatever the encoder model emits for octet strings is a string of octets, in EVERY encoder state *)
Theorem C10_sync_encoder_octets : forall st fl st2 out,
  forallb field_ok fl = true -> enc_encode st fl = EOk (st2, out) -> octets out.
Proof. exact enc_encode_octets. Qed.

(* both ends start synchronised *)
Theorem C10_sync_init : forall m0, hsync (enc_new m0) (decoder_new (N.min m0 4096)).
Proof. exact hsync_init. Qed.

(* one block: from synchronised ends ([hsync]: both invariants, equal tables, maximum within the decoder's
   ceiling), after any SETTINGS values [ups] told to both ends, the encoder's block is accepted by the
   decoder with exactly the submitted fields, the ends are synchronised again, the block satisfies RFC 7541
   including clause 4.2, and every fragmentation of it gives the same result *)
Theorem C10_sync_block : forall st d ups fl,
  hsync st d -> block_ok fl = true -> fields_valid (submitted fl) = true ->
  exists st2 out,
    enc_encode (fold_left enc_update_max_size ups st) fl = EOk (st2, out) /\
    let d1 := fold_left queue_size_update ups d in
    r_verdict (decode huff_decode_opt d1 out) = VOk /\
    r_fields (decode huff_decode_opt d1 out) = submitted fl /\
    hsync st2 (r_dec (decode huff_decode_opt d1 out)) /\
    rfc_block_decodes huff_decode_opt h2_int_limit (abs (take_queued d1)) out (submitted fl)
                      (abs (r_dec (decode huff_decode_opt d1 out))) /\
    (forall frags, frags <> [] -> concat frags = out ->
       same_result (decode_chunks huff_decode_opt d1 frags) (decode huff_decode_opt d1 out)).
Proof. exact block_both_ends. Qed.

(* the known classes of C11 do not occur on encoder output: no size update after a field (KF-C11-1), and
   the conclusions of C11's two `_except_known` theorems hold without `~ required_update_pending`
   (KF-C11-3), because the encoder signals every reduction at the start of the block *)
Theorem C10_sync_outside_known_classes : forall st d ups fl,
  hsync st d -> block_ok fl = true -> fields_valid (submitted fl) = true ->
  exists st2 out,
    enc_encode (fold_left enc_update_max_size ups st) fl = EOk (st2, out) /\
    let d1 := fold_left queue_size_update ups d in
    let d2 := r_dec (decode huff_decode_opt d1 out) in
    ~ size_update_after_field huff_decode_opt d1 out /\
    rfc_block_decodes huff_decode_opt h2_int_limit (abs (take_queued d1)) out
                      (r_fields (decode huff_decode_opt d1 out)) (abs d2) /\
    (t_size (d_table d2) <= t_max (d_table d2) /\ t_max (d_table d2) <= d_last_max d2).
Proof. exact enc_blocks_outside_known_classes. Qed.

(* every history, every fragmentation *)
Theorem C10_sync_history : forall (m0 : N) (h : history),
  history_ok h = true -> history_valid h = true ->
  exists st outs,
    enc_run (enc_new m0) h = EOk (st, outs) /\
    forall fragss, fragmentation fragss outs ->
      exists d',
        dec_h2_run (decoder_new (N.min m0 4096)) h fragss = Some (map (fun b => submitted (snd b)) h, d') /\
        t_entries (d_table d') = et_entries (e_table st) /\
        t_size (d_table d') = et_size (e_table st) /\
        t_max (d_table d') = et_max (e_table st) /\
        t_size (d_table d') <= t_max (d_table d') /\ t_max (d_table d') <= d_last_max d'.
Proof. exact hpack_both_ends. Qed.

Theorem C10_sync_nonvacuous :
  history_ok demo_history = true /\ history_valid demo_history = true /\
  match enc_run (enc_new 4096) demo_history with
  | EOk (st, outs) =>
    let fragss := map (fun o => map (fun b => [b]) o) outs in
    fragmentation fragss outs /\
    match dec_h2_run (decoder_new 4096) demo_history fragss with
    | Some (fss, d') => fss = map (fun b => submitted (snd b)) demo_history /\
                        t_entries (d_table d') = et_entries (e_table st)
    | None => False
    end
  | EFail _ => False
  end.
Proof. exact hpack_both_ends_nonvacuous. Qed.
