(* C02 — never sends more DATA than the peer's stream and connection windows allow.
   Statements only; proofs are in Proofs/SendFlow*.v.  Model: Model/SendFlow.v (tied to
   /repo/src/proto/streams/{prioritize,send,stream,flow_control}.rs by the lock-step correspondence);
   reference: Ref/Accountant.v (RFC 9113 6.9 on wire events). *)
From H2V Require Import Base.Tac Model.SendFlow Ref.Accountant Proofs.SendFlowInv Proofs.SendFlowLedger Proofs.SendFlowRun.
Local Open Scope Z_scope.

(* For every configuration, every label sequence (every history of user sends, reservations,
   resets, WINDOW_UPDATEs, SETTINGS_INITIAL_WINDOW_SIZE changes up and down, every order in which
   freed capacity is handed to waiting streams, every stream-state history) on which no connection
   error was reported: the wire events of the run are accepted by the RFC accountant, i.e. every
   non-empty DATA frame fits in the remaining stream credit and in the remaining connection credit,
   with windows allowed to go negative through SETTINGS. *)
Theorem C02_never_exceeds_credit :
  forall (mb init : Z) (ls : list label) (st : fstate) (outs : list (list out)),
  0 <= mb -> 0 <= init <= MAXW -> Forall label_ok ls ->
  run (init_state mb init) ls = inl (Some (st, outs)) -> no_conn_err outs = true ->
  exists a, acct_run (acct0 init) (all_wevs ls outs) = Some a.
Proof. exact C02_never_exceeds_credit. Qed.

(* one-step form, usable from any reachable state (also after a connection error, with debt d) *)
Theorem C02_step_simulation :
  forall d st a l st' outs,
  0 <= d -> InvD d st -> R st a -> label_ok l ->
  step st l = Ok st' outs -> has_conn_err outs = false ->
  exists a', acct_run a (wevs l outs) = Some a' /\ R st' a'.
Proof. exact step_sim. Qed.

(* no reachable label trips an assert!/debug_assert!/unsigned underflow of the flow-control code *)
Theorem C02_flow_code_never_panics :
  forall (mb init : Z) (ls : list label) (k n : N),
  0 <= mb -> 0 <= init <= MAXW -> Forall label_ok ls ->
  run (init_state mb init) ls <> inr (k, Panic n).
Proof. exact C02_no_panic. Qed.

(* the hypotheses are satisfiable and the conclusion is not vacuous *)
Theorem C02_nonvacuous :
  Forall label_ok demo_labels /\
  match run (init_state 409600 100) demo_labels with
  | inl (Some (st, outs)) =>
      no_conn_err outs = true /\ concat outs <> [] /\
      acct_run (acct0 100) (all_wevs demo_labels outs) <> None
  | _ => False
  end.
Proof. exact (conj demo_labels_ok demo_runs). Qed.
