(* C20 — handles may be used from any thread concurrently with the connection.  Restatements only.

   A. every operation is one uninterrupted hold of `inner`; `send_buffer` only inside it; nothing blocks under a guard
      (inventory regenerated from /repo's CURRENT source by translator/gen_locks.py; finite, hence decided by computation)
      => no wait cycle for any number of threads running any sequences of these functions (general theorem about ordered
      acquisition of non-reentrant locks).
   B. what crosses the unlock points of poll_complete (a partly written DATA frame) is handed over correctly for ALL
      interleavings of lock sections, codec steps and other threads' operations.
   C. the lock-free user-ping cell for all interleavings of its atomic operations: C14_user_cell_interleavings,
      C14_user_cell_atomic (Properties/C14.v), cited, not repeated.
   D. a poisoned lock never aborts the process through a handle destructor and never is entered silently.
   The theorems of C02/C03/C05/C16/... quantify over ALL sequences of lock-atomic labels; with A they cover every
   interleaving of handle operations with the connection's progress. *)
From H2V Require Import Base.Tac Gen.LockInventory Model.Locks Proofs.LocksProofs Model.Handover Proofs.HandoverProofs
                        Proofs.LockInventoryProofs.
From Coq Require Import String.
Local Open Scope Z_scope.

(* ---- A ---- *)
Theorem C20_lock_order : forallb order_ok lock_sites = true.
Proof. exact lock_order_ok. Qed.

Theorem C20_single_hold : forallb single_hold lock_sites = true.
Proof. exact single_hold_ok. Qed.

Theorem C20_unlock_points : conn_unlock_points = ["Streams::send_pending_refusal"%string; "Streams::poll_complete"%string].
Proof. exact unlock_points_are. Qed.

Theorem C20_inventory_sections : forallb (fun s => program_ok (sections_of s)) lock_sites = true.
Proof. exact inventory_sections_ok. Qed.

Theorem C20_no_deadlock_general :
  forall cfg0 cfg : config, wf cfg0 -> reachable cfg0 cfg ->
  (forall t : thread, In t cfg -> todo t = []) \/ (exists (i : nat) (cfg' : config), Locks.step cfg i = Some cfg').
Proof. exact no_deadlock. Qed.

Theorem C20_no_deadlock :
  forall (threads : list (list site)) (cfg : config),
  (forall t s, In t threads -> In s t -> In s lock_sites) ->
  reachable (map h2_thread (map (flat_map sections_of) threads)) cfg ->
  (forall t, In t cfg -> todo t = []) \/ exists i cfg', Locks.step cfg i = Some cfg'.
Proof. exact inventory_no_deadlock. Qed.

Theorem C20_inverted_order_deadlocks :
  Locks.run inv_cfg0 [0; 1]%nat = Some inv_cfg1 /\ reachable inv_cfg0 inv_cfg1 /\ stuck inv_cfg1 /\ ~ wf inv_cfg0 /\ ~ wf inv_cfg1.
Proof. exact inverted_order_deadlocks. Qed.

Theorem C20_hooks_under_lock :
  forallb (fun p => if locked_family (fst p) then match snd p with HLocked => true | _ => false end else true) hook_sites = true.
Proof. exact family_hooks_are_under_the_lock. Qed.

Theorem C20_no_unsafe_in_modelled_files : forallb (fun p => negb (modelled_file (fst p))) unsafe_blocks = true.
Proof. exact no_unsafe_in_modelled_files. Qed.

(* ---- B ---- *)
Theorem C20_handover_invariant :
  forall st l, Inv st -> match Handover.step st l with Ok st' _ => Inv st' | Stuck _ => True | Panic _ => False end.
Proof. exact step_inv. Qed.

Theorem C20_handover_never_panics :
  forall thr ls k n, 0 < thr -> Handover.run (init_state thr) ls <> inr (k, Panic n).
Proof. exact handover_never_panics. Qed.

Theorem C20_requeue_iff_not_reset :
  forall st k tail,
  Inv st -> hs_codec st = CLast k tail ->
  exists st', hs_fl st' = FNothing /\ hs_codec st' = CEmpty /\
  ((hs_cleared st = false /\ 0 < tail /\ reclaim st = Ok st' [ORequeue k tail] /\
    exists s s', find_h k (hs_streams st) = Some s /\ find_h k (hs_streams st') = Some s' /\
                 h_queue s' = tail :: h_queue s /\ same_but_queue s s' /\
                 forall k', k' <> k -> find_h k' (hs_streams st') = find_h k' (hs_streams st))
   \/ (hs_cleared st = true /\ reclaim st = Ok st' [ODiscard k tail] /\ hs_streams st' = hs_streams st)
   \/ (hs_cleared st = false /\ tail = 0 /\ reclaim st = Ok st' [ODone k] /\ hs_streams st' = hs_streams st)).
Proof. exact reclaim_spec. Qed.

Theorem C20_reset_marks_owner :
  forall st k st' o, codec_key (hs_codec st) = Some k -> clear st k = Ok st' o -> hs_cleared st' = true.
Proof. exact clear_marks_owner. Qed.

Theorem C20_other_streams_do_not_mark :
  forall st k kc st' o, codec_key (hs_codec st) = Some kc -> k <> kc -> clear st k = Ok st' o -> hs_cleared st' = hs_cleared st.
Proof. exact clear_other_keeps. Qed.

Theorem C20_other_labels_do_not_mark :
  forall st l st' o,
  match l with HNew _ | HRemove _ | HSendData _ _ | HWrite _ | HFlushCont => True | _ => False end ->
  Handover.step st l = Ok st' o -> hs_cleared st' = hs_cleared st.
Proof. exact other_labels_keep_cleared. Qed.

Theorem C20_staging_resets_mark :
  forall st k sz len st' o, do_item st (IData k sz len) = Ok st' o -> hs_cleared st' = false.
Proof. exact stage_resets_flag. Qed.

Theorem C20_owner_not_released_while_tail_in_flight :
  forall st k, Inv st -> hs_fl st = FData k -> 0 < codec_tail (hs_codec st) ->
  match remove st k with Ok _ _ => False | _ => True end.
Proof. exact owner_not_removable. Qed.

Theorem C20_reclaim_charges_nothing :
  forall st st' o k s s',
  reclaim st = Ok st' o -> find_h k (hs_streams st) = Some s -> find_h k (hs_streams st') = Some s' -> same_but_queue s s'.
Proof. exact reclaim_accounting. Qed.

Theorem C20_reclaim_is_a_stutter_of_the_flow_model :
  forall st st' o k s s',
  Inv st -> reclaim st = Ok st' o -> find_h k (hs_streams st) = Some s -> find_h k (hs_streams st') = Some s' ->
  abs_queue st' s' = abs_queue st s.
Proof. exact reclaim_abs_queue. Qed.

Theorem C20_staging_charges_len_once :
  forall st k sz len st' o s,
  Inv st -> reclaimed st -> do_item st (IData k sz len) = Ok st' o -> find_h k (hs_streams st) = Some s ->
  exists q s', h_queue s = sz :: q /\ find_h k (hs_streams st') = Some s' /\
    h_chg s' = h_chg s + len /\ h_buf s' = h_buf s - len /\ h_sub s' = h_sub s /\ h_drop s' = h_drop s /\
    abs_queue st' s' = (if len <? sz then [sz - len] else []) ++ q /\
    forall k', k' <> k -> find_h k' (hs_streams st') = find_h k' (hs_streams st).
Proof. exact stage_spec. Qed.

Theorem C20_clear_discards_everything_once :
  forall st k st' o s,
  clear st k = Ok st' o -> find_h k (hs_streams st) = Some s ->
  exists s', find_h k (hs_streams st') = Some s' /\ h_queue s' = [] /\ h_buf s' = 0 /\
             h_drop s' = h_drop s + h_buf s /\ h_chg s' = h_chg s /\ h_sub s' = h_sub s /\ abs_queue st' s' = [].
Proof. exact clear_spec. Qed.

(* ---- D ---- *)
Theorem C20_destructors_tolerate_poison :
  drop_unwrap_paths = [] /\ List.length destructor_modes = 4%nat /\ forallb tolerant destructor_modes = true.
Proof. exact destructors_present_and_tolerant. Qed.

Theorem C20_unwinding_never_aborts :
  forall ds poisoned, (forall m, In m ds -> In m destructor_modes) -> unwind ds poisoned <> RAborts.
Proof. exact destructors_never_abort. Qed.

Theorem C20_unwrap_in_destructor_would_abort :
  forall ds1 ds2, forallb tolerant ds1 = true -> unwind (ds1 ++ MUnwrap :: ds2) true = RAborts.
Proof. exact unwrap_in_destructor_aborts. Qed.

Theorem C20_poison_surfaces :
  forall m, acquire m true false <> RRuns /\ acquire m true false <> RAborts.
Proof. exact poison_surfaces. Qed.

Theorem C20_poison_surfaces_in_inventory :
  forallb (fun s => if mem_str (s_fn s) destructor_fns then true
                    else forallb (fun a => match a_poison a with PUnwrap | PErr => true | _ => false end) (s_acqs s))
          lock_sites = true.
Proof. exact non_destructor_sites_surface_poison. Qed.

(* ---- non-vacuity ---- *)
Theorem C20_nonvacuous_reset_in_window :
  match Handover.run (init_state 1024) demo_reset with
  | inl (st, outs) => nth 9 outs [] = [ODiscard kA 3000] /\ nth 2 outs [] = [OStaged kA 2000 true] /\
                      hs_fl st = FNothing /\ map h_queue (hs_streams st) = [[40]]
  | inr _ => False
  end.
Proof. exact demo_reset_run. Qed.

Theorem C20_nonvacuous_requeue_at_front :
  match Handover.run (init_state 1024) demo_requeue with
  | inl (st, outs) => nth 6 outs [] = [ORequeue kA 3000] /\ map h_queue (hs_streams st) = [[3000; 77]] /\
                      map h_buf (hs_streams st) = [3077] /\ map h_chg (hs_streams st) = [2000]
  | inr _ => False
  end.
Proof. exact demo_requeue_run. Qed.

Theorem C20_nonvacuous_invariant : exists st, Inv st /\ hs_codec st = CLast kA 3000 /\ hs_cleared st = false.
Proof. exact inv_satisfiable. Qed.
