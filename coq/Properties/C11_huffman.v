(* Property C11, part "Huffman string coding" (RFC 7541 section 5.2 and Appendix B).
   Restatements only; proofs are in Proofs/HuffmanProofs.v.

   Reading guide
   * [enc_table], [dec_table] : ENCODE_TABLE / DECODE_TABLE of /repo/src/hpack/huffman/table.rs,
     regenerated on every run (Gen/HuffTables.v);
   * [huff_decode], [huff_encode] : model of `decode` / `encode` of /repo/src/hpack/huffman/mod.rs
     as written (Model/Huffman.v); results [HOk out | HErr | HPanic | HLoop];
   * [rfc7541_huffman], [huff_valid], [ref_huff_decode], [bits_of_bytes] : the RFC side
     (Ref/Rfc7541HuffTable.v, Ref/Rfc7541Huff.v). *)
From H2V Require Import Base.Tac Base.Bytes.
From H2V Require Import Gen.HuffTables Ref.Rfc7541HuffTable Ref.Rfc7541Huff Model.Huffman.
From H2V Require Import Proofs.HuffmanProofs.
Local Open Scope N_scope.

(* h2's encode table is the code of RFC 7541 Appendix B *)
Theorem C11_huff_table_is_rfc : enc_table = rfc7541_huffman.
Proof. exact gen_enc_table_is_rfc. Qed.

(* the reference decoder accepts exactly the grammar of RFC 7541 section 5.2:
   code words of octets (never EOS) followed by fewer than 8 one-bits *)
Theorem C11_huff_ref_is_rfc_grammar :
  forall (bs : list bool) (syms : list N),
    ref_huff_decode bs = Some syms <-> huff_valid bs syms.
Proof. exact ref_huff_decode_iff. Qed.

(* for EVERY byte string, h2's table-driven decoder returns exactly what the RFC assigns to it:
   Ok with the RFC's octets, or Err -- never a panic, never another answer *)
Theorem C11_huff_exact :
  forall bytes : list N,
    bytes_ok bytes = true ->
    huff_decode bytes =
      match ref_huff_decode (bits_of_bytes bytes) with
      | Some syms => HOk syms
      | None => HErr
      end.
Proof. exact huff_decode_exact. Qed.

(* whatever h2 encodes, h2 decodes to the same octets *)
Theorem C11_huff_roundtrip :
  forall s : list N, bytes_ok s = true -> huff_decode (huff_encode s) = HOk s.
Proof. exact huff_roundtrip. Qed.
