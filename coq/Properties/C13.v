(* C13 - malformed HTTP messages are neither delivered nor generated.
   Statements only; proofs are in Proofs/HttpRulesProofs.v.  Model: Model/HttpRules.v (tied to
   /repo/src/{frame/headers,hpack/header,server,client}.rs and src/proto/streams/{recv,send,stream,
   streams}.rs by the correspondence run of lib/props/parts/httprules.py); reference:
   Ref/Rfc9113Http.v (RFC 9113 section 8, RFC 8441, RFC 9110 8.6). *)
From Coq Require Import String.
From H2V Require Import Base.Tac Base.Bytes Model.HttpTokens Ref.Rfc9113Http Model.HttpRules Proofs.HttpRulesProofs.
Local Open Scope N_scope.

(* Receive side.  For every role, every way a block can be handed to the application (request,
   final response, interim response, promised request, trailers), every configuration (extended
   CONNECT, header-list limit), every answer of the http crate's URI syntax checks, every END_STREAM
   flag, every content-length state of the stream and EVERY field list: a block that RFC 9113
   section 8 calls malformed is not handed to the application - except in the two known classes
   (KF-C13-1: handed over as a response and no :status field; KF-C13-2: handed over as trailers and
   some pseudo-header field).  The content-length of a message is examined when the stream is not
   answering a HEAD request, which is when the reference accounts it against DATA. *)
Theorem C13_recv_except_known :
  forall (r : role) (k : kind) (hk : head_kind) (ext : bool) (max : N) (cl : clen) (eos : bool)
         (v : verdicts) (fs : list field),
    ~ KnownClass k fs ->
    (accounted k hk = true -> cl <> CLHead) ->
    malformed_block r k hk eos fs = true ->
    delivers k (model_recv r k ext max cl eos v fs) = false.
Proof. exact C13_recv_except_known. Qed.

(* the known classes are real deviations of the code (closed witnesses = the replay inputs) *)
Theorem C13_known_1_refuted :
  exists fs, malformed_block Client Response HasContent true fs = true /\
             delivers Response (model_recv Client Response false DEFAULT_MAX CLOmitted true V_all fs) = true.
Proof. exact C13_known_1_refuted. Qed.

Theorem C13_known_2_refuted :
  exists fs, malformed_block Client Trailers HasContent true fs = true /\
             delivers Trailers (model_recv Client Trailers false DEFAULT_MAX (CLRemaining 0) true V_all fs) = true.
Proof. exact C13_known_2_refuted. Qed.

(* The stream machine that is compared with the implementation: whatever one step queues for the
   application stems from the frame at hand and is justified - a head or trailer section by the
   theorem above (not malformed unless in a known class), a promised request unconditionally. *)
Theorem C13_stream_step :
  forall (c : config) (s : sstate) (f : frame),
  exists newq newp,
    s_queue (step c s f) = s_queue s ++ newq /\ s_pushq (step c s f) = s_pushq s ++ newp /\
    Forall (justified c s f) newq /\ Forall (justified_push c f) newp.
Proof. exact C13_stream_step. Qed.

(* End of a body.  For every content-length state and every sequence of DATA frames ending with
   END_STREAM: a clean end is reported exactly when the payload octets sum to the remaining
   content-length (none declared: always; response to HEAD: only for zero octets); otherwise the
   stream is failed; the body is never left open. *)
Theorem C13_length :
  forall (cl : clen) (pre : list (N * bool)) (len : N),
    open_frames pre ->
    run_data cl (pre ++ [(len, true)]) =
      if length_verdict cl (sumN (map fst pre) + len) then BClean else BError.
Proof. exact C13_length. Qed.

(* ... which is the reference's body_ok for a message that has content *)
Theorem C13_length_clean_iff :
  forall (declared : option N) (pre : list (N * bool)) (len : N),
    open_frames pre ->
    (run_data (cl_of declared) (pre ++ [(len, true)]) = BClean <->
     body_ok declared HasContent (map fst (pre ++ [(len, true)])) = true).
Proof. exact C13_length_clean_iff. Qed.

(* how a head sets the state, exactly as coded (HEAD; first content-length value whatever the status,
   204/304 included; otherwise the state is kept, possibly from an earlier 1xx head; the 204/304
   exemption concerns END_STREAM on the HEADERS frame only) *)
Theorem C13_length_head :
  forall cl eos b cl', head_content_length cl eos b = Some cl' ->
    (cl = CLHead /\ cl' = CLHead) \/
    (cl <> CLHead /\ first_value cl_name (b_fields b) = None /\ cl' = cl) \/
    (cl <> CLHead /\ exists v n, first_value cl_name (b_fields b) = Some v /\ parse_u64 v = Some n /\
        cl' = CLRemaining n /\ (eos = true -> n = 0 \/ status_not_204_304 (b_pseudo b) = false)).
Proof. exact C13_length_head. Qed.

(* a body ended by a trailer section: the trailers are handed over only when nothing remains *)
Theorem C13_length_trailers :
  forall n lens cl' b,
    after_open (CLRemaining n) lens = Some cl' ->
    (delivers Trailers (fst (recv_trailers cl' true b)) = true <-> sumN lens = n).
Proof. exact C13_length_trailers. Qed.

(* Send side.  Send::check_headers (send_request, send_response, interim responses, trailers,
   push_request) accepts a header map exactly when it has no connection-specific field and no TE
   value other than "trailers".  Uppercase names, invalid octets, unknown or misplaced pseudo-header
   fields cannot be expressed in the types of the send API. *)
Theorem C13_send :
  forall fields : list field,
    check_headers fields = true <->
    (existsb connection_specific fields = false /\ existsb bad_te fields = false).
Proof. exact C13_send. Qed.

(* what send_request / push_request put on the wire is not malformed, for every method, URI (by its
   parts), version and representable header map - except in known class KF-C13-3 *)
Theorem C13_send_except_known :
  forall (method : list N) (us ua up : option (list N)) (h2 : bool) (fields w : list field),
    representable fields ->
    send_request method us ua up h2 fields = Some w ->
    ~ KnownSend w ->
    malformed Server Request w = false.
Proof. exact C13_send_except_known. Qed.

Theorem C13_send_push_except_known :
  forall (method : list N) (us ua up : option (list N)) (fields w : list field),
    representable fields ->
    send_push method us ua up fields = Some w ->
    ~ KnownSend w ->
    malformed Client PushedRequest w = false.
Proof. exact C13_send_push_except_known. Qed.

Theorem C13_known_3_refuted :
  exists method us ua up h2 fields w,
    representable fields /\ send_request method us ua up h2 fields = Some w /\ malformed Server Request w = true.
Proof. exact C13_known_3_refuted. Qed.

(* the hypotheses are satisfiable and the conclusions are not vacuous *)
Theorem C13_nonvacuous :
  (~ KnownClass Request (good_request ++ [(bstr "connection", bstr "close")]) /\
   malformed_block Server Request HasContent false (good_request ++ [(bstr "connection", bstr "close")]) = true /\
   malformed_block Server Request HasContent false good_request = false /\
   delivers Request (model_recv Server Request false DEFAULT_MAX CLOmitted false V_all good_request) = true /\
   delivers Response (model_recv Client Response false DEFAULT_MAX CLOmitted true V_all [(bstr ":status", bstr "200")]) = true) /\
  (exists w, send_request (bstr "GET") (Some (bstr "https")) (Some (bstr "example.com")) (Some (bstr "/x")) false
               [(bstr "accept", bstr "*/*"); (bstr "te", bstr "trailers")] = Some w /\ ~ KnownSend w /\
             send_request (bstr "GET") (Some (bstr "https")) (Some (bstr "example.com")) (Some (bstr "/x")) false
               [(bstr "te", bstr "trailers"); (bstr "te", bstr "gzip")] = None).
Proof. exact (conj C13_recv_nonvacuous C13_send_nonvacuous). Qed.
