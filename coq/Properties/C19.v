(* C19 — finished streams are forgotten and an idle client connection closes itself.
   Statements only (proofs: Proofs/StoreProofs.v, Proofs/StoreInv.v; model: Model/Store.v, tied to
   /repo/src/proto/streams/{store,stream,streams,counts}.rs and proto/connection.rs by the lock-step correspondence). *)
From H2V Require Import Base.Tac Model.Counts Model.Store Proofs.CountsProofs Proofs.StoreLists Proofs.StoreInv Proofs.StoreProofs.
Local Open Scope N_scope.

(* The invariant holds initially and after ANY sequence of labels (for every choice of slab indices, every interleaving
   of inserts, queue operations, handle creation / clone / drop, Streams clone / drop and transition_after, and every
   value of the observed inputs). *)
Theorem C19_initial_state_ok :
  forall ms mr mlr mrr mle, limit_ok mr -> SInv (sinit ms mr mlr mrr mle).
Proof. exact sinit_inv. Qed.

Theorem C19_invariant :
  forall ls st, SInv st ->
  match srun st ls with
  | inl (Some (st', _)) => SInv st'
  | _ => True
  end.
Proof. exact srun_inv. Qed.

(* No assert / underflow / `dangling store key` panic of the modelled code fires along any label sequence, except when a
   label is applied to a key argument that does not resolve in the state it is applied to (the caller's own Ptr). *)
Theorem C19_no_panic :
  forall ls st, SInv st -> run_ok st ls.
Proof. exact srun_no_panic. Qed.

(* Every key held by a live handle, by a queue or by the id map resolves - to the record the handle was created for
   (same serial), to a record carrying the queue's flag, to a record with that id - and resolve never returns a record whose
   id differs from the key's. *)
Theorem C19_no_stale_key :
  forall st, SInv st ->
  (forall k s, In (k, s) (handles st) -> exists r, resolve st k = Some r /\ r_serial r = s /\ 0 < r_ref r) /\
  (forall q k, In (q, k) (qs st) -> exists r, resolve st k = Some r /\ r_fl r (flag_of q) = true) /\
  (forall id idx, alook id (ids st) = Some idx -> exists r, resolve st (idx, id) = Some r) /\
  (forall k r, resolve st k = Some r -> r_id r = snd k).
Proof. exact no_stale_key. Qed.

Theorem C19_released_is_removed :
  forall st k o r st' outs,
  SInv st -> resolve st k = Some r ->
  so_closed o = true -> r_ref r = 0 -> no_flags r = true ->
  sstep st (LTransitionAfter k o) = SOk st' outs ->
  alook (fst k) (slab st') = None /\ resolve st' k = None /\ alook (r_id r) (ids st') = None /\
  outs = [OBool true; OBool true] /\
  (so_sched o = false -> cmem (r_serial r) (counted (cs st')) = false /\
     (cmem (r_serial r) (counted (cs st)) = true ->
        if so_local o then (num_send (cs st') = num_send (cs st) - 1)%Z else (num_recv (cs st') = num_recv (cs st) - 1)%Z)).
Proof. exact released_is_removed. Qed.

Theorem C19_no_premature_removal :
  forall st l st' outs idx r,
  sstep st l = SOk st' outs -> alook idx (slab st) = Some r -> alook idx (slab st') = None ->
  r_ref r = 0 /\ no_flags r = true.
Proof. exact no_premature_removal. Qed.

Theorem C19_kept_has_reason :
  forall st, SInv st ->
  forall idx r, alook idx (slab st) = Some r ->
  0 < r_ref r \/ (exists f, r_fl r f = true) \/ r_closed r = false \/ r_owed r = true.
Proof. exact kept_has_reason. Qed.

Theorem C19_kept_has_reason_quiescent :
  forall st st' outs, SInv st -> sstep st LQuiesce = SOk st' outs ->
  forall idx r, alook idx (slab st') = Some r ->
  r_owed r = false /\ (0 < r_ref r \/ (exists f, r_fl r f = true) \/ r_closed r = false).
Proof. exact kept_has_reason_quiescent. Qed.

Theorem C19_reset_slot_returned :
  forall st k o r st' outs,
  sstep st (LTransitionAfter k o) = SOk st' outs -> resolve st k = Some r ->
  so_reset_counted o = true -> r_fl r FReset = false ->
  (num_lreset (cs st') = num_lreset (cs st) - 1)%Z.
Proof. exact reset_slot_returned. Qed.

Theorem C19_idle_client_closes :
  forall st st' outs, SInv st -> sstep st LMaybeClose = SOk st' outs ->
  st' = st /\
  (handles st = [] -> nstreams st = 1 -> counted (cs st) = [] -> outs = [OGoAwayNow]) /\
  (handles st <> [] \/ 1 < nstreams st \/ counted (cs st) <> [] -> outs = []).
Proof. exact idle_client_closes. Qed.

Theorem C19_streams_drop_wakes :
  forall st st' outs, sstep st LSDrop = SOk st' outs ->
  refs st' = refs st - 1 /\ (outs = [OWakeConn] <-> refs st' = 1).
Proof. exact streams_drop_wakes. Qed.

Theorem C19_handle_drop_wakes :
  forall st k s c st1 o1 st2 o2,
  sstep st (LHDrop k s c) = SOk st1 o1 -> sstep st1 LHDropEnd = SOk st2 o2 ->
  refs st1 = refs st - 1 /\ st2 = st1 /\ (o2 = [OWakeConn] <-> refs st1 = 1).
Proof. exact handle_drop_wakes. Qed.

Theorem C19_handle_drop_closed_wakes :
  forall st k s c st' outs r,
  sstep st (LHDrop k s c) = SOk st' outs -> resolve st k = Some r ->
  (outs = [OWakeConn] <-> (r_ref r = 1 /\ c = true)).
Proof. exact handle_drop_closed_wakes. Qed.

Theorem C19_one_reference_left :
  forall st, SInv st -> 1 <= nstreams st -> refs st = 1 -> nstreams st = 1 /\ handles st = [].
Proof. exact one_reference_left. Qed.

Theorem C19_evicted_record_released_except_known :
  forall st q k st1 o r1 st2 outs,
  SInv st -> sstep st (LPop q) = SOk st1 [OKey k] ->
  resolve st1 k = Some r1 -> r_ref r1 = 0 -> no_flags r1 = true -> so_closed o = true ->
  sstep st1 (LTransitionAfter k o) = SOk st2 outs ->
  resolve st2 k = None /\ alook (fst k) (slab st2) = None.
Proof. exact evicted_record_released_except_known. Qed.

Theorem C19_known_evict_refuted :
  srun (sinit None None 0%Z 20%Z None)
       [ LInsert 0 1 1; LPush KCap (0, 1); LTransitionAfter (0, 1) (mkSO true false false true); LQuiesce;
         LPop KCap; LQuiesce ] = inr (5, SStuck 9).
Proof. exact known_evict_refuted. Qed.

Theorem C19_nonvacuous :
  match srun (sinit (Some 5%Z) None 10%Z 20%Z None) demo_slabels with
  | inl (Some (st, outs)) =>
    slab st = [] /\ ids st = [] /\ refs st = 1 /\ handles st = [] /\
    nth 7 outs [] = [] /\ nth 15 outs [] = [OWakeConn] /\ nth 16 outs [] = [OBool true; OBool true] /\
    nth 19 outs [] = [OWakeConn] /\ nth 20 outs [] = [OGoAwayNow]
  | _ => False
  end.
Proof. exact demo_store. Qed.

Theorem C19_slot_reuse_nonvacuous :
  match srun (sinit None None 10%Z 20%Z None)
             [ LInsert 0 1 1; LTransitionAfter (0, 1) (mkSO true false false true); LInsert 0 2 3 ] with
  | inl (Some (st, _)) => resolve st (0, 1) = None /\ exists r, resolve st (0, 3) = Some r /\ r_serial r = 2
  | _ => False
  end.
Proof. exact demo_slot_reuse. Qed.
