(* C04 at the dispatch layer: what the API calls put on a stream's queue, what leaves the queues, the identifiers.
   Statements only; proofs in Proofs/DispatchSend.v and Proofs/DispatchReset.v.  Model: Model/Dispatch.v (lock-step:
   lib/props/parts/dispatch.py, which compares at every pop the frame that really left the queue); composed with
   C04_state_* of Properties/StreamState.v (a successful send_open / send_close is the transition of RFC 9113 5.1;
   after END_STREAM or a reset the state machine refuses every further send).  One step from ANY state, all observed
   inputs.  Order within a stream is queue order (Model/DataPath.v: C01_send_split_preserves for DATA frames written
   in parts); order across streams is whatever sequence of LPop occurs.  The reference sender automaton these local
   facts are meant to establish for whole emission logs is Ref/Rfc9113Stream.v wire_step / wire_accepts. *)
From H2V Require Import Base.Tac Base.Bytes Model.StreamState Ref.Rfc9113Stream Proofs.StreamStateProofs
  Model.Dispatch Proofs.DispatchRecv Proofs.DispatchReset Proofs.DispatchSend.
Local Open Scope N_scope.

(* a new request: refused without a trace when the identifiers have run out (never wrapped), for a server, after a
   connection error; else it takes next_stream_id, its HEADERS wait behind the concurrency gate, next_stream_id moves
   to the next identifier of the same parity or to the overflow marker *)
Theorem C04_wire_send_request_opens :
  forall st eos rejected hdr_ok nk st' outs,
  ids_wf st = true ->
  step st (LSendRequest eos rejected hdr_ok nk) = Ok st' outs ->
  match result_of outs with
  | ROk =>
    exists id, c_send_next st = Some id /\ c_send_next st' = next_id id /\ is_server (c_role st) = false /\
               c_conn_error st = None /\
               queued_all outs = [(id, QHeaders eos false)] /\
               kget st' nk = Some (mkS id (fst (send_open eos Idle)) true false false [QHeaders eos false] None) /\
               snd (send_open eos Idle) = RUnit /\
               (forall k, k <> nk -> kget st' k = kget st k)
  | _ => queued_all outs = [] /\ c_slab st' = c_slab st /\ c_ids st' = c_ids st /\
         (c_send_next st = None -> st' = st /\ result_of outs = RUser UOverflowedStreamId \/ c_conn_error st <> None)
  end.
Proof. exact send_request_opens. Qed.

Theorem C04_wire_next_id_increases :
  forall id n, next_id id = Some n -> id < n /\ n mod 2 = id mod 2 /\ n <= MAX_ID.
Proof. exact next_id_increases. Qed.

(* a PUSH_PROMISE: only from a server, on a stream of the peer whose send half is not closed (open or half-closed
   (remote) for the peer), while the peer accepts pushes and below its GOAWAY; the promised stream gets our next
   identifier and is gated behind its PUSH_PROMISE *)
Theorem C04_wire_push_request_reserves :
  forall st k convert_ok hdr_ok nk st' outs parent,
  kget st k = Some parent -> step st (LPushRequest k convert_ok hdr_ok nk) = Ok st' outs ->
  has_emit outs = false /\
  match result_of outs with
  | ROk =>
    exists id, c_send_next st = Some id /\ c_send_next st' = next_id id /\ (c_send_max st <? id) = false /\
               is_server (c_role st) = true /\ is_local_init (c_role st) (s_id parent) = false /\
               c_push_remote st = true /\ is_send_closed (s_state parent) = false /\
               queued_all outs = [(s_id parent, QPush id)] /\
               kget st' nk = Some (mkS id ReservedLocal false true false [] None) /\
               (exists p', kget st' k = Some p' /\ s_q p' = s_q parent ++ [QPush id] /\ s_state p' = s_state parent)
  | _ => queued_all outs = []
  end.
Proof. exact push_request_reserves. Qed.

(* HEADERS / DATA / trailers / interim responses are queued exactly where the state machine's send_open /
   is_send_streaming / is_send_awaiting_headers permit them, at the end of that stream's queue *)
Theorem C04_wire_send_response_queues :
  forall st k eos hdr_ok st' outs r,
  kget st k = Some r -> step st (LSendResponse k eos hdr_ok) = Ok st' outs ->
  (forall k', k' <> k -> kget st' k' = kget st k') /\ has_emit outs = false /\
  match result_of outs with
  | ROk => exists s', send_open eos (s_state r) = (s', RUnit) /\ queued_all outs = [(s_id r, QHeaders eos false)] /\
                      exists r', kget st' k = Some r' /\ s_state r' = s' /\ s_q r' = s_q r ++ [QHeaders eos false]
  | _ => queued_all outs = [] /\ st' = st
  end.
Proof. exact send_response_queues. Qed.

Theorem C04_wire_send_data_queues :
  forall st k eos too_big st' outs r,
  kget st k = Some r -> step st (LSendData k eos too_big) = Ok st' outs ->
  (forall k', k' <> k -> kget st' k' = kget st k') /\ has_emit outs = false /\
  match result_of outs with
  | ROk => is_send_streaming (s_state r) = true /\ queued_all outs = [(s_id r, QData eos)] /\
           exists r', kget st' k = Some r' /\ s_q r' = s_q r ++ [QData eos] /\
                      s_state r' = (if eos then fst (send_close (s_state r)) else s_state r)
  | _ => queued_all outs = [] /\ st' = st
  end.
Proof. exact send_data_queues. Qed.

Theorem C04_wire_send_trailers_queues :
  forall st k hdr_ok st' outs r,
  kget st k = Some r -> step st (LSendTrailers k hdr_ok) = Ok st' outs ->
  (forall k', k' <> k -> kget st' k' = kget st k') /\ has_emit outs = false /\
  match result_of outs with
  | ROk => is_send_streaming (s_state r) = true /\ queued_all outs = [(s_id r, QTrailers)] /\
           exists r', kget st' k = Some r' /\ s_q r' = s_q r ++ [QTrailers] /\ s_state r' = fst (send_close (s_state r))
  | _ => queued_all outs = [] /\ st' = st
  end.
Proof. exact send_trailers_queues. Qed.

Theorem C04_wire_send_info_queues :
  forall st k eos hdr_ok st' outs r,
  kget st k = Some r -> step st (LSendInfo k eos hdr_ok) = Ok st' outs ->
  (forall k', k' <> k -> kget st' k' = kget st k') /\ has_emit outs = false /\
  match result_of outs with
  | ROk => is_send_awaiting_headers (s_state r) = true /\ eos = false /\ queued_all outs = [(s_id r, QHeaders false true)] /\
           exists r', kget st' k = Some r' /\ s_q r' = s_q r ++ [QHeaders false true] /\ s_state r' = s_state r
  | _ => queued_all outs = [] /\ st' = st
  end.
Proof. exact send_info_queues. Qed.

(* nothing is sent on a stream that is idle on the wire: pop_frame never visits a stream whose HEADERS wait for a
   concurrency slot or whose PUSH_PROMISE is still queued *)
Theorem C04_wire_pop_needs_send_ready :
  forall st k o st' outs r,
  kget st k = Some r -> step st (LPop k o) = Ok st' outs -> s_popen r = false /\ s_ppush r = false.
Proof. exact pop_needs_send_ready. Qed.

(* what goes to the codec is the front of that stream's queue (a DATA frame possibly in part, then without END_STREAM),
   or with an empty queue the scheduled RST_STREAM: at most one frame, in queue order *)
Theorem C04_wire_pop_emits_front :
  forall st k o st' outs r,
  kget st k = Some r -> step st (LPop k o) = Ok st' outs ->
  match outs_emitted_frames outs with
  | [] => True
  | [WFrame sid f] =>
    sid = s_id r /\
    match s_q r with
    | [] => exists reason, get_scheduled_reset (s_state r) = Some reason /\ f = QReset reason
    | QData eos :: _ => f = QData eos \/ (f = QData false /\ pp_partial o = true)
    | g :: _ => f = g
    end
  | _ => False
  end.
Proof. exact pop_emits_front. Qed.

Theorem C04_wire_window_update_only_receiving :
  forall st k has st' outs r,
  kget st k = Some r -> step st (LSendWindowUpdate k has) = Ok st' outs ->
  st' = st /\ (outs = [] \/ (outs = [OEmit (WWindowUpdate (s_id r))] /\ is_recv_streaming (s_state r) = true)).
Proof. exact window_update_only_receiving. Qed.

(* after END_STREAM (queued or sent) or a reset no API call queues another HEADERS or DATA frame on the stream *)
Theorem C04_wire_send_closed_queues_nothing :
  forall st l k r st' outs,
  kget st k = Some r -> is_send_closed (s_state r) = true ->
  ((exists eos tb, l = LSendData k eos tb) \/ (exists h, l = LSendTrailers k h) \/
   (exists eos h, l = LSendResponse k eos h) \/ (exists eos h, l = LSendInfo k eos h)) ->
  step st l = Ok st' outs -> queued_all outs = [] /\ st' = st.
Proof. exact send_closed_queues_nothing. Qed.

(* at most one RST_STREAM per record: C17_wire_no_second_reset, C17_wire_reset_emitted_only_if_queued,
   C09_wire_poll2_reset (Properties/C17_wire.v, C09_wire.v) *)
