(* C14 — every SETTINGS and every PING received is acknowledged exactly once, in order, also under write back-pressure;
   received settings take effect at their acknowledgement, local settings at the peer's acknowledgement; an acknowledgement
   that answers nothing is a connection error; user pings.
   Statements only (proofs: Proofs/ControlProofs.v; model: Model/Control.v, tied to /repo/src/proto/{settings,ping_pong,
   go_away,connection}.rs by the lock-step correspondence lib/props/parts/control.py). *)
From H2V Require Import Base.Tac Base.Bytes Model.Control Proofs.ControlProofs.
Local Open Scope N_scope.

(* For ALL label sequences (any SETTINGS / PING / user-ping / shutdown / stream traffic, any codec readiness at every
   poll_ready): #SETTINGS taken = #ACKs emitted + (1 iff one is owed); the PINGs taken are, payload by payload and in order,
   the owed one followed by the answered ones; whenever a frame can be taken from the codec nothing is owed. *)
Theorem C14_ack_exactly_once :
  forall p0 ls s tr,
  crun (init p0) ls = inl (s, tr) ->
  let h := upd_trace (hist0 p0) tr in
  N.of_nat (length (hs_taken (hS_ h))) = hs_acks (hS_ h) + owedS s (hS_ h) /\
  hp_taken (hP_ h) = opt_list (p_pong s) ++ map fst (hp_answered (hP_ h)) /\
  (can_recv s = true -> s_remote s = None /\ p_pong s = None).
Proof. exact C14_ack_exactly_once. Qed.

(* the guards "no frame is taken while an acknowledgement is owed" are established by the poll2 order itself *)
Theorem C14_poll2_order :
  forall s h c1 c2 c3 c4 ae c5 s1 o1 s2 o2 s3 o3 s4 o4 s5 o5,
  InvG s h ->
  cstep s (LPollGoAway c1) = SOk s1 o1 FNext ->
  in_poll_ready s1 = true /\
  (cstep s1 (LPollPong c2) = SOk s2 o2 FNext ->
   in_poll_ready s2 = true /\ p_pong s2 = None /\
   (cstep s2 (LPollPing c3) = SOk s3 o3 FNext ->
    in_poll_ready s3 = true /\ p_pong s3 = None /\ (forall pl, p_ping s3 <> Some (pl, false)) /\
    (cstep s3 (LSettingsAck c4 ae) = SOk s4 o4 FNext ->
     in_poll_ready s4 = true /\ p_pong s4 = None /\ (forall pl, p_ping s4 <> Some (pl, false)) /\ s_remote s4 = None /\
     (cstep s4 (LSettingsLocal c5) = SOk s5 o5 FNext -> can_recv s5 = true)))).
Proof. exact poll2_order. Qed.

(* no assert!/assert_eq!/debug_assert_eq! of settings.rs / ping_pong.rs / go_away.rs / connection.rs (and Recv::go_away) fires *)
Theorem C14_no_assert :
  forall p0 ls, match crun (init p0) ls with inr (_, SPanic _) => False | _ => True end.
Proof. exact C15_no_assert. Qed.

Theorem C14_stray_ack :
  forall s h ae,
  InvG s h -> can_recv s = true -> (forall p, s_local s <> LWaitingAck p) ->
  cstep s (LRecv (InSettingsAck ae)) =
  SOk (set_ga s true (Some (r_last s, PROTOCOL_ERROR)) (g_user s) (Some (r_last s, PROTOCOL_ERROR, []))) [OStreamsError] FLoop.
Proof. exact C14_stray_ack. Qed.

Theorem C14_remote_apply_at_ack :
  forall p0 ls s tr,
  crun (init p0) ls = inl (s, tr) ->
  let h := hS_ (upd_trace (hist0 p0) tr) in
  hs_fail h = 0 -> hs_taken h = opt_list (s_remote s) ++ hs_applied h /\ hs_acks h = N.of_nat (length (hs_applied h)).
Proof. exact C14_remote_apply_at_ack. Qed.

Theorem C14_remote_apply_at_ack_step :
  forall s l s' o fl,
  cstep s l = SOk s' o fl -> In (OFrame WSettingsAck) o ->
  exists c ae p, l = LSettingsAck c ae /\ s_remote s = Some p /\
    ((ae = None /\ o = [OFrame WSettingsAck; OApplyRemote p (negb (s_initial s))] /\ s_remote s' = None) \/
     (exists r x, ae = Some r /\ o = [OFrame WSettingsAck; OApplyRemoteFailed] ++ x /\ forallb neutral x = true /\ dead s')).
Proof. exact C14_remote_apply_at_ack_step. Qed.

Theorem C14_local_after_ack :
  forall p0 ls s tr,
  crun (init p0) ls = inl (s, tr) ->
  let h := hL_ (upd_trace (hist0 p0) tr) in
  match s_local s with
  | LWaitingAck p => hl_sent h = p :: hl_applied h
  | _ => hl_sent h = hl_applied h
  end.
Proof. exact C14_local_after_ack. Qed.

Theorem C14_local_apply_step :
  forall s p,
  can_recv s = true -> s_local s = LWaitingAck p ->
  cstep s (LRecv (InSettingsAck None)) = SOk (set_settings s LSynced (s_remote s) (s_initial s)) [OApplyLocal p] FNext.
Proof. exact C14_local_apply_step. Qed.

Theorem C14_send_settings_refused :
  forall s p, s_local s <> LSynced -> cstep s (LSendSettings p) = SOk s [OApi AErrSettingsPending] FNext.
Proof. exact C14_send_settings_refused. Qed.

Theorem C14_user_ping :
  forall p0 ls s tr,
  crun (init p0) ls = inl (s, tr) ->
  let h := hU_ (upd_trace (hist0 p0) tr) in
  InvU s h /\
  hu_pong h <= hu_ack h /\ hu_ack h <= hu_ping h /\ hu_ping h <= hu_ok h /\ hu_ok h <= hu_pong h + 1.
Proof. exact C14_user_ping. Qed.

Theorem C14_user_ping_refused :
  forall s u,
  p_user s = Some u -> u <> UEmpty ->
  exists r, cstep s LUserSendPing = SOk s [OApi r] FNext /\ (r = AErrPingPending \/ (u = UClosed /\ r = AErrBrokenPipe)).
Proof. exact C14_user_ping_refused. Qed.

Theorem C14_user_closed_absorbing :
  forall s l s' o fl,
  p_user s = Some UClosed -> cstep s l = SOk s' o fl ->
  p_user s' = Some UClosed /\
  (l = LUserSendPing -> o = [OApi AErrBrokenPipe]) /\ (l = LUserPollPong -> o = [OReg WPongTask; OApi AErrBrokenPipe]).
Proof. exact C14_user_closed_absorbing. Qed.

Theorem C14_user_cell_interleavings :
  forall os f f', FInv f -> frun f os = Some f' -> FInv f'.
Proof. exact C14_user_cell_interleavings. Qed.

Theorem C14_user_cell_atomic :
  forall us,
  forallb (fun o => match o with FUserSend | FUserPoll => true | _ => false end) us = true ->
  frun (mkF UPendingPing true) us = Some (mkF UPendingPing true).
Proof. exact C14_user_cell_atomic. Qed.

Theorem C14_nonvacuous :
  match crun (init no_params) demo_labels with
  | inl (s, tr) =>
    frames_of tr = [ WSettingsAck; WPing true 77; WPing false PING_USER; WGoAway MAX_ID NO_ERROR []; WPing false PING_SHUTDOWN;
                     WGoAway 3 NO_ERROR [] ] /\
    results_of tr = [CROk] /\ c_state s = CClosed NO_ERROR ILibrary /\ r_last s = 3 /\ r_max s = 3
  | inr _ => False
  end.
Proof. exact demo_control. Qed.
