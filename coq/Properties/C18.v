(* C18 — per-connection state is bounded by configuration, whatever the peer does.
   Statements only (proofs: Proofs/BoundsProofs.v; models: Model/Bounds.v over Model/Counts.v, tied to /repo by the Counts /
   Store lock-steps, the DATA-budget lock-step and the classification of every statistics snapshot evaluated in Coq). *)
From H2V Require Import Base.Tac Model.Counts Model.Bounds Proofs.CountsProofs Proofs.BoundsProofs.

(* For ANY sequence of calls into counts.rs that respects the callers' query-then-increment discipline (checked by the
   lock-step): the reset quotas and the library-reset quota are never exceeded. *)
Theorem C18_quotas_invariant :
  forall ls st, QInv st ->
  match crun st ls with
  | inl (Some (st', _)) => QInv st'
  | _ => True
  end.
Proof. exact crun_quota. Qed.

Theorem C18_initial_quotas_ok :
  forall ms mr mlr mrr mle, limit_ok mr -> (0 <= mlr)%Z -> (0 <= mrr)%Z -> limit_ok mle -> QInv (cinit ms mr mlr mrr mle).
Proof. exact cinit_quota. Qed.

(* Whatever the peer sends (any sequence of the peer / application moves of Part C), the capped counters stay within their
   caps. *)
Theorem C18_quotas_hold :
  forall ls ms mr mlr mrr mle push st,
  limit_ok mr -> (0 <= mlr)%Z -> (0 <= mrr)%Z -> limit_ok mle ->
  brun (binit (cinit ms mr mlr mrr mle) push) ls = Some st ->
  match max_recv (b_cs st) with Some m => (num_recv (b_cs st) <= m)%Z | None => True end /\
  (num_lreset (b_cs st) <= max_lreset (b_cs st))%Z /\ (num_rreset (b_cs st) <= max_rreset (b_cs st))%Z /\
  match max_lerr (b_cs st) with Some m => (num_lerr (b_cs st) <= m)%Z | None => True end.
Proof. exact quotas_hold. Qed.

(* refusal instead of growth *)
Theorem C18_over_limit_stream_refused :
  forall st key st' o,
  b_failed st = false -> below (num_recv (b_cs st)) (max_recv (b_cs st)) = false ->
  bstep st (BOpen key) = Some (st', o) ->
  o = [BRefused] /\ num_recv (b_cs st') = num_recv (b_cs st) /\ counted (b_cs st') = counted (b_cs st).
Proof. exact over_limit_is_refused. Qed.

Theorem C18_reset_flood_disconnects :
  forall st st' o,
  BInv st -> b_failed st = false -> num_rreset (b_cs st) = max_rreset (b_cs st) ->
  bstep st BRstUnaccepted = Some (st', o) -> o = [BGoAway ENHANCE_YOUR_CALM] /\ b_failed st' = true.
Proof. exact reset_flood_disconnects. Qed.

Theorem C18_error_flood_disconnects :
  forall st st' o m,
  BInv st -> b_failed st = false -> max_lerr (b_cs st) = Some m -> num_lerr (b_cs st) = m ->
  bstep st BStreamError = Some (st', o) -> o = [BGoAway ENHANCE_YOUR_CALM] /\ b_failed st' = true.
Proof. exact error_flood_disconnects. Qed.

Theorem C18_reset_expiry_quota :
  forall st st' d, QInv st -> enqueue_reset_expiration st = (st', d) ->
  (d = Admit /\ num_lreset st' = num_lreset st + 1 /\ num_lreset st' <= max_lreset st')%Z \/
  (d = NotRemembered /\ num_lreset st' = num_lreset st /\ num_lreset st = max_lreset st)%Z.
Proof. exact reset_expiry_quota. Qed.

(* DATA-frame budget: buffered small frames are bounded by the budget plus what large frames paid back, buffered empty frames
   by the fixed cap; the frame that exceeds either is answered with the GOAWAY decision. *)
Theorem C18_data_frames_bounded :
  forall ls mx st,
  drun (dinit mx) ls = Some st -> d_failed st = false ->
  (count_if is_tiny (d_buf st) <= mx + d_repl st /\ count_if is_zero (d_buf st) <= MAX_EMPTY /\ d_max st = mx)%N.
Proof. exact data_frames_bounded. Qed.

Theorem C18_data_frame_refused :
  forall st len st' o,
  dstep st (DRecord len) = Some (st', o) ->
  (o = [DExhausted] <-> (len = 0 /\ MAX_EMPTY < d_empty st + 1) \/ (0 < len < DF_T /\ d_avail st < DF_T - len))%N /\
  (o = [DExhausted] -> d_failed st' = true /\ d_avail st' = d_avail st).
Proof. exact data_frame_refused. Qed.

(* the bound: a classified snapshot meeting the class constraints keeps at most B(config, app_held) records apart from the
   reserved pushed streams (known class KF-C18-1) *)
Theorem C18_records_bounded_except_known :
  forall l s, snap_ok l s = true -> within s l = true.
Proof. exact records_bounded_except_known. Qed.

(* KF-C18-1 / KF-C18-2: the faithful model has NO bound for reserved pushed streams and queued interim responses: for every n
   there is a peer sequence that reaches n without touching any quota and without failing the connection *)
Theorem C18_push_promises_unbounded_refuted :
  forall c (n : nat),
  exists st, brun (binit c true) (repeat BPushPromise n) = Some st /\ b_resv st = N.of_nat n /\ b_failed st = false /\ b_cs st = c.
Proof. exact push_promises_unbounded_refuted. Qed.

Theorem C18_interim_responses_unbounded_refuted :
  forall c push (n : nat),
  exists st, brun (binit c push) (repeat BInfoHeaders n) = Some st /\ b_info st = N.of_nat n /\ b_failed st = false /\ b_cs st = c.
Proof. exact interim_responses_unbounded_refuted. Qed.

Theorem C18_nonvacuous_budget :
  match drun (dinit 600) [DRecord 1; DRecord 1; DRelease 1; DRecord 1; DRecord 1] with
  | Some st => d_failed st = true /\ d_avail st = 90%N
  | None => False
  end.
Proof. exact demo_budget. Qed.

Theorem C18_nonvacuous_bound :
  check_bounds (mkBL (Some 5%N) (Some 100%N) 10 20 (Some 1024%N), [mkBS 3 5 2 1 400 0 0 1 5 2 1 0]) = true.
Proof. exact demo_bound. Qed.
