#!/bin/sh
# regenerate the file list of _CoqProject (all .v under the fixed sub-directories, except scratch cases)
cd "$(dirname "$0")"
{ echo "-Q . H2V"; echo "-arg -w -arg -notation-overridden,-deprecated-hint-without-locality,-deprecated-instance-without-locality"; find Base Gen Ref Model Proofs Properties -name '*.v' | sort; } > _CoqProject
coq_makefile -f _CoqProject -o Makefile >/dev/null
