(* RFC 7541 section 5.2 "String Literal Representation", Huffman-encoded strings, and
   Appendix B "Huffman Code".  Built ONLY on the transcribed code table [rfc7541_huffman].

     "As the Huffman-encoded data doesn't always end at an octet boundary, some padding is
      inserted after it, up to the next octet boundary.  To prevent this padding from being
      misinterpreted as part of the string literal, the most significant bits of the code
      corresponding to the EOS (end-of-string) symbol are used.

      Upon decoding, an incomplete code at the end of the encoded data is to be considered as
      padding and discarded.  A padding strictly longer than 7 bits MUST be treated as a decoding
      error.  A padding not corresponding to the most significant bits of the code for the EOS
      symbol MUST be treated as a decoding error.  A Huffman-encoded string literal containing
      the EOS symbol MUST be treated as a decoding error."

   Bits are [bool] ([true] = 1), a bit string is a [list bool] in transmission order
   (most significant bit of each octet first).  Symbols are [N]: 0..255 octets, 256 = EOS. *)
From H2V Require Import Base.Tac Base.Bytes.
From H2V Require Import Ref.Rfc7541HuffTable.
Local Open Scope N_scope.

(* ---------------------------------------------------------------------------------------- *)
(* bits *)

(* the [n] low bits of [v], most significant first *)
Fixpoint bitsN (n : nat) (v : N) : list bool :=
  match n with
  | O => []
  | S n' => N.testbit v (N.of_nat n') :: bitsN n' v
  end.

(* an octet string as a bit string, msb of each octet first *)
Fixpoint bits_of_bytes (l : list N) : list bool :=
  match l with
  | [] => []
  | b :: l' => bitsN 8 b ++ bits_of_bytes l'
  end.

Fixpoint bits_eqb (a b : list bool) : bool :=
  match a, b with
  | [], [] => true
  | x :: a', y :: b' => Bool.eqb x y && bits_eqb a' b'
  | _, _ => false
  end.

Definition all_ones (l : list bool) : bool := forallb (fun b => b) l.

(* ---------------------------------------------------------------------------------------- *)
(* the code *)

Definition EOS : N := 256.

(* an entry (length, code as integer aligned to lsb) of Appendix B as a bit string *)
Definition entry_bits (e : N * N) : list bool := bitsN (N.to_nat (fst e)) (snd e).

(* the 257 code words, index = symbol *)
Definition rfc_code_bits : list (list bool) := map entry_bits rfc7541_huffman.

Definition code_bits (sym : N) : list bool := nth (N.to_nat sym) rfc_code_bits [].

(* the symbol whose code word is exactly [path], if any *)
Fixpoint find_code_from (sym : N) (codes : list (list bool)) (path : list bool) : option N :=
  match codes with
  | [] => None
  | c :: codes' => if bits_eqb c path then Some sym else find_code_from (sym + 1) codes' path
  end.
Definition find_code (path : list bool) : option N := find_code_from 0 rfc_code_bits path.

(* ---------------------------------------------------------------------------------------- *)
(* the grammar of a valid Huffman-encoded string (declarative) *)

Definition huff_valid (bs : list bool) (syms : list N) : Prop :=
  Forall (fun s => s < 256) syms /\                       (* octets only: EOS never inside *)
  exists pad,
    bs = concat (map code_bits syms) ++ pad /\
    (length pad < 8)%nat /\                               (* at most 7 bits of padding *)
    all_ones pad = true.                                  (* = msbs of the EOS code (30 ones) *)

(* ---------------------------------------------------------------------------------------- *)
(* reference decoder (executable): walk bit by bit, keep the path since the last symbol.
   [None] = decoding error. *)

Fixpoint ref_walk (path : list bool) (bs : list bool) : option (list N) :=
  match bs with
  | [] =>
      (* what is left is padding: fewer than 8 bits, all ones *)
      if (length path <? 8)%nat && all_ones path then Some [] else None
  | b :: bs' =>
      let path' := path ++ [b] in
      match find_code path' with
      | Some sym =>
          if sym =? EOS then None
          else option_map (cons sym) (ref_walk [] bs')
      | None => ref_walk path' bs'
      end
  end.

Definition ref_huff_decode (bs : list bool) : option (list N) := ref_walk [] bs.

(* decoding of an octet string *)
Definition ref_huff_decode_bytes (l : list N) : option (list N) :=
  ref_huff_decode (bits_of_bytes l).
