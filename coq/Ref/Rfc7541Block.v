(* RFC 7541: header block decoding, as a readable specification (committed, never regenerated).

   Parameters of every definition:
     hd : list N -> option (list N)    the Huffman string decoder of section 5.2 / Appendix B
                                       (None = decoding error: bad padding, EOS symbol ...);
                                       it is specified separately (Ref/Rfc7541HuffTable.v and
                                       the Huffman work package) and only passed through here;
     L  : nat                          implementation limit on the number of continuation
                                       octets of an integer (section 5.1, last paragraph).

   Sections transcribed:
     2.3.3  index address space: 1..61 static table, 62.. dynamic table (newest first), 0 error
     4.1    size of an entry = 32 + |name| + |value|; table size = sum over the entries
     4.2    maximum table size, bounded by the protocol's limit (SETTINGS_HEADER_TABLE_SIZE);
            a reduction of the limit below the current maximum has to be signalled at the
            beginning of the next header block ([reduction_signalled])
     4.3    eviction on a size change: drop entries from the end until size <= maximum
     4.4    eviction on insertion; an entry larger than the maximum empties the table and is
            not inserted (this is not an error)
     5.2    string literal: H bit, 7-bit prefix length, octets (Huffman coded when H = 1)
     6.1    indexed header field                  1xxxxxxx  (7-bit prefix index, 0 is an error)
     6.2.1  literal with incremental indexing     01xxxxxx  (6-bit prefix name index or 0 + name)
     6.2.2  literal without indexing              0000xxxx  (4-bit prefix)
     6.2.3  literal never indexed                 0001xxxx  (4-bit prefix)
     6.3    dynamic table size update             001xxxxx  (5-bit prefix), value <= limit,
            only at the beginning of a header block (any number of them: 4.2 speaks of "at most
            two" as a consequence for encoders, a decoder has no reason to count).

   A header field is a pair (name, value) of octet strings. *)
From H2V Require Import Base.Tac Base.Bytes Ref.Rfc7541Int Ref.Rfc7541Static.
Local Open Scope N_scope.

Notation field := (list N * list N)%type (only parsing).

Definition lenN {A} (l : list A) : N := N.of_nat (length l).

(* n-th element, counting from 0, index in N *)
Fixpoint nthN {A} (l : list A) (n : N) : option A :=
  match l with
  | [] => None
  | x :: l' => if n =? 0 then Some x else nthN l' (n - 1)
  end.

(* ---- section 4: the dynamic table ---- *)

Definition entry_size (f : field) : N := 32 + lenN (fst f) + lenN (snd f).

Fixpoint table_size (dyn : list field) : N :=
  match dyn with
  | [] => 0
  | f :: dyn' => entry_size f + table_size dyn'
  end.

(* 4.3: "entries are evicted from the end of the dynamic table until the size of the dynamic
   table is less than or equal to the maximum size".  The table is kept newest first, so what
   survives is the longest prefix whose size is within [budget] (Proofs: keep_prefix_spec). *)
Fixpoint keep_prefix (budget : N) (dyn : list field) : list field :=
  match dyn with
  | [] => []
  | f :: dyn' =>
    if entry_size f <=? budget then f :: keep_prefix (budget - entry_size f) dyn' else []
  end.

Definition evict_to (max : N) (dyn : list field) : list field := keep_prefix max dyn.

(* 4.4: evict until size <= max - size(f) or the table is empty; add f when it fits at all *)
Definition add_entry (max : N) (f : field) (dyn : list field) : list field :=
  if entry_size f <=? max then f :: keep_prefix (max - entry_size f) dyn else [].

(* 2.3.3 *)
Definition lookup (dyn : list field) (i : N) : option field :=
  if i =? 0 then None
  else if i <=? rfc_static_len then nthN rfc_static (i - 1)
  else nthN dyn (i - rfc_static_len - 1).

(* decoder state between header blocks *)
Record rstate := mk_rstate {
  r_dyn : list field;     (* dynamic table, newest entry first *)
  r_max : N;              (* current maximum size (last size update, initially the limit) *)
  r_limit : N             (* the protocol's limit: last acknowledged SETTINGS_HEADER_TABLE_SIZE *)
}.

Definition rstate_ok (rs : rstate) : Prop := table_size (r_dyn rs) <= r_max rs.

(* ---- section 5.2: string literals ---- *)
Inductive string_lit (hd : list N -> option (list N)) (L : nat) : list N -> list N -> Prop :=
| str_raw : forall enc s,
    int_repr_L L 7 0 (lenN s) enc -> string_lit hd L (enc ++ s) s
| str_huff : forall enc raw s,
    int_repr_L L 7 1 (lenN raw) enc -> hd raw = Some s -> string_lit hd L (enc ++ raw) s.

(* ---- section 6.2: the name part of a literal representation with prefix p, pattern hi ---- *)
Inductive lit_name (hd : list N -> option (list N)) (L : nat) (dyn : list field) (p hi : N)
  : list N -> list N -> Prop :=
| ln_indexed : forall enc i n v0,
    int_repr_L L p hi i enc -> i <> 0 -> lookup dyn i = Some (n, v0) ->
    lit_name hd L dyn p hi enc n
| ln_new : forall enc nenc n,
    int_repr_L L p hi 0 enc -> string_lit hd L nenc n ->
    lit_name hd L dyn p hi (enc ++ nenc) n.

(* one header field representation: octets, field emitted, dynamic table afterwards *)
Inductive field_repr (hd : list N -> option (list N)) (L : nat) (max : N) (dyn : list field)
  : list N -> field -> list field -> Prop :=
| fr_indexed : forall enc i f,                                                   (* 6.1 *)
    int_repr_L L 7 1 i enc -> lookup dyn i = Some f ->
    field_repr hd L max dyn enc f dyn
| fr_incremental : forall nenc n venc v,                                         (* 6.2.1 *)
    lit_name hd L dyn 6 1 nenc n -> string_lit hd L venc v ->
    field_repr hd L max dyn (nenc ++ venc) (n, v) (add_entry max (n, v) dyn)
| fr_without : forall nenc n venc v,                                             (* 6.2.2 *)
    lit_name hd L dyn 4 0 nenc n -> string_lit hd L venc v ->
    field_repr hd L max dyn (nenc ++ venc) (n, v) dyn
| fr_never : forall nenc n venc v,                                               (* 6.2.3 *)
    lit_name hd L dyn 4 1 nenc n -> string_lit hd L venc v ->
    field_repr hd L max dyn (nenc ++ venc) (n, v) dyn.

(* 6.3 *)
Inductive size_update_repr (L : nat) (limit : N) : list N -> N -> Prop :=
| su_repr : forall enc n, int_repr_L L 5 1 n enc -> n <= limit -> size_update_repr L limit enc n.

(* ---- a header block: size updates, then header field representations ---- *)
Inductive updates_decode (L : nat) (limit : N)
  : list field -> N -> list N -> list field -> N -> Prop :=
| ud_nil : forall dyn max, updates_decode L limit dyn max [] dyn max
| ud_cons : forall dyn max enc n bs dyn' max',
    size_update_repr L limit enc n ->
    updates_decode L limit (evict_to n dyn) n bs dyn' max' ->
    updates_decode L limit dyn max (enc ++ bs) dyn' max'.

Inductive fields_decode (hd : list N -> option (list N)) (L : nat) (max : N)
  : list field -> list N -> list field -> list field -> Prop :=
| fd_nil : forall dyn, fields_decode hd L max dyn [] [] dyn
| fd_cons : forall dyn enc f dyn1 bs fs dyn',
    field_repr hd L max dyn enc f dyn1 ->
    fields_decode hd L max dyn1 bs fs dyn' ->
    fields_decode hd L max dyn (enc ++ bs) (f :: fs) dyn'.

Definition block_decodes (hd : list N -> option (list N)) (L : nat)
  (rs : rstate) (bs : list N) (fs : list field) (rs' : rstate) : Prop :=
  exists b1 b2 dyn1 max1,
    bs = b1 ++ b2 /\
    updates_decode L (r_limit rs) (r_dyn rs) (r_max rs) b1 dyn1 max1 /\
    fields_decode hd L max1 dyn1 b2 fs (r_dyn rs') /\
    r_max rs' = max1 /\ r_limit rs' = r_limit rs.

(* 4.2: "This dynamic table size update MUST occur at the beginning of the first header block
   following the change to the dynamic table size": when the protocol's limit went below the
   maximum in use, the block has to start with a size update. *)
Definition reduction_signalled (L : nat) (rs : rstate) (bs : list N) : Prop :=
  r_max rs <= r_limit rs \/
  exists enc n rest, bs = enc ++ rest /\ size_update_repr L (r_limit rs) enc n.

Definition rfc_block_decodes (hd : list N -> option (list N)) (L : nat)
  (rs : rstate) (bs : list N) (fs : list field) (rs' : rstate) : Prop :=
  block_decodes hd L rs bs fs rs' /\ reduction_signalled L rs bs.

(* the protocol changes the limit between two header blocks (SETTINGS acknowledged) *)
Definition set_limit (rs : rstate) (limit : N) : rstate :=
  mk_rstate (r_dyn rs) (r_max rs) limit.

Definition rstate_init (limit : N) : rstate := mk_rstate [] limit limit.

(* ================= executable reference decoder ================= *)

(* split off the first n elements *)
Fixpoint split_at (n : N) (l : list N) : option (list N * list N) :=
  if n =? 0 then Some ([], l)
  else match l with
       | [] => None
       | x :: l' => match split_at (n - 1) l' with
                    | Some (a, b) => Some (x :: a, b)
                    | None => None
                    end
       end.

(* 5.2 *)
Definition ref_string (hd : list N -> option (list N)) (L : nat) (bs : list N)
  : option (list N * list N) :=
  match bs with
  | [] => None
  | b :: _ =>
    match ref_decode_int L 7 bs with
    | None => None
    | Some (len, rest) =>
      match split_at len rest with
      | None => None
      | Some (raw, rest') =>
        if b / 128 =? 0 then Some (raw, rest')
        else if b / 128 =? 1 then
          match hd raw with Some s => Some (s, rest') | None => None end
        else None
      end
    end
  end.

(* 6.2: name part (index or literal) of a literal representation with a p-bit prefix *)
Definition ref_lit_name (hd : list N -> option (list N)) (L : nat) (dyn : list field) (p : N)
  (bs : list N) : option (list N * list N) :=
  match ref_decode_int L p bs with
  | None => None
  | Some (i, rest) =>
    if i =? 0 then ref_string hd L rest
    else match lookup dyn i with
         | Some (n, _) => Some (n, rest)
         | None => None
         end
  end.

Definition ref_literal (hd : list N -> option (list N)) (L : nat) (dyn : list field) (p : N)
  (bs : list N) : option (field * list N) :=
  match ref_lit_name hd L dyn p bs with
  | None => None
  | Some (n, rest) =>
    match ref_string hd L rest with
    | None => None
    | Some (v, rest') => Some ((n, v), rest')
    end
  end.

(* one header field representation: (field, table afterwards, remaining octets) *)
Definition ref_field_step (hd : list N -> option (list N)) (L : nat) (max : N)
  (dyn : list field) (bs : list N) : option (field * list field * list N) :=
  match bs with
  | [] => None
  | b :: _ =>
    if b / 128 =? 1 then                                   (* 1xxxxxxx *)
      match ref_decode_int L 7 bs with
      | Some (i, rest) =>
        match lookup dyn i with Some f => Some (f, dyn, rest) | None => None end
      | None => None
      end
    else if b / 64 =? 1 then                               (* 01xxxxxx *)
      match ref_literal hd L dyn 6 bs with
      | Some (f, rest) => Some (f, add_entry max f dyn, rest)
      | None => None
      end
    else if (b / 16 =? 0) || (b / 16 =? 1) then            (* 0000xxxx, 0001xxxx *)
      match ref_literal hd L dyn 4 bs with
      | Some (f, rest) => Some (f, dyn, rest)
      | None => None
      end
    else None
  end.

(* 6.3 *)
Definition ref_update_step (L : nat) (limit : N) (bs : list N) : option (N * list N) :=
  match bs with
  | [] => None
  | b :: _ =>
    if b / 32 =? 1 then                                    (* 001xxxxx *)
      match ref_decode_int L 5 bs with
      | Some (n, rest) => if n <=? limit then Some (n, rest) else None
      | None => None
      end
    else None
  end.

(* every representation is at least one octet long, so [length bs] steps always suffice; running
   out of fuel is reported as rejection and ruled out by the completeness proof *)
Fixpoint ref_fields (hd : list N -> option (list N)) (L : nat) (max : N) (fuel : nat)
  (dyn : list field) (bs : list N) : option (list field * list field) :=
  match bs with
  | [] => Some ([], dyn)
  | _ :: _ =>
    match fuel with
    | O => None
    | S fuel' =>
      match ref_field_step hd L max dyn bs with
      | None => None
      | Some (f, dyn1, rest) =>
        match ref_fields hd L max fuel' dyn1 rest with
        | Some (fs, dyn') => Some (f :: fs, dyn')
        | None => None
        end
      end
    end
  end.

Fixpoint ref_block (hd : list N -> option (list N)) (L : nat) (limit : N) (fuel : nat)
  (dyn : list field) (max : N) (bs : list N) : option (list field * list field * N) :=
  match fuel with
  | O => None
  | S fuel' =>
    match ref_update_step L limit bs with
    | Some (n, rest) => ref_block hd L limit fuel' (evict_to n dyn) n rest
    | None =>
      match ref_fields hd L max fuel dyn bs with
      | Some (fs, dyn') => Some (fs, dyn', max)
      | None => None
      end
    end
  end.

Definition ref_decode_block (hd : list N -> option (list N)) (L : nat) (rs : rstate)
  (bs : list N) : option (list field * rstate) :=
  match ref_block hd L (r_limit rs) (S (length bs)) (r_dyn rs) (r_max rs) bs with
  | Some (fs, dyn', max') => Some (fs, mk_rstate dyn' max' (r_limit rs))
  | None => None
  end.

(* ... including the 4.2 clause *)
Definition ref_reduction_signalled (L : nat) (rs : rstate) (bs : list N) : bool :=
  (r_max rs <=? r_limit rs) ||
  match ref_update_step L (r_limit rs) bs with Some _ => true | None => false end.

Definition rfc_ref_decode_block (hd : list N -> option (list N)) (L : nat) (rs : rstate)
  (bs : list N) : option (list field * rstate) :=
  if ref_reduction_signalled L rs bs then ref_decode_block hd L rs bs else None.

(* ================= oracle on recorded behaviour =================
   Used by the search for failing inputs (lib/props/parts/hpackdec.py): the reference decoder is
   run on the inputs of a recorded history of an implementation and compared with what the
   implementation answered.  Result code per history:
     0  nothing to object
     1  a block was accepted that the grammar/table rules above reject
     2  a block was accepted with a different header list
     3  the dynamic table afterwards differs (entries or size)
     4  the dynamic table is larger than the protocol's limit after an accepted block
     5  accepted although a required size update (4.2) is missing
     6  like 1, but the only objection is the placement of a size update after a header field
        where a fragment boundary falls on or inside that size update: with those tolerated
        ([ref_block_excused]) the octets are accepted with the same headers and table
   The history is judged up to the first block the implementation rejected (rejecting is always
   allowed by the property; the connection is dead afterwards). *)

Fixpoint fields_eq (a b : list field) : bool :=
  match a, b with
  | [], [] => true
  | x :: a', y :: b' =>
    list_N_eqb (fst x) (fst y) && list_N_eqb (snd x) (snd y) && fields_eq a' b'
  | _, _ => false
  end.

(* recorded results of the Huffman decoder; an unrecorded string decodes to a non-octet *)
Fixpoint hd_recorded (tbl : list (list N * option (list N))) (raw : list N) : option (list N) :=
  match tbl with
  | [] => Some [100000]
  | (k, r) :: tbl' => if list_N_eqb k raw then r else hd_recorded tbl' raw
  end.

(* one block: limits acknowledged before it (in order), octets, offsets of the fragment
   boundaries, accepted?, headers, table entries (None = not recorded), table size *)
Definition oracle_block : Type :=
  (list N * list N * list N * bool * list field * option (list field) * N)%type.

(* The grammar with the placement rule of 6.3 relaxed (used only to classify objections): a size
   update after a header field is tolerated when one of the fragment boundaries [bounds] (offsets
   into the block) falls on or inside its encoding, i.e. when it is the first representation a
   decoder meets after resuming with the next fragment. *)
Fixpoint ref_block_excused (hd : list N -> option (list N)) (L : nat) (limit : N) (fuel : nat)
  (seen_field : bool) (pos : N) (bounds : list N)
  (dyn : list field) (max : N) (bs : list N) : option (list field * list field * N) :=
  match bs with
  | [] => Some ([], dyn, max)
  | _ :: _ =>
    match fuel with
    | O => None
    | S fuel' =>
      match ref_update_step L limit bs with
      | Some (n, rest) =>
        let len := lenN bs - lenN rest in
        if seen_field && negb (existsb (fun o => (pos <=? o) && (o <? pos + len)) bounds)
        then None
        else ref_block_excused hd L limit fuel' seen_field (pos + len) bounds (evict_to n dyn) n rest
      | None =>
        match ref_field_step hd L max dyn bs with
        | Some (f, dyn1, rest) =>
          match ref_block_excused hd L limit fuel' true (pos + (lenN bs - lenN rest)) bounds
                                  dyn1 max rest with
          | Some (fs, d, m) => Some (f :: fs, d, m)
          | None => None
          end
        | None => None
        end
      end
    end
  end.

Definition last_limit (rs : rstate) (queued : list N) : rstate :=
  match rev queued with
  | [] => rs
  | l :: _ => set_limit rs l
  end.

Fixpoint oracle_history (hd : list N -> option (list N)) (L : nat) (rs : rstate)
  (blocks : list oracle_block) : N :=
  match blocks with
  | [] => 0
  | (queued, bs, bounds, accepted, fs, entries, tsize) :: more =>
    if negb accepted then 0
    else
      let rs1 := last_limit rs queued in
      match ref_decode_block hd L rs1 bs with
      | None =>
        match ref_block_excused hd L (r_limit rs1) (length bs) false 0 bounds
                                (r_dyn rs1) (r_max rs1) bs with
        | Some (rfs, dyn2, _) =>
          if fields_eq rfs fs
             && match entries with Some es => fields_eq dyn2 es | None => true end
             && (table_size dyn2 =? tsize)
          then 6 else 1
        | None => 1
        end
      | Some (rfs, rs2) =>
        if negb (fields_eq rfs fs) then 2
        else if negb (match entries with Some es => fields_eq (r_dyn rs2) es | None => true end
                      && (table_size (r_dyn rs2) =? tsize)) then 3
        else if negb (tsize <=? r_limit rs2) then 4
        else if negb (ref_reduction_signalled L rs1 bs) then 5
        else oracle_history hd L rs2 more
      end
  end.

Definition oracle_hpack
  (c : list (list N * option (list N)) * N * list oracle_block) : N :=
  let '(huff, size, blocks) := c in
  oracle_history (hd_recorded huff) 4 (rstate_init size) blocks.
