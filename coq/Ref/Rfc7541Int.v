(* RFC 7541 section 5.1: integer representation with an N-bit prefix.

   Readable specification (committed, never regenerated).

     if I < 2^N - 1, encode I on N bits
     else  encode (2^N - 1) on N bits;  I = I - (2^N - 1)
           while I >= 128:  encode (I % 128 + 128) on 8 bits;  I = I / 128
           encode I on 8 bits

   and the decoding pseudo-code

     decode I from the next N bits
     if I < 2^N - 1 return I
     else M = 0; repeat  B = next octet; I = I + (B & 127) * 2^M; M = M + 7  while B & 128 == 128
          return I

   The decoding pseudo-code accepts every octet sequence of that shape, including ones the
   encoding pseudo-code never produces (trailing continuation octets that contribute 0, e.g.
   1f 80 00 for 31 with a 5-bit prefix): the relation below is the decoder's view.

   Last paragraph of 5.1: "Integer encodings that exceed implementation limits -- in value or
   octet length -- MUST be treated as decoding errors."  The limit is a parameter [L] (maximal
   number of continuation octets) of [int_repr_L]; the unlimited relation is [int_repr]. *)
From H2V Require Import Base.Tac Base.Bytes.
Local Open Scope N_scope.

(* continuation octets: little-endian base 128, bit 7 set on all but the last *)
Inductive cont_repr : N -> list N -> Prop :=
| cont_last : forall v, v < 128 -> cont_repr v [v]
| cont_more : forall lo hi bs, lo < 128 -> cont_repr hi bs ->
              cont_repr (lo + 128 * hi) ((128 + lo) :: bs).

(* [int_repr p hi v enc]: the octets [enc] represent the value [v] with a [p]-bit prefix; the
   remaining 8-p high bits of the first octet carry the pattern [hi] (representation type /
   Huffman flag), i.e. first octet = hi * 2^p + prefix-bits. *)
Inductive int_repr (p hi : N) : N -> list N -> Prop :=
| int_small : forall v, v < 2 ^ p - 1 -> int_repr p hi v [hi * 2 ^ p + v]
| int_large : forall v bs, cont_repr v bs ->
              int_repr p hi (2 ^ p - 1 + v) ((hi * 2 ^ p + (2 ^ p - 1)) :: bs).

(* ... within an implementation limit of [L] continuation octets *)
Definition int_repr_L (L : nat) (p hi v : N) (enc : list N) : Prop :=
  int_repr p hi v enc /\ (length enc <= S L)%nat.

(* the prefix sizes and patterns that occur in HPACK *)
Definition prefix_ok (p hi : N) : Prop := 1 <= p <= 8 /\ hi < 2 ^ (8 - p).

(* ---- the encoding pseudo-code (canonical, shortest form) ---- *)
Fixpoint encode_cont (fuel : nat) (v : N) : list N :=
  match fuel with
  | O => []                                   (* not reached with the fuel given below *)
  | S f => if v <? 128 then [v] else (128 + v mod 128) :: encode_cont f (v / 128)
  end.

Definition encode_int (p hi v : N) : list N :=
  if v <? 2 ^ p - 1 then [hi * 2 ^ p + v]
  else (hi * 2 ^ p + (2 ^ p - 1))
         :: encode_cont (S (N.to_nat (N.log2 (v - (2 ^ p - 1))))) (v - (2 ^ p - 1)).

(* ---- the decoding pseudo-code, executable, with at most [L] continuation octets ---- *)
Fixpoint ref_decode_cont (L : nat) (bs : list N) : option (N * list N) :=
  match L with
  | O => None
  | S L' =>
    match bs with
    | [] => None
    | b :: t =>
      if b <? 128 then Some (b, t)
      else if b <? 256 then
        match ref_decode_cont L' t with
        | Some (v, rest) => Some ((b - 128) + 128 * v, rest)
        | None => None
        end
      else None
    end
  end.

(* returns (value, remaining octets); the pattern bits of the first octet are [b / 2^p] *)
Definition ref_decode_int (L : nat) (p : N) (bs : list N) : option (N * list N) :=
  match bs with
  | [] => None
  | b :: t =>
    let low := b mod 2 ^ p in
    if low <? 2 ^ p - 1 then Some (low, t)
    else match ref_decode_cont L t with
         | Some (v, rest) => Some (2 ^ p - 1 + v, rest)
         | None => None
         end
  end.
