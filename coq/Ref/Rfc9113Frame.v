(* RFC 9113 (HTTP/2) -- frame layout (section 4.1), frame size (4.2) and the ten frame
   definitions (section 6), transcribed as a small executable grammar.

   This file is a REFERENCE: it is written from the RFC text only and knows nothing about h2.
     rfc_parse_frame  max bs   parses exactly one complete frame (9 octet header + payload)
     rfc_serialize    w        renders a wire-level frame value
     rfc_split        ...      cuts an octet stream into complete frames
     rfc_reassemble   ws       section 6.10 / 4.3: HEADERS|PUSH_PROMISE + CONTINUATION* = one field block

   Error *classes* (connection vs. stream error) are deliberately not part of the result: the RFC
   itself makes the class depend on context for several conditions (e.g. WINDOW_UPDATE with a zero
   increment, section 6.9), and an implementation that escalates a stream error to a connection
   error is still conforming.  [Reject code] carries the error *code* the RFC names.            *)
From H2V Require Import Base.Tac Base.Bytes.
Local Open Scope N_scope.

(* ---------------------------------------------------------------------------------------- *)
(* section 7: error codes used by the frame grammar *)
Definition PROTOCOL_ERROR     : N := 1.
Definition FLOW_CONTROL_ERROR : N := 3.
Definition FRAME_SIZE_ERROR   : N := 6.

(* section 6: frame type registry *)
Definition T_DATA : N := 0.           Definition T_HEADERS : N := 1.
Definition T_PRIORITY : N := 2.       Definition T_RST_STREAM : N := 3.
Definition T_SETTINGS : N := 4.       Definition T_PUSH_PROMISE : N := 5.
Definition T_PING : N := 6.           Definition T_GOAWAY : N := 7.
Definition T_WINDOW_UPDATE : N := 8.  Definition T_CONTINUATION : N := 9.

(* flag bits *)
Definition F_END_STREAM : N := 1.   (* 0x01 DATA, HEADERS *)
Definition F_ACK : N := 1.          (* 0x01 SETTINGS, PING *)
Definition F_END_HEADERS : N := 4.  (* 0x04 HEADERS, PUSH_PROMISE, CONTINUATION *)
Definition F_PADDED : N := 8.       (* 0x08 DATA, HEADERS, PUSH_PROMISE *)
Definition F_PRIORITY : N := 32.    (* 0x20 HEADERS *)

(* section 6.5.2: defined settings (8 is RFC 8441 SETTINGS_ENABLE_CONNECT_PROTOCOL) *)
Definition S_HEADER_TABLE_SIZE : N := 1.       Definition S_ENABLE_PUSH : N := 2.
Definition S_MAX_CONCURRENT_STREAMS : N := 3.  Definition S_INITIAL_WINDOW_SIZE : N := 4.
Definition S_MAX_FRAME_SIZE : N := 5.          Definition S_MAX_HEADER_LIST_SIZE : N := 6.
Definition S_ENABLE_CONNECT_PROTOCOL : N := 8.

(* section 4.2: bounds of SETTINGS_MAX_FRAME_SIZE *)
Definition FRAME_SIZE_LOWER_BOUND : N := 16384.        (* 2^14 *)
Definition FRAME_SIZE_UPPER_BOUND : N := 16777215.     (* 2^24 - 1 *)
Definition MAX_FLOW_WINDOW : N := 2147483647.      (* 2^31 - 1 *)

(* [bit] is a power of two: is it set in the flags octet? *)
Definition flag (flags bit : N) : bool := (flags / bit) mod 2 =? 1.
Definition bit_if (b : bool) (bit : N) : N := if b then bit else 0.

Definition olen (l : list N) : N := N.of_nat (length l).
Definition take (n : N) (l : list N) : list N := firstn (N.to_nat n) l.
Definition drop (n : N) (l : list N) : list N := skipn (N.to_nat n) l.

(* unsigned 32 / 31 bit fields, network order; the high bit of a 31-bit field is split off *)
Definition u32_of (a b c d : N) : N := a * 16777216 + b * 65536 + c * 256 + d.
Definition u31_of (a b c d : N) : N := (a mod 128) * 16777216 + b * 65536 + c * 256 + d.
Definition high_bit (a : N) : bool := 128 <=? a.

(* ---------------------------------------------------------------------------------------- *)
(* wire-level frame values: what a frame says once padding is removed and flags are read *)

Record priority_fields := { pf_exclusive : bool; pf_dependency : N; pf_weight : N }.

Inductive wire_frame :=
| WData (stream : N) (end_stream : bool) (padding : option N) (data : list N)
| WHeaders (stream : N) (end_stream end_headers : bool) (prio : option priority_fields) (fragment : list N)
| WPriority (stream : N) (prio : priority_fields)
| WRstStream (stream : N) (code : N)
| WSettings (ack : bool) (params : list (N * N))        (* (identifier, value) in wire order *)
| WPushPromise (stream : N) (end_headers : bool) (promised : N) (fragment : list N)
| WPing (ack : bool) (opaque : list N)
| WGoAway (last_stream : N) (code : N) (debug : list N)
| WWindowUpdate (stream : N) (increment : N)
| WContinuation (stream : N) (end_headers : bool) (fragment : list N)
| WUnknown (type flags stream : N) (payload : list N).   (* section 4.1: MUST be ignored and discarded *)

Inductive rfc_result :=
| Accept (w : wire_frame)
| Reject (code : N)
| NotOneFrame.            (* the octets are not exactly one complete frame *)

(* ---------------------------------------------------------------------------------------- *)
(* padding (6.1, 6.2, 6.6): [Pad Length (8)] content [Padding (..)] *)

Definition pad_length (padded : bool) (payload : list N) : option (option N * list N) :=
  if padded then
    match payload with
    | [] => None                              (* no room for the Pad Length octet *)
    | p :: rest => Some (Some p, rest)
    end
  else Some (None, payload).

(* remove [pad] trailing octets; None when the padding does not fit *)
Definition strip_trailing (pad : option N) (content : list N) : option (list N) :=
  match pad with
  | None => Some content
  | Some p => if p <=? olen content then Some (take (olen content - p) content) else None
  end.

Definition parse_priority_fields (l : list N) : option (priority_fields * list N) :=
  match l with
  | a :: b :: c :: d :: w :: rest =>
      Some ({| pf_exclusive := high_bit a; pf_dependency := u31_of a b c d; pf_weight := w |}, rest)
  | _ => None
  end.

(* ---------------------------------------------------------------------------------------- *)
(* 6.5 SETTINGS *)

Fixpoint parse_params (p : list N) : option (list (N * N)) :=
  match p with
  | [] => Some []
  | i1 :: i0 :: v3 :: v2 :: v1 :: v0 :: rest =>
      match parse_params rest with
      | Some ps => Some ((i1 * 256 + i0, u32_of v3 v2 v1 v0) :: ps)
      | None => None
      end
  | _ => None                                   (* length is not a multiple of 6 *)
  end.

(* 6.5.2: error code for an out-of-range value, None when the parameter is acceptable *)
Definition param_error (p : N * N) : option N :=
  let (id, v) := p in
  if id =? S_ENABLE_PUSH then (if v <=? 1 then None else Some PROTOCOL_ERROR)
  else if id =? S_INITIAL_WINDOW_SIZE then (if v <=? MAX_FLOW_WINDOW then None else Some FLOW_CONTROL_ERROR)
  else if id =? S_MAX_FRAME_SIZE then
    (if (FRAME_SIZE_LOWER_BOUND <=? v) && (v <=? FRAME_SIZE_UPPER_BOUND) then None else Some PROTOCOL_ERROR)
  else if id =? S_ENABLE_CONNECT_PROTOCOL then (if v <=? 1 then None else Some PROTOCOL_ERROR)
  else None.                                    (* unknown identifiers MUST be ignored *)

Fixpoint first_param_error (ps : list (N * N)) : option N :=
  match ps with
  | [] => None
  | p :: ps' => match param_error p with Some e => Some e | None => first_param_error ps' end
  end.

(* 6.5.3: parameters are processed in order of appearance; the last value of an identifier wins *)
Fixpoint setting_value (ps : list (N * N)) (id : N) (before : option N) : option N :=
  match ps with
  | [] => before
  | (i, v) :: ps' => setting_value ps' id (if i =? id then Some v else before)
  end.

(* ---------------------------------------------------------------------------------------- *)
(* section 6: one frame, header already split off *)

Definition parse_payload (ty fl sid : N) (payload : list N) : rfc_result :=
  let len := olen payload in
  if ty =? T_DATA then
    (* 6.1 *)
    if sid =? 0 then Reject PROTOCOL_ERROR else
    match pad_length (flag fl F_PADDED) payload with
    | None => Reject PROTOCOL_ERROR
    | Some (pad, content) =>
        match strip_trailing pad content with
        | None => Reject PROTOCOL_ERROR          (* padding >= payload length *)
        | Some data => Accept (WData sid (flag fl F_END_STREAM) pad data)
        end
    end
  else if ty =? T_HEADERS then
    (* 6.2 *)
    if sid =? 0 then Reject PROTOCOL_ERROR else
    match pad_length (flag fl F_PADDED) payload with
    | None => Reject PROTOCOL_ERROR
    | Some (pad, content) =>
        let after_prio :=
          if flag fl F_PRIORITY then
            match parse_priority_fields content with
            | Some (p, rest) => Some (Some p, rest)
            | None => None
            end
          else Some (None, content) in
        match after_prio with
        | None => Reject FRAME_SIZE_ERROR        (* too short for the priority fields *)
        | Some (prio, rest) =>
            match strip_trailing pad rest with
            | None => Reject PROTOCOL_ERROR      (* padding exceeds the remaining size *)
            | Some frag =>
                (* RFC 7540 5.3.1 (kept by implementations although RFC 9113 deprecates
                   priority signalling): a stream cannot depend on itself *)
                match prio with
                | Some p => if pf_dependency p =? sid then Reject PROTOCOL_ERROR
                            else Accept (WHeaders sid (flag fl F_END_STREAM) (flag fl F_END_HEADERS) prio frag)
                | None => Accept (WHeaders sid (flag fl F_END_STREAM) (flag fl F_END_HEADERS) None frag)
                end
            end
        end
    end
  else if ty =? T_PRIORITY then
    (* 6.3 *)
    if sid =? 0 then Reject PROTOCOL_ERROR else
    if negb (len =? 5) then Reject FRAME_SIZE_ERROR else
    match parse_priority_fields payload with
    | Some (p, _) => if pf_dependency p =? sid then Reject PROTOCOL_ERROR (* RFC 7540 5.3.1 *)
                     else Accept (WPriority sid p)
    | None => Reject FRAME_SIZE_ERROR
    end
  else if ty =? T_RST_STREAM then
    (* 6.4 *)
    if sid =? 0 then Reject PROTOCOL_ERROR else
    match payload with
    | [a; b; c; d] => Accept (WRstStream sid (u32_of a b c d))
    | _ => Reject FRAME_SIZE_ERROR
    end
  else if ty =? T_SETTINGS then
    (* 6.5 *)
    if negb (sid =? 0) then Reject PROTOCOL_ERROR else
    if flag fl F_ACK then
      (if len =? 0 then Accept (WSettings true []) else Reject FRAME_SIZE_ERROR)
    else
      match parse_params payload with
      | None => Reject FRAME_SIZE_ERROR
      | Some ps => match first_param_error ps with
                   | Some e => Reject e
                   | None => Accept (WSettings false ps)
                   end
      end
  else if ty =? T_PUSH_PROMISE then
    (* 6.6 *)
    if sid =? 0 then Reject PROTOCOL_ERROR else
    match pad_length (flag fl F_PADDED) payload with
    | None => Reject PROTOCOL_ERROR
    | Some (pad, content) =>
        match content with
        | a :: b :: c :: d :: rest =>
            match strip_trailing pad rest with
            | None => Reject PROTOCOL_ERROR
            | Some frag => Accept (WPushPromise sid (flag fl F_END_HEADERS) (u31_of a b c d) frag)
            end
        | _ => Reject FRAME_SIZE_ERROR           (* too short for the promised stream id *)
        end
    end
  else if ty =? T_PING then
    (* 6.7 *)
    if negb (sid =? 0) then Reject PROTOCOL_ERROR else
    if negb (len =? 8) then Reject FRAME_SIZE_ERROR else
    Accept (WPing (flag fl F_ACK) payload)
  else if ty =? T_GOAWAY then
    (* 6.8 *)
    if negb (sid =? 0) then Reject PROTOCOL_ERROR else
    match payload with
    | a :: b :: c :: d :: e :: f :: g :: h :: debug =>
        Accept (WGoAway (u31_of a b c d) (u32_of e f g h) debug)
    | _ => Reject FRAME_SIZE_ERROR
    end
  else if ty =? T_WINDOW_UPDATE then
    (* 6.9 *)
    match payload with
    | [a; b; c; d] =>
        let inc := u31_of a b c d in
        if inc =? 0 then Reject PROTOCOL_ERROR   (* stream or connection error, by stream id *)
        else Accept (WWindowUpdate sid inc)
    | _ => Reject FRAME_SIZE_ERROR
    end
  else if ty =? T_CONTINUATION then
    (* 6.10 *)
    if sid =? 0 then Reject PROTOCOL_ERROR else
    Accept (WContinuation sid (flag fl F_END_HEADERS) payload)
  else
    (* 4.1: implementations MUST ignore and discard frames of unknown types *)
    Accept (WUnknown ty fl sid payload).

(* section 4.1 + 4.2: a frame whose Length exceeds the receiver's advertised
   SETTINGS_MAX_FRAME_SIZE is a FRAME_SIZE_ERROR -- decided from the Length field alone, the
   payload need not be there; otherwise [bs] must be exactly one frame.  [pp] is the grammar of
   the payloads. *)
Definition rfc_parse_frame_with (pp : N -> N -> N -> list N -> rfc_result) (max_frame_size : N) (bs : list N)
  : rfc_result :=
  match bs with
  | l2 :: l1 :: l0 :: after_length =>
      let len := l2 * 65536 + l1 * 256 + l0 in
      if max_frame_size <? len then Reject FRAME_SIZE_ERROR else
      match after_length with
      | ty :: fl :: s3 :: s2 :: s1 :: s0 :: payload =>
          if negb (len =? olen payload) then NotOneFrame
          else pp ty fl (u31_of s3 s2 s1 s0) payload
      | _ => NotOneFrame
      end
  | _ => NotOneFrame
  end.

Definition rfc_parse_frame : N -> list N -> rfc_result := rfc_parse_frame_with parse_payload.

(* The grammar as seen at the boundary of a frame codec.  An endpoint is free to apply a check in
   whichever layer has the knowledge; two stream-identifier rules of section 6 concern frames whose
   meaning is tied to stream state and are customarily applied above the codec:
     6.4   RST_STREAM on stream 0x0   (PROTOCOL_ERROR) -- a matter of the stream layer,
     6.10  CONTINUATION on stream 0x0 (PROTOCOL_ERROR) -- a matter of field block reassembly
           (no block can be open on stream 0, since HEADERS / PUSH_PROMISE on stream 0 are refused).
   At the codec boundary such a frame is handed up unchanged, to be refused there
   ([deferred_to_upper_layer]); everything else is the grammar above. *)
Definition parse_payload_codec (ty fl sid : N) (payload : list N) : rfc_result :=
  if (ty =? T_RST_STREAM) && (sid =? 0) then
    match payload with
    | [a; b; c; d] => Accept (WRstStream 0 (u32_of a b c d))
    | _ => Reject FRAME_SIZE_ERROR
    end
  else if (ty =? T_CONTINUATION) && (sid =? 0) then
    Accept (WContinuation 0 (flag fl F_END_HEADERS) payload)
  else parse_payload ty fl sid payload.

Definition rfc_parse_frame_codec : N -> list N -> rfc_result := rfc_parse_frame_with parse_payload_codec.

Definition deferred_to_upper_layer (w : wire_frame) : bool :=
  match w with
  | WRstStream s _ => s =? 0
  | WContinuation s _ _ => s =? 0
  | _ => false
  end.

(* ---------------------------------------------------------------------------------------- *)
(* reference serialiser *)

Definition ser_u16 (v : N) : list N := [(v / 256) mod 256; v mod 256].
Definition ser_u24 (v : N) : list N := [(v / 65536) mod 256; (v / 256) mod 256; v mod 256].
Definition ser_u32 (v : N) : list N := [(v / 16777216) mod 256; (v / 65536) mod 256; (v / 256) mod 256; v mod 256].
Definition ser_u31 (hi : bool) (v : N) : list N :=
  [(v / 16777216) mod 128 + bit_if hi 128; (v / 65536) mod 256; (v / 256) mod 256; v mod 256].

Definition ser_frame (ty fl sid : N) (payload : list N) : list N :=
  ser_u24 (olen payload) ++ [ty; fl] ++ ser_u31 false sid ++ payload.

Definition ser_padded (pad : option N) (content : list N) : list N :=
  match pad with
  | None => content
  | Some p => [p] ++ content ++ repeat 0 (N.to_nat p)
  end.
Definition pad_flag (pad : option N) : N := match pad with Some _ => F_PADDED | None => 0 end.

Definition ser_priority_fields (p : priority_fields) : list N :=
  ser_u31 (pf_exclusive p) (pf_dependency p) ++ [pf_weight p].

Fixpoint ser_params (ps : list (N * N)) : list N :=
  match ps with
  | [] => []
  | (id, v) :: ps' => ser_u16 id ++ ser_u32 v ++ ser_params ps'
  end.

(* padding of HEADERS / PUSH_PROMISE is not part of the wire value: serialise unpadded *)
Definition rfc_serialize (w : wire_frame) : list N :=
  match w with
  | WData sid es pad data =>
      ser_frame T_DATA (bit_if es F_END_STREAM + pad_flag pad) sid (ser_padded pad data)
  | WHeaders sid es eh prio frag =>
      ser_frame T_HEADERS
        (bit_if es F_END_STREAM + bit_if eh F_END_HEADERS + match prio with Some _ => F_PRIORITY | None => 0 end) sid
        (match prio with Some p => ser_priority_fields p | None => [] end ++ frag)
  | WPriority sid p => ser_frame T_PRIORITY 0 sid (ser_priority_fields p)
  | WRstStream sid code => ser_frame T_RST_STREAM 0 sid (ser_u32 code)
  | WSettings ack ps => ser_frame T_SETTINGS (bit_if ack F_ACK) 0 (ser_params ps)
  | WPushPromise sid eh promised frag =>
      ser_frame T_PUSH_PROMISE (bit_if eh F_END_HEADERS) sid (ser_u31 false promised ++ frag)
  | WPing ack opaque => ser_frame T_PING (bit_if ack F_ACK) 0 opaque
  | WGoAway last code debug => ser_frame T_GOAWAY 0 0 (ser_u31 false last ++ ser_u32 code ++ debug)
  | WWindowUpdate sid inc => ser_frame T_WINDOW_UPDATE 0 sid (ser_u31 false inc)
  | WContinuation sid eh frag => ser_frame T_CONTINUATION (bit_if eh F_END_HEADERS) sid frag
  | WUnknown ty fl sid payload => ser_frame ty fl sid payload
  end.

(* ---------------------------------------------------------------------------------------- *)
(* an octet stream as a sequence of frames (section 4.1: frames follow each other back to back) *)

Definition declared_length (bs : list N) : option N :=
  match bs with
  | l2 :: l1 :: l0 :: _ => Some (l2 * 65536 + l1 * 256 + l0)
  | _ => None
  end.

(* cut [bs] into complete frames; the second component is the incomplete tail *)
Fixpoint rfc_split (fuel : nat) (bs : list N) : list (list N) * list N :=
  match fuel with
  | O => ([], bs)
  | S fuel' =>
      match declared_length bs with
      | None => ([], bs)
      | Some len =>
          if 9 + len <=? olen bs then
            let (fs, tail) := rfc_split fuel' (drop (9 + len) bs) in
            (take (9 + len) bs :: fs, tail)
          else ([], bs)
      end
  end.
Definition rfc_frames (bs : list N) : list (list N) * list N := rfc_split (S (length bs)) bs.

(* section 4.3 / 6.10: a field block is one HEADERS or PUSH_PROMISE frame followed by zero or more
   CONTINUATION frames on the same stream, the last of which carries END_HEADERS; no other frame
   of any type or stream may be interleaved.  [rfc_reassemble] replaces each such run by a single
   HEADERS / PUSH_PROMISE value carrying the whole block (END_HEADERS set); None = PROTOCOL_ERROR. *)
Inductive open_block :=
| OpenHeaders (stream : N) (end_stream : bool) (prio : option priority_fields) (acc : list N)
| OpenPush (stream : N) (promised : N) (acc : list N).

Definition open_stream (o : open_block) : N :=
  match o with OpenHeaders s _ _ _ => s | OpenPush s _ _ => s end.
Definition open_extend (o : open_block) (frag : list N) : open_block :=
  match o with
  | OpenHeaders s es p acc => OpenHeaders s es p (acc ++ frag)
  | OpenPush s pr acc => OpenPush s pr (acc ++ frag)
  end.
Definition open_close (o : open_block) : wire_frame :=
  match o with
  | OpenHeaders s es p acc => WHeaders s es true p acc
  | OpenPush s pr acc => WPushPromise s true pr acc
  end.

Fixpoint rfc_reassemble (cur : option open_block) (ws : list wire_frame) : option (list wire_frame) :=
  match ws with
  | [] => match cur with None => Some [] | Some _ => None end
  | w :: ws' =>
      match cur with
      | Some o =>
          match w with
          | WContinuation s eh frag =>
              if s =? open_stream o then
                if eh then option_map (cons (open_close (open_extend o frag))) (rfc_reassemble None ws')
                else rfc_reassemble (Some (open_extend o frag)) ws'
              else None
          | _ => None
          end
      | None =>
          match w with
          | WContinuation _ _ _ => None
          | WHeaders s es false p frag => rfc_reassemble (Some (OpenHeaders s es p frag)) ws'
          | WPushPromise s false pr frag => rfc_reassemble (Some (OpenPush s pr frag)) ws'
          | WUnknown _ _ _ _ => rfc_reassemble None ws'          (* ignored and discarded *)
          | _ => option_map (cons w) (rfc_reassemble None ws')
          end
      end
  end.

(* an octet stream that consists of complete, acceptable frames, as the sequence of logical
   frames it carries (field blocks reassembled, unknown frame types dropped); None when the
   stream ends inside a frame or anything in it is rejected *)
Fixpoint rfc_parse_all (max_frame_size : N) (frames : list (list N)) : option (list wire_frame) :=
  match frames with
  | [] => Some []
  | f :: fs =>
      match rfc_parse_frame max_frame_size f with
      | Accept w => option_map (cons w) (rfc_parse_all max_frame_size fs)
      | _ => None
      end
  end.

Definition rfc_decode_stream (max_frame_size : N) (bs : list N) : option (list wire_frame) :=
  let (frames, tail) := rfc_frames bs in
  match tail with
  | [] =>
      match rfc_parse_all max_frame_size frames with
      | Some ws => rfc_reassemble None ws
      | None => None
      end
  | _ :: _ => None
  end.
