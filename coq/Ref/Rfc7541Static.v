(* RFC 7541 Appendix A: the HPACK static table (61 entries), transcribed from the RFC text.
   Committed reference, never regenerated: Gen/StaticTable.v (rendered from h2's `get_static`)
   is proved equal to it (Proofs/HpackDecProofs.v, gen_static_is_rfc). *)
From Coq Require Import String Ascii.
From H2V Require Import Base.Tac Base.Bytes.
Local Open Scope N_scope.

(* ASCII string -> byte string *)
Fixpoint str (s : string) : list N :=
  match s with
  | EmptyString => []
  | String c s' => N_of_ascii c :: str s'
  end.

Local Open Scope string_scope.

(* index 1 is the first element *)
Definition rfc_static_strings : list (string * string) := [
  (":authority", "");                      (*  1 *)
  (":method", "GET");                      (*  2 *)
  (":method", "POST");                     (*  3 *)
  (":path", "/");                          (*  4 *)
  (":path", "/index.html");                (*  5 *)
  (":scheme", "http");                     (*  6 *)
  (":scheme", "https");                    (*  7 *)
  (":status", "200");                      (*  8 *)
  (":status", "204");                      (*  9 *)
  (":status", "206");                      (* 10 *)
  (":status", "304");                      (* 11 *)
  (":status", "400");                      (* 12 *)
  (":status", "404");                      (* 13 *)
  (":status", "500");                      (* 14 *)
  ("accept-charset", "");                  (* 15 *)
  ("accept-encoding", "gzip, deflate");    (* 16 *)
  ("accept-language", "");                 (* 17 *)
  ("accept-ranges", "");                   (* 18 *)
  ("accept", "");                          (* 19 *)
  ("access-control-allow-origin", "");     (* 20 *)
  ("age", "");                             (* 21 *)
  ("allow", "");                           (* 22 *)
  ("authorization", "");                   (* 23 *)
  ("cache-control", "");                   (* 24 *)
  ("content-disposition", "");             (* 25 *)
  ("content-encoding", "");                (* 26 *)
  ("content-language", "");                (* 27 *)
  ("content-length", "");                  (* 28 *)
  ("content-location", "");                (* 29 *)
  ("content-range", "");                   (* 30 *)
  ("content-type", "");                    (* 31 *)
  ("cookie", "");                          (* 32 *)
  ("date", "");                            (* 33 *)
  ("etag", "");                            (* 34 *)
  ("expect", "");                          (* 35 *)
  ("expires", "");                         (* 36 *)
  ("from", "");                            (* 37 *)
  ("host", "");                            (* 38 *)
  ("if-match", "");                        (* 39 *)
  ("if-modified-since", "");               (* 40 *)
  ("if-none-match", "");                   (* 41 *)
  ("if-range", "");                        (* 42 *)
  ("if-unmodified-since", "");             (* 43 *)
  ("last-modified", "");                   (* 44 *)
  ("link", "");                            (* 45 *)
  ("location", "");                        (* 46 *)
  ("max-forwards", "");                    (* 47 *)
  ("proxy-authenticate", "");              (* 48 *)
  ("proxy-authorization", "");             (* 49 *)
  ("range", "");                           (* 50 *)
  ("referer", "");                         (* 51 *)
  ("refresh", "");                         (* 52 *)
  ("retry-after", "");                     (* 53 *)
  ("server", "");                          (* 54 *)
  ("set-cookie", "");                      (* 55 *)
  ("strict-transport-security", "");       (* 56 *)
  ("transfer-encoding", "");               (* 57 *)
  ("user-agent", "");                      (* 58 *)
  ("vary", "");                            (* 59 *)
  ("via", "");                             (* 60 *)
  ("www-authenticate", "")                 (* 61 *)
].

Definition rfc_static : list (list N * list N) :=
  map (fun p => (str (fst p), str (snd p))) rfc_static_strings.

Definition rfc_static_len : N := 61.
