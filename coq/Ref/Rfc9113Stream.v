(* RFC 9113 section 5.1 "Stream States" (figure 2 and the per-state text), transcribed as a small
   automaton, independent of any implementation.

                              +--------+
                      send PP |        | recv PP
                     ,--------+  idle  +--------.
                    /         |        |         \
                   v          +--------+          v
            +----------+          |           +----------+
            |          |          | send H /  |          |
     ,------+ reserved |          | recv H    | reserved +------.
     |      | (local)  |          |           | (remote) |      |
     |      +---+------+          v           +------+---+      |
     |          |             +--------+             |          |
     |          |     recv ES |        | send ES     |          |
     |   send H |     ,-------+  open  +-------.     | recv H   |
     |          |    /        |        |        \    |          |
     |          v   v         +---+----+         v   v          |
     |      +----------+          |           +----------+      |
     |      |   half-  |          |           |   half-  |      |
     |      |  closed  |          | send R /  |  closed  |      |
     |      | (remote) |          | recv R    | (local)  |      |
     |      +----+-----+          |           +-----+----+      |
     |           |                |                 |           |
     |           | send ES /      |       recv ES / |           |
     |           |  send R /      v        send R / |           |
     |           |  recv R    +--------+   recv R   |           |
     | send R /  `----------->|        |<-----------'  send R / |
     | recv R                 | closed |               recv R   |
     `----------------------->|        |<-----------------------'
                              +--------+

   Events are the ones of the figure (constructors KH, KHES, KES, KPP, KR below), seen from one
   endpoint, on the stream they concern:
     H    a HEADERS frame without END_STREAM that opens a message or carries an informational (1xx)
          response
     HES  a HEADERS frame with END_STREAM that opens a message (a message without body)
     ES   a frame carrying END_STREAM after the message was opened: DATA with END_STREAM or the
          trailers HEADERS frame (8.1: trailers always carry END_STREAM)
     PP   a PUSH_PROMISE frame that reserves *this* stream (it is carried on another stream)
     R    a RST_STREAM frame
   "A frame bearing END_STREAM ... causes two state transitions": HES = H followed by ES. *)
From H2V Require Import Base.Tac.

Inductive rfc_state :=
| idle | reserved_local | reserved_remote | open | half_closed_local | half_closed_remote | closed.

Inductive dir := Send | Recv.
Inductive ekind := KH | KHES | KES | KPP | KR.

(* The transition function: None = the RFC does not permit this event in this state (for Send: the
   endpoint MUST NOT send it; for Recv: the endpoint MUST treat it as an error). *)
Definition rfc_step (s : rfc_state) (d : dir) (k : ekind) : option rfc_state :=
  match s, d, k with
  (* idle: "Sending a HEADERS frame as a client, or receiving a HEADERS frame as a server, causes the
     stream to become open"; "Sending a PUSH_PROMISE frame on another stream reserves the idle stream
     ... reserved (local)"; "Receiving ... reserved (remote)"; "Receiving any frame other than HEADERS
     or PRIORITY on a stream in this state MUST be treated as a connection error" *)
  | idle, _, KH => Some open
  | idle, Send, KHES => Some half_closed_local
  | idle, Recv, KHES => Some half_closed_remote
  | idle, Send, KPP => Some reserved_local
  | idle, Recv, KPP => Some reserved_remote
  | idle, _, _ => None
  (* reserved (local): "The endpoint can send a HEADERS frame. This causes the stream to open in a
     half-closed (remote) state.  Either endpoint can send a RST_STREAM frame to cause the stream to
     become closed."  "MUST NOT send any type of frame other than HEADERS, RST_STREAM, or PRIORITY" *)
  | reserved_local, Send, KH => Some half_closed_remote
  | reserved_local, Send, KHES => Some closed
  | reserved_local, _, KR => Some closed
  | reserved_local, _, _ => None
  (* reserved (remote): "Receiving a HEADERS frame causes the stream to transition to half-closed
     (local).  Either endpoint can send a RST_STREAM frame" *)
  | reserved_remote, Recv, KH => Some half_closed_local
  | reserved_remote, Recv, KHES => Some closed
  | reserved_remote, _, KR => Some closed
  | reserved_remote, _, _ => None
  (* open: "may be used by both peers to send frames of any type"; "either peer can send a frame with
     an END_STREAM flag set"; "Either endpoint can send a RST_STREAM frame from this state" *)
  | open, _, KH => Some open
  | open, Send, (KHES | KES) => Some half_closed_local
  | open, Recv, (KHES | KES) => Some half_closed_remote
  | open, _, KR => Some closed
  | open, _, KPP => None
  (* half-closed (local): "cannot be used for sending frames other than WINDOW_UPDATE, PRIORITY, and
     RST_STREAM"; "transitions ... to closed when a frame is received with the END_STREAM flag set or
     when either peer sends a RST_STREAM frame"; "An endpoint can receive any type of frame" *)
  | half_closed_local, Recv, KH => Some half_closed_local
  | half_closed_local, Recv, (KHES | KES) => Some closed
  | half_closed_local, _, KR => Some closed
  | half_closed_local, _, _ => None
  (* half-closed (remote): "no longer being used by the peer to send frames"; "If an endpoint receives
     additional frames, other than WINDOW_UPDATE, PRIORITY, or RST_STREAM ... MUST respond with a
     stream error of type STREAM_CLOSED"; "can be used by the endpoint to send frames of any type";
     "can transition ... to closed by sending a frame with the END_STREAM flag set or when either
     peer sends a RST_STREAM frame" *)
  | half_closed_remote, Send, KH => Some half_closed_remote
  | half_closed_remote, Send, (KHES | KES) => Some closed
  | half_closed_remote, _, KR => Some closed
  | half_closed_remote, _, _ => None
  (* closed: terminal.  "An endpoint MUST NOT send frames other than PRIORITY on a closed stream";
     "An endpoint that sends a frame with the END_STREAM flag set or a RST_STREAM frame might receive
     a WINDOW_UPDATE or RST_STREAM frame from its peer" *)
  | closed, Recv, KR => Some closed
  | closed, _, _ => None
  end.

(* ---- what may still be sent / must be accepted, per frame type ---- *)

Inductive ftype := DATA | HEADERS | PRIORITY | RST_STREAM | PUSH_PROMISE | WINDOW_UPDATE.
(* PUSH_PROMISE here is the frame as carried on this stream (promising another one). *)

(* frame types the endpoint is allowed to send on a stream in this state *)
Definition sender_may (s : rfc_state) (t : ftype) : bool :=
  match s, t with
  | _, PRIORITY => true                              (* "can be sent ... for a stream in any state" *)
  | idle, HEADERS => true
  | idle, _ => false
  | reserved_local, (HEADERS | RST_STREAM) => true
  | reserved_local, _ => false
  | reserved_remote, (RST_STREAM | WINDOW_UPDATE) => true
  | reserved_remote, _ => false
  | open, _ => true
  | half_closed_local, (WINDOW_UPDATE | RST_STREAM) => true
  | half_closed_local, _ => false
  | half_closed_remote, _ => true
  | closed, _ => false
  end.

(* how the stream got closed: decides what a receiver owes to frames that arrive afterwards *)
Inductive closed_how :=
| by_end_stream      (* both END_STREAM flags seen *)
| by_recv_reset      (* the peer's RST_STREAM *)
| by_sent_reset.     (* our RST_STREAM: the peer may not have seen it yet *)

Inductive verdict :=
| accept                 (* valid in this state *)
| tolerate               (* MUST NOT be an error: the documented races (frames that were in flight) *)
| stream_error           (* MUST be refused; at least a stream error (STREAM_CLOSED) *)
| conn_error             (* MUST be treated as a connection error (PROTOCOL_ERROR) *)
| may_error.             (* closed stream: MAY be treated as a connection error of type STREAM_CLOSED *)

(* what a receiver must do with a frame of type [t] on a stream in state [s] ([h] is only looked at
   when s = closed) *)
Definition receiver_must (s : rfc_state) (h : closed_how) (t : ftype) : verdict :=
  match s, t with
  | _, PRIORITY => accept
  | idle, HEADERS => accept
  | idle, _ => conn_error
  | reserved_local, (RST_STREAM | WINDOW_UPDATE) => accept
  | reserved_local, _ => conn_error
  | reserved_remote, (HEADERS | RST_STREAM) => accept
  | reserved_remote, _ => conn_error
  | open, _ => accept
  | half_closed_local, _ => accept
  | half_closed_remote, (WINDOW_UPDATE | RST_STREAM) => accept
  | half_closed_remote, _ => stream_error
  | closed, (WINDOW_UPDATE | RST_STREAM) => tolerate
  | closed, _ =>
    match h with
    | by_sent_reset => tolerate      (* "could receive any type of frame ... MUST minimally process and
                                         then discard" *)
    | by_recv_reset => stream_error  (* "receives any frame other than PRIORITY after receiving a
                                         RST_STREAM MUST treat that as a stream error ... STREAM_CLOSED" *)
    | by_end_stream => may_error
    end
  end.

(* the frame type that carries an event, and whether the event ends the sender's half *)
Definition ftype_of (k : ekind) : ftype :=
  match k with
  | KH | KHES => HEADERS
  | KES => DATA              (* or trailers HEADERS: both need the state to allow DATA/HEADERS *)
  | KPP => PUSH_PROMISE
  | KR => RST_STREAM
  end.

(* RFC 9113 8.1: in each direction a message is  (1xx HEADERS)*  HEADERS  DATA*  [trailers + ES].
   The phase of one direction of a stream: *)
Inductive phase :=
| awaiting      (* the (final) header section has not been sent / received yet *)
| body          (* header section done, END_STREAM not yet *)
| done.         (* END_STREAM or reset: nothing more in this direction *)

(* an opening header section (events H, HES) is only well-formed in phase [awaiting]
   (8.1.1: a second non-trailer header section makes the message malformed) *)
Definition opening_ok (p : phase) : bool := match p with awaiting => true | _ => false end.

(* the phase after an opening header section: a 1xx response leaves the direction waiting *)
Definition after_opening (eos info : bool) : phase :=
  if eos then done else if info then awaiting else body.
