(* RFC 9113 section 5.1 "Stream States" (figure 2 and the per-state text), transcribed as a small
   automaton, independent of any implementation.

                              +--------+
                      send PP |        | recv PP
                     ,--------+  idle  +--------.
                    /         |        |         \
                   v          +--------+          v
            +----------+          |           +----------+
            |          |          | send H /  |          |
     ,------+ reserved |          | recv H    | reserved +------.
     |      | (local)  |          |           | (remote) |      |
     |      +---+------+          v           +------+---+      |
     |          |             +--------+             |          |
     |          |     recv ES |        | send ES     |          |
     |   send H |     ,-------+  open  +-------.     | recv H   |
     |          |    /        |        |        \    |          |
     |          v   v         +---+----+         v   v          |
     |      +----------+          |           +----------+      |
     |      |   half-  |          |           |   half-  |      |
     |      |  closed  |          | send R /  |  closed  |      |
     |      | (remote) |          | recv R    | (local)  |      |
     |      +----+-----+          |           +-----+----+      |
     |           |                |                 |           |
     |           | send ES /      |       recv ES / |           |
     |           |  send R /      v        send R / |           |
     |           |  recv R    +--------+   recv R   |           |
     | send R /  `----------->|        |<-----------'  send R / |
     | recv R                 | closed |               recv R   |
     `----------------------->|        |<-----------------------'
                              +--------+

   Events are the ones of the figure (constructors KH, KHES, KES, KPP, KR below), seen from one
   endpoint, on the stream they concern:
     H    a HEADERS frame without END_STREAM that opens a message or carries an informational (1xx)
          response
     HES  a HEADERS frame with END_STREAM that opens a message (a message without body)
     ES   a frame carrying END_STREAM after the message was opened: DATA with END_STREAM or the
          trailers HEADERS frame (8.1: trailers always carry END_STREAM)
     PP   a PUSH_PROMISE frame that reserves *this* stream (it is carried on another stream)
     R    a RST_STREAM frame
   "A frame bearing END_STREAM ... causes two state transitions": HES = H followed by ES. *)
From H2V Require Import Base.Tac.

Inductive rfc_state :=
| idle | reserved_local | reserved_remote | open | half_closed_local | half_closed_remote | closed.

Inductive dir := Send | Recv.
Inductive ekind := KH | KHES | KES | KPP | KR.

(* The transition function: None = the RFC does not permit this event in this state (for Send: the
   endpoint MUST NOT send it; for Recv: the endpoint MUST treat it as an error). *)
Definition rfc_step (s : rfc_state) (d : dir) (k : ekind) : option rfc_state :=
  match s, d, k with
  (* idle: "Sending a HEADERS frame as a client, or receiving a HEADERS frame as a server, causes the
     stream to become open"; "Sending a PUSH_PROMISE frame on another stream reserves the idle stream
     ... reserved (local)"; "Receiving ... reserved (remote)"; "Receiving any frame other than HEADERS
     or PRIORITY on a stream in this state MUST be treated as a connection error" *)
  | idle, _, KH => Some open
  | idle, Send, KHES => Some half_closed_local
  | idle, Recv, KHES => Some half_closed_remote
  | idle, Send, KPP => Some reserved_local
  | idle, Recv, KPP => Some reserved_remote
  | idle, _, _ => None
  (* reserved (local): "The endpoint can send a HEADERS frame. This causes the stream to open in a
     half-closed (remote) state.  Either endpoint can send a RST_STREAM frame to cause the stream to
     become closed."  "MUST NOT send any type of frame other than HEADERS, RST_STREAM, or PRIORITY" *)
  | reserved_local, Send, KH => Some half_closed_remote
  | reserved_local, Send, KHES => Some closed
  | reserved_local, _, KR => Some closed
  | reserved_local, _, _ => None
  (* reserved (remote): "Receiving a HEADERS frame causes the stream to transition to half-closed
     (local).  Either endpoint can send a RST_STREAM frame" *)
  | reserved_remote, Recv, KH => Some half_closed_local
  | reserved_remote, Recv, KHES => Some closed
  | reserved_remote, _, KR => Some closed
  | reserved_remote, _, _ => None
  (* open: "may be used by both peers to send frames of any type"; "either peer can send a frame with
     an END_STREAM flag set"; "Either endpoint can send a RST_STREAM frame from this state" *)
  | open, _, KH => Some open
  | open, Send, (KHES | KES) => Some half_closed_local
  | open, Recv, (KHES | KES) => Some half_closed_remote
  | open, _, KR => Some closed
  | open, _, KPP => None
  (* half-closed (local): "cannot be used for sending frames other than WINDOW_UPDATE, PRIORITY, and
     RST_STREAM"; "transitions ... to closed when a frame is received with the END_STREAM flag set or
     when either peer sends a RST_STREAM frame"; "An endpoint can receive any type of frame" *)
  | half_closed_local, Recv, KH => Some half_closed_local
  | half_closed_local, Recv, (KHES | KES) => Some closed
  | half_closed_local, _, KR => Some closed
  | half_closed_local, _, _ => None
  (* half-closed (remote): "no longer being used by the peer to send frames"; "If an endpoint receives
     additional frames, other than WINDOW_UPDATE, PRIORITY, or RST_STREAM ... MUST respond with a
     stream error of type STREAM_CLOSED"; "can be used by the endpoint to send frames of any type";
     "can transition ... to closed by sending a frame with the END_STREAM flag set or when either
     peer sends a RST_STREAM frame" *)
  | half_closed_remote, Send, KH => Some half_closed_remote
  | half_closed_remote, Send, (KHES | KES) => Some closed
  | half_closed_remote, _, KR => Some closed
  | half_closed_remote, _, _ => None
  (* closed: terminal.  "An endpoint MUST NOT send frames other than PRIORITY on a closed stream";
     "An endpoint that sends a frame with the END_STREAM flag set or a RST_STREAM frame might receive
     a WINDOW_UPDATE or RST_STREAM frame from its peer" *)
  | closed, Recv, KR => Some closed
  | closed, _, _ => None
  end.

(* ---- what may still be sent / must be accepted, per frame type ---- *)

Inductive ftype := DATA | HEADERS | PRIORITY | RST_STREAM | PUSH_PROMISE | WINDOW_UPDATE.
(* PUSH_PROMISE here is the frame as carried on this stream (promising another one). *)

(* frame types the endpoint is allowed to send on a stream in this state *)
Definition sender_may (s : rfc_state) (t : ftype) : bool :=
  match s, t with
  | _, PRIORITY => true                              (* "can be sent ... for a stream in any state" *)
  | idle, HEADERS => true
  | idle, _ => false
  | reserved_local, (HEADERS | RST_STREAM) => true
  | reserved_local, _ => false
  | reserved_remote, (RST_STREAM | WINDOW_UPDATE) => true
  | reserved_remote, _ => false
  | open, _ => true
  | half_closed_local, (WINDOW_UPDATE | RST_STREAM) => true
  | half_closed_local, _ => false
  | half_closed_remote, _ => true
  | closed, _ => false
  end.

(* how the stream got closed: decides what a receiver owes to frames that arrive afterwards *)
Inductive closed_how :=
| by_end_stream      (* both END_STREAM flags seen *)
| by_recv_reset      (* the peer's RST_STREAM *)
| by_sent_reset.     (* our RST_STREAM: the peer may not have seen it yet *)

Inductive verdict :=
| accept                 (* valid in this state *)
| tolerate               (* MUST NOT be an error: the documented races (frames that were in flight) *)
| stream_error           (* MUST be refused; at least a stream error (STREAM_CLOSED) *)
| conn_error             (* MUST be treated as a connection error (PROTOCOL_ERROR) *)
| may_error.             (* closed stream: MAY be treated as a connection error of type STREAM_CLOSED *)

(* what a receiver must do with a frame of type [t] on a stream in state [s] ([h] is only looked at
   when s = closed) *)
Definition receiver_must (s : rfc_state) (h : closed_how) (t : ftype) : verdict :=
  match s, t with
  | _, PRIORITY => accept
  | idle, HEADERS => accept
  | idle, _ => conn_error
  | reserved_local, (RST_STREAM | WINDOW_UPDATE) => accept
  | reserved_local, _ => conn_error
  | reserved_remote, (HEADERS | RST_STREAM) => accept
  | reserved_remote, _ => conn_error
  | open, _ => accept
  | half_closed_local, _ => accept
  | half_closed_remote, (WINDOW_UPDATE | RST_STREAM) => accept
  | half_closed_remote, _ => stream_error
  | closed, (WINDOW_UPDATE | RST_STREAM) => tolerate
  | closed, _ =>
    match h with
    | by_sent_reset => tolerate      (* "could receive any type of frame ... MUST minimally process and
                                         then discard" *)
    | by_recv_reset => stream_error  (* "receives any frame other than PRIORITY after receiving a
                                         RST_STREAM MUST treat that as a stream error ... STREAM_CLOSED" *)
    | by_end_stream => may_error
    end
  end.

(* the frame type that carries an event, and whether the event ends the sender's half *)
Definition ftype_of (k : ekind) : ftype :=
  match k with
  | KH | KHES => HEADERS
  | KES => DATA              (* or trailers HEADERS: both need the state to allow DATA/HEADERS *)
  | KPP => PUSH_PROMISE
  | KR => RST_STREAM
  end.

(* RFC 9113 8.1: in each direction a message is  (1xx HEADERS)*  HEADERS  DATA*  [trailers + ES].
   The phase of one direction of a stream: *)
Inductive phase :=
| awaiting      (* the (final) header section has not been sent / received yet *)
| body          (* header section done, END_STREAM not yet *)
| done.         (* END_STREAM or reset: nothing more in this direction *)

(* an opening header section (events H, HES) is only well-formed in phase [awaiting]
   (8.1.1: a second non-trailer header section makes the message malformed) *)
Definition opening_ok (p : phase) : bool := match p with awaiting => true | _ => false end.

(* the phase after an opening header section: a 1xx response leaves the direction waiting *)
Definition after_opening (eos info : bool) : phase :=
  if eos then done else if info then awaiting else body.

(* ---------------------------------------------------------------------------------------------
   Wire view of ONE stream, as both ends can know it from the frames that crossed (RFC 9113 5.1, 5.1.1,
   6.4, 6.6, 8.1): used for the sender-side life cycle (what an endpoint may put on the wire) and for the
   reaction a receiver owes to a frame.  Added for the dispatch layer (Model/Dispatch.v). *)

(* who may open the stream: [local] = the identifier is one this endpoint initiates (5.1.1: clients odd,
   servers even).  On an idle stream HEADERS is acceptable only from the side that initiates it. *)
Definition receiver_must_for (local : bool) (s : rfc_state) (h : closed_how) (t : ftype) : verdict :=
  match s, t with
  | idle, PRIORITY => accept
  | idle, HEADERS => if local then conn_error else accept
  | _, _ => receiver_must s h t
  end.

(* 5.4: the error codes with which an endpoint accuses its peer of a protocol violation (as opposed to
   NO_ERROR, INTERNAL_ERROR, REFUSED_STREAM, CANCEL, ENHANCE_YOUR_CALM ... which blame nobody's framing):
   PROTOCOL_ERROR 1, FLOW_CONTROL_ERROR 3, STREAM_CLOSED 5, FRAME_SIZE_ERROR 6, COMPRESSION_ERROR 9 *)
Definition violation_code (c : N) : bool :=
  N.eqb c 1 || N.eqb c 3 || N.eqb c 5 || N.eqb c 6 || N.eqb c 9.

(* What the endpoint puts on the wire for one stream, and what it took from the peer on it. *)
Inductive tx :=
| THeaders (eos info : bool)     (* HEADERS opening a message, or an interim (1xx) response *)
| TData (eos : bool)
| TTrailers                      (* HEADERS after the body: always END_STREAM (8.1) *)
| TPushOn                        (* PUSH_PROMISE carried on this stream *)
| TPromised                      (* this stream is reserved by a PUSH_PROMISE the endpoint sent *)
| TReset
| TWindowUpdate.

Inductive wev :=
| WTx (t : tx)
| WRx (k : ekind)                (* a peer event the endpoint accepted on this stream *)
| WRxRefused.                    (* a peer frame on this stream that the endpoint answers with a stream error *)

(* who may use the identifier first *)
Inductive opener :=
| ByUsHeaders                    (* a client's own (odd) identifier: opened by HEADERS *)
| ByUsPromise                    (* a server's own (even) identifier: only through PUSH_PROMISE *)
| ByPeer.                        (* the peer's identifier: nothing is sent before the peer used it *)

Record wview := mkWV {
  w_state : rfc_state;
  w_phase : phase;               (* 8.1: where the message this endpoint sends stands *)
  w_how : closed_how;            (* how the stream got closed, once it is *)
  w_owed : bool                  (* a stream error has been raised for a peer frame and not been sent yet *)
}.

Definition wv_init : wview := mkWV idle awaiting by_end_stream false.

Definition set_w (v : wview) (s : rfc_state) (p : phase) : wview := mkWV s p (w_how v) (w_owed v).

(* one step of the wire view; None = the RFC forbids the endpoint to send this frame now *)
Definition wire_step (o : opener) (v : wview) (e : wev) : option wview :=
  let s := w_state v in
  match e with
  | WTx (THeaders eos info) =>
    (* 5.1: HEADERS where the state allows it; on an idle stream only the initiator, and a server opens its
       own streams with PUSH_PROMISE only; 8.1: header section of the message, 1xx never ends the stream *)
    if negb (sender_may s HEADERS) then None
    else if (match s, o with idle, ByUsHeaders => false | idle, _ => true | _, _ => false end) then None
    else if negb (opening_ok (w_phase v)) then None
    else if info && eos then None
    else match rfc_step s Send (if eos then KHES else KH) with
         | Some s' => Some (set_w v s' (after_opening eos info))
         | None => None
         end
  | WTx (TData eos) =>
    if negb (sender_may s DATA) then None
    else match w_phase v with
         | body =>
           if eos then match rfc_step s Send KES with
                       | Some s' => Some (set_w v s' done)
                       | None => None
                       end
           else Some v
         | _ => None
         end
  | WTx TTrailers =>
    if negb (sender_may s HEADERS) then None
    else match w_phase v with
         | body => match rfc_step s Send KES with
                   | Some s' => Some (set_w v s' done)
                   | None => None
                   end
         | _ => None
         end
  | WTx TPushOn =>
    (* 6.6 / 8.4: on a peer-initiated stream that is open or half-closed (remote) *)
    match o, s with
    | ByPeer, (open | half_closed_remote) => Some v
    | _, _ => None
    end
  | WTx TPromised =>
    match o, s with
    | ByUsPromise, idle => Some (set_w v reserved_local awaiting)
    | _, _ => None
    end
  | WTx TReset =>
    (* 6.4: never on an idle stream; 5.1: not on a closed one - except as the stream error owed to a frame
       of the peer (5.4.2), and except that a stream closed by the PEER's RST_STREAM may see ours cross it
       (indistinguishable on the wire from resets that crossed) *)
    if sender_may s RST_STREAM || w_owed v
       || (match s, w_how v with closed, by_recv_reset => true | _, _ => false end)
    then Some (mkWV closed done (match s with closed => w_how v | _ => by_sent_reset end) false)
    else None
  | WTx TWindowUpdate =>
    if sender_may s WINDOW_UPDATE then Some v else None
  | WRx k =>
    Some (match rfc_step s Recv k with
          | Some s' => mkWV s' (w_phase v)
                            (match k, s with KR, closed => w_how v | KR, _ => by_recv_reset | _, _ => w_how v end)
                            (w_owed v)
          | None => v
          end)
  | WRxRefused => Some (mkWV s (w_phase v) (w_how v) true)
  end.

Fixpoint wire_run (o : opener) (v : wview) (es : list wev) : option wview :=
  match es with
  | [] => Some v
  | e :: es' => match wire_step o v e with Some v' => wire_run o v' es' | None => None end
  end.

(* the frames of one stream form a word of the sender automaton *)
Definition wire_accepts (o : opener) (es : list wev) : bool :=
  match wire_run o wv_init es with Some _ => true | None => false end.
