(* RFC 9113 section 8 (HTTP message framing in HTTP/2): which field blocks are malformed.

   Transcribed from RFC 9113 8.1 (message framing, trailers, interim responses), 8.1.1 (malformed
   messages, content-length), 8.2 (field validity 8.2.1, connection-specific fields 8.2.2),
   8.3 (pseudo-header fields; 8.3.1 request, 8.3.2 response), 8.4 (server push), 8.5 (CONNECT),
   RFC 8441 4 (extended CONNECT, :protocol) and RFC 9110 8.6 (Content-Length).

   A field is (name octets, value octets); a block is the list of fields in wire order.
   [kind] says as what the block is handed to the application:
     Request        - request head (server: accept)
     Response       - final response head (client: the response future)
     Informational  - interim 1xx response (client: poll_informational)
     PushedRequest  - promised request of a PUSH_PROMISE (client: push promise stream)
     Trailers       - trailer section of either direction (poll_trailers)
   [role] is the role of the RECEIVING endpoint.

   Not part of this predicate (deliberately, see the report of the work package): field VALUE
   syntax beyond NUL/LF/CR in regular fields (8.2.1 leading/trailing whitespace), octets of
   pseudo-header VALUES, syntax of the values of :path/:scheme/:authority, Host versus
   :authority (SHOULD), authority of pushes, the syntax of a content-length that is not accounted
   against DATA (responses to HEAD, 204/304, promised requests beyond "indicates content"). *)
From Coq Require Import String Ascii.
From H2V Require Import Base.Tac Base.Bytes.
Local Open Scope N_scope.

Inductive role := Client | Server.
Inductive kind := Request | Response | Informational | PushedRequest | Trailers.

Definition field : Type := (list N * list N)%type.

(* ASCII literal -> octets *)
Fixpoint octets (s : string) : list N :=
  match s with
  | EmptyString => []
  | String c s' => N_of_ascii c :: octets s'
  end.

Definition named (s : string) (f : field) : bool := list_N_eqb (fst f) (octets s).
Definition has (s : string) (fs : list field) : bool := existsb (named s) fs.

(* value of the first field with this name *)
Fixpoint value_of (s : string) (fs : list field) : option (list N) :=
  match fs with
  | [] => None
  | f :: r => if named s f then Some (snd f) else value_of s r
  end.

Definition values_of (s : string) (fs : list field) : list (list N) :=
  map snd (filter (named s) fs).

Definition value_is (s : string) (v : option (list N)) : bool :=
  match v with Some x => list_N_eqb x (octets s) | None => false end.

(* ---------- 8.3: pseudo-header fields ---------- *)

(* "pseudo-header fields ... have a name that starts with a single colon" *)
Definition is_pseudo (f : field) : bool :=
  match fst f with c :: _ => c =? 58 | [] => false end.

Definition request_pseudo : list string := [":method"; ":scheme"; ":authority"; ":path"; ":protocol"]%string.
Definition response_pseudo : list string := [":status"]%string.
Definition defined_pseudo : list string := request_pseudo ++ response_pseudo.

(* "Endpoints MUST NOT generate pseudo-header fields other than those defined in this document";
   such a block is malformed *)
Definition unknown_pseudo (f : field) : bool :=
  is_pseudo f && negb (existsb (fun s => named s f) defined_pseudo).

(* "All pseudo-header fields MUST appear in a field block before all regular field lines" *)
Fixpoint pseudo_after_regular (fs : list field) : bool :=
  match fs with
  | [] => false
  | f :: r => if is_pseudo f then pseudo_after_regular r else existsb is_pseudo r
  end.

(* "The same pseudo-header field name MUST NOT appear more than once in a field block" *)
Definition occurrences (s : string) (fs : list field) : nat := length (filter (named s) fs).
Definition duplicated_pseudo (fs : list field) : bool :=
  existsb (fun s => Nat.ltb 1 (occurrences s fs)) defined_pseudo.

(* ---------- 8.2.1: field validity ---------- *)

(* "A field name MUST NOT contain characters in the ranges 0x00-0x20, 0x41-0x5a, or 0x7f-0xff";
   "field names MUST NOT include a colon" (other than the leading one of a pseudo-header field) *)
Definition bad_name_octet (b : N) : bool :=
  (b <=? 32) || ((65 <=? b) && (b <=? 90)) || (127 <=? b) || (b =? 58).
Definition bad_regular_name (n : list N) : bool :=
  match n with [] => true | _ :: _ => existsb bad_name_octet n end.

(* "A field value MUST NOT contain the zero value, line feed or carriage return at any position" *)
Definition bad_value_octet (b : N) : bool := (b =? 0) || (b =? 10) || (b =? 13).

Definition bad_field (f : field) : bool :=
  if is_pseudo f then unknown_pseudo f
  else bad_regular_name (fst f) || existsb bad_value_octet (snd f).

(* ---------- 8.2.2: connection-specific fields ---------- *)

Definition connection_specific_names : list string :=
  ["connection"; "keep-alive"; "proxy-connection"; "transfer-encoding"; "upgrade"]%string.
Definition connection_specific (f : field) : bool :=
  existsb (fun s => named s f) connection_specific_names.

(* "The only exception to this is the TE header field, which MAY be present in an HTTP/2 request;
   when it is, it MUST NOT contain any value other than "trailers"" *)
Definition bad_te (f : field) : bool := named "te" f && negb (list_N_eqb (snd f) (octets "trailers")).

(* what every block, of every kind, must satisfy *)
Definition bad_fields (fs : list field) : bool :=
  existsb bad_field fs || existsb connection_specific fs || existsb bad_te fs ||
  pseudo_after_regular fs || duplicated_pseudo fs.

(* ---------- RFC 9110 8.6 / RFC 9113 8.1.1: content-length ---------- *)

Definition is_digit (b : N) : bool := (48 <=? b) && (b <=? 57).

(* Content-Length = 1*DIGIT, any number of digits *)
Definition decimal (v : list N) : option N :=
  match v with
  | [] => None
  | _ :: _ => if forallb is_digit v then Some (fold_left (fun a d => a * 10 + (d - 48)) v 0) else None
  end.

Fixpoint all_equal (l : list (option N)) : bool :=
  match l with
  | a :: ((b :: _) as r) =>
      match a, b with Some x, Some y => (x =? y) && all_equal r | _, _ => false end
  | _ => true
  end.

(* a content-length field that is not a decimal number, or several fields that disagree: the
   message cannot agree with its content-length *)
Definition bad_content_length (fs : list field) : bool :=
  let vs := map decimal (values_of "content-length" fs) in
  existsb (fun v => match v with None => true | Some _ => false end) vs || negb (all_equal vs).

(* the declared length, when there is a valid declaration *)
Definition declared_length (fs : list field) : option N :=
  match values_of "content-length" fs with
  | [] => None
  | v :: _ => decimal v
  end.

(* ---------- 8.3.1 request, 8.5 CONNECT, RFC 8441 ---------- *)

Definition bad_request (fs : list field) : bool :=
  has ":status" fs ||                                   (* response pseudo-header in a request *)
  negb (has ":method" fs) ||
  (if value_is "CONNECT" (value_of ":method" fs) && negb (has ":protocol" fs) then
     (* 8.5: ":scheme" and ":path" MUST be omitted, ":authority" contains host and port *)
     has ":scheme" fs || has ":path" fs || negb (has ":authority" fs)
   else
     (* 8.3.1: exactly one ":method", ":scheme", ":path"; ":path" MUST NOT be empty *)
     negb (has ":scheme" fs) || negb (has ":path" fs) ||
     value_is "" (value_of ":path" fs) ||
     (* RFC 8441: ":protocol" only on CONNECT *)
     (has ":protocol" fs && negb (value_is "CONNECT" (value_of ":method" fs)))).

(* 8.4: promised requests are safe, cacheable and have no content *)
Definition bad_pushed_request (fs : list field) : bool :=
  bad_request fs ||
  negb (value_is "GET" (value_of ":method" fs) || value_is "HEAD" (value_of ":method" fs)) ||
  match declared_length fs with Some n => negb (n =? 0) | None => false end.

(* ---------- 8.3.2 response, 8.1 interim responses ---------- *)

Definition status_1xx (fs : list field) : bool :=
  match value_of ":status" fs with
  | Some [a; b; c] => (a =? 49) && is_digit b && is_digit c
  | _ => false
  end.

Definition bad_response (fs : list field) : bool :=
  existsb (fun s => has s fs) request_pseudo ||         (* request pseudo-header in a response *)
  negb (has ":status" fs).

(* ---------- the predicate ---------- *)

Definition kind_received_by (r : role) (k : kind) : bool :=
  match r, k with
  | Server, Request | Server, Trailers => true
  | Client, Response | Client, Informational | Client, PushedRequest | Client, Trailers => true
  | _, _ => false
  end.

(* the header section of a message handed over as kind [k] violates section 8 *)
Definition malformed (r : role) (k : kind) (fs : list field) : bool :=
  negb (kind_received_by r k) || bad_fields fs ||
  match k with
  | Request => bad_request fs
  | PushedRequest => bad_pushed_request fs
  | Response => bad_response fs || status_1xx fs
  | Informational => bad_response fs || negb (status_1xx fs)
  | Trailers => existsb is_pseudo fs              (* 8.1: "Trailers MUST NOT include pseudo-header fields" *)
  end.

(* ---------- 8.1.1: content-length against the DATA frames ---------- *)

(* what the head says about content *)
Inductive head_kind :=
| HasContent         (* request; response to anything but HEAD with a status other than 204/304 *)
| NoContent.         (* response to HEAD, 204, 304 *)

(* the messages whose content-length is accounted against DATA: a content-length that is not a
   number, or two that differ, can agree with no body *)
Definition accounted (k : kind) (hk : head_kind) : bool :=
  match k, hk with
  | Request, _ => true
  | Response, HasContent => true
  | _, _ => false
  end.

(* the whole block, with its END_STREAM flag.
   8.1: an interim response never ends the stream ("a HEADERS frame with the END_STREAM flag set
   that carries an informational status code is malformed"); the HEADERS frame of a trailer section
   carries END_STREAM *)
Definition malformed_block (r : role) (k : kind) (hk : head_kind) (end_stream : bool) (fs : list field) : bool :=
  malformed r k fs ||
  (accounted k hk && bad_content_length fs) ||
  match k with
  | Informational => end_stream
  | Trailers => negb end_stream
  | _ => false
  end.

Definition sumN (l : list N) : N := fold_right N.add 0 l.

(* "A request or response is also malformed if the value of a content-length header field does not
   equal the sum of the DATA frame payload lengths that form the content, unless the message is
   defined as having no content" *)
Definition body_ok (cl : option N) (hk : head_kind) (data : list N) : bool :=
  match hk, cl with
  | HasContent, Some n => sumN data =? n
  | _, _ => true
  end.
