(* RFC 9113 section 6.9 flow-control accountant for the *sending* side, defined on wire-level
   events only (what an observer of the connection sees), independent of any implementation state:

     credit(connection) = 65535 + sum of WINDOW_UPDATE(0, n) received
     credit(stream)     = SETTINGS_INITIAL_WINDOW_SIZE in force (acknowledged) when the stream was
                          opened + every later acknowledged change of that setting (6.9.2; may make
                          the window negative) + sum of WINDOW_UPDATE(stream, n) received
     a DATA frame with a non-empty payload is legal only if the payload fits in what is left of
     both credits; empty DATA frames are always legal (6.9: "frames with zero length ... can be
     sent if there is no available space").

   [acct_run] = Some _  iff no event violated the rule. *)
From H2V Require Import Base.Tac.
Local Open Scope Z_scope.

Inductive wev :=
| WOpen (key : N)                 (* a stream record starts (its first frame is about to be sent / was received) *)
| WGrant (key : N) (inc : Z)      (* WINDOW_UPDATE(stream, inc) received *)
| WGrantConn (inc : Z)            (* WINDOW_UPDATE(0, inc) received *)
| WInit (new : Z)                 (* peer SETTINGS_INITIAL_WINDOW_SIZE = new acknowledged *)
| WData (key : N) (len : Z).      (* DATA frame with len payload bytes handed to the transport *)

Record acct := mkA {
  a_credit : Z;                       (* connection credit granted so far *)
  a_sent : Z;                         (* connection bytes sent so far *)
  a_init : Z;                         (* acknowledged SETTINGS_INITIAL_WINDOW_SIZE *)
  a_streams : list (N * (Z * Z))      (* key -> (credit, sent); the first entry for a key is the live one *)
}.

Definition acct0 (init : Z) : acct := mkA 65535 0 init [].

Fixpoint a_find (key : N) (l : list (N * (Z * Z))) : option (Z * Z) :=
  match l with
  | [] => None
  | (k, v) :: l' => if N.eqb k key then Some v else a_find key l'
  end.

Fixpoint a_upd (key : N) (v : Z * Z) (l : list (N * (Z * Z))) : list (N * (Z * Z)) :=
  match l with
  | [] => []
  | (k, x) :: l' => if N.eqb k key then (k, v) :: l' else (k, x) :: a_upd key v l'
  end.

Definition acct_step (a : acct) (e : wev) : option acct :=
  match e with
  | WOpen key => Some (mkA (a_credit a) (a_sent a) (a_init a) ((key, (a_init a, 0)) :: a_streams a))
  | WGrant key inc =>
    match a_find key (a_streams a) with
    | None => Some a
    | Some (c, s) => Some (mkA (a_credit a) (a_sent a) (a_init a) (a_upd key (c + inc, s) (a_streams a)))
    end
  | WGrantConn inc => Some (mkA (a_credit a + inc) (a_sent a) (a_init a) (a_streams a))
  | WInit new =>
    let delta := new - a_init a in
    Some (mkA (a_credit a) (a_sent a) new (map (fun kv => (fst kv, (fst (snd kv) + delta, snd (snd kv)))) (a_streams a)))
  | WData key len =>
    if len =? 0 then Some a
    else match a_find key (a_streams a) with
         | None => None                                  (* DATA on a stream that was never opened *)
         | Some (c, s) =>
           if (s + len <=? c) && (a_sent a + len <=? a_credit a)
           then Some (mkA (a_credit a) (a_sent a + len) (a_init a) (a_upd key (c, s + len) (a_streams a)))
           else None
         end
  end.

Fixpoint acct_run (a : acct) (es : list wev) : option acct :=
  match es with
  | [] => Some a
  | e :: es' => match acct_step a e with Some a' => acct_run a' es' | None => None end
  end.
