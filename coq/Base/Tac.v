(* Common imports and tactic hooks for the whole development. *)
From Coq Require Export List Bool Arith NArith ZArith Lia.
From Coq Require Export ZifyBool ZifyNat ZifyN.
Export ListNotations.
Ltac Zify.zify_post_hook ::= Z.div_mod_to_equations.
Global Arguments N.add : simpl never.
Global Arguments N.sub : simpl never.
Global Arguments N.mul : simpl never.
Global Arguments N.div : simpl never.
Global Arguments N.modulo : simpl never.
Global Arguments N.eqb : simpl never.
Global Arguments N.ltb : simpl never.
Global Arguments N.leb : simpl never.
Global Arguments N.pow : simpl never.
Global Arguments Z.add : simpl never.
Global Arguments Z.sub : simpl never.
Global Arguments Z.mul : simpl never.
Global Arguments Z.eqb : simpl never.
Global Arguments Z.ltb : simpl never.
Global Arguments Z.leb : simpl never.
