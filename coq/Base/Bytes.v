(* Bytes are natural numbers N below 256; byte strings are lists.  Big-endian
   integers are built with multiplication and split with div/mod (no shifts). *)
From H2V Require Import Base.Tac.
Local Open Scope N_scope.

Definition byte_ok (b : N) : bool := b <? 256.
Definition bytes_ok (l : list N) : bool := forallb byte_ok l.

(* big-endian value of a byte string *)
Fixpoint be_value_acc (acc : N) (l : list N) : N :=
  match l with
  | [] => acc
  | b :: l' => be_value_acc (acc * 256 + b) l'
  end.
Definition be_value (l : list N) : N := be_value_acc 0 l.

(* big-endian rendering of [v] on [n] bytes (v taken modulo 256^n) *)
Fixpoint be_bytes (n : nat) (v : N) : list N :=
  match n with
  | O => []
  | S n' => (v / 256 ^ (N.of_nat n')) mod 256 :: be_bytes n' v
  end.

Definition u8  (v : N) : list N := be_bytes 1 v.
Definition u16 (v : N) : list N := be_bytes 2 v.
Definition u24 (v : N) : list N := be_bytes 3 v.
Definition u32 (v : N) : list N := be_bytes 4 v.

(* lists of N, equality test *)
Fixpoint list_N_eqb (a b : list N) : bool :=
  match a, b with
  | [], [] => true
  | x :: a', y :: b' => (x =? y) && list_N_eqb a' b'
  | _, _ => false
  end.

Lemma list_N_eqb_eq a b : list_N_eqb a b = true <-> a = b.
Proof.
  revert b; induction a as [|x a IH]; intros [|y b]; cbn [list_N_eqb].
  - split; auto.
  - split; congruence.
  - split; congruence.
  - rewrite andb_true_iff, N.eqb_eq, IH. split.
    + intros [-> ->]; auto.
    + intros H; inversion H; auto.
Qed.

(* index of failing cases, used by every correspondence file: the harness writes a list of
   cases, [failing f cases] evaluates to the indices whose check is false. *)
Fixpoint failing_from {A} (f : A -> bool) (i : N) (l : list A) : list N :=
  match l with
  | [] => []
  | x :: l' => if f x then failing_from f (i + 1) l' else i :: failing_from f (i + 1) l'
  end.
Definition failing {A} (f : A -> bool) (l : list A) : list N := failing_from f 0 l.
