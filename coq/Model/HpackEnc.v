(* Executable model of h2's HPACK encoder: /repo/src/hpack/encoder.rs (Encoder::{new,
   update_max_size, encode, encode_size_updates, encode_header, encode_header_without_name},
   SizeUpdate, encode_size_update, encode_not_indexed, encode_not_indexed2, encode_str,
   encode_int, encode_int_one_byte), /repo/src/hpack/table.rs (Table::{new, index, index_dynamic,
   index_occupied, index_vacant, insert, resize, update_size, converge, evict, resolve,
   resolve_idx}, Index, index_static) and /repo/src/hpack/header.rs (Header::{len, name,
   value_slice, value_eq, is_sensitive, skip_value_index}).
   Definitions only; proofs are in Proofs/HpackEncProofs.v.

   What is modelled exactly (branch by branch)
   * the decisions of Table::index: static table first, `skip_value_index` names, "don't index
     large headers" (len * 4 > max_size * 3), full match / name match in the dynamic table,
     sensitive headers, insertion with eviction, the index that is returned in each case;
   * SizeUpdate::{One, Two} bookkeeping of update_max_size and what encode_size_updates emits;
   * the octets written by encode_header / encode_header_without_name / encode_str / encode_int.
     encode_str ALWAYS Huffman-codes a non-empty string (there is no comparison with the raw
     length in the code) and writes a single 0 octet for the empty string.

   What is abstracted
   * the Robin-Hood hash index of table.rs (`indices`, `mask`, `inserted`, the wrapping `Pos`
     arithmetic, `next` chains, reserve_one/grow, remove_phase_two).  It implements the map
     "name -> entries with that name, oldest first"; the model keeps the dynamic table as the
     list of its entries, newest first (= `slots`, front to back), and SEARCHES that list:
        full match   : the OLDEST entry with that name and value (index_occupied walks the chain
                       from the entry `indices` points to, the oldest, along `next`);
        name match   : the NEWEST entry with that name (the end of the chain, where the walk
                       stops when no value matched).
     That the hash index finds exactly these is not proved; it is what the byte-exact
     correspondence run (lib/props/parts/hpackenc.py) validates on every check.
   * `Encoder::new(max_size, capacity)`: `capacity` only sizes the hash index; ignored.
   * `Header` is (name, value, sensitive).  The six pseudo variants are recognised by name;
     `len`, `value_eq`, `name` of header.rs are what they are for octet strings:
     len = 32 + |name| + |value| for every variant (":authority" is 10 octets, ":method" 7 ...,
     a status code renders as 3 digits), value_eq = equality of the value octets (Method,
     StatusCode and BytesStr compare equal iff their octets do).  `is_sensitive` is false for the
     pseudo variants whatever the flag.
   * usize is unbounded N.  Not modelled: wrap-around above 2^64 and the panic of encode_str when
     the Huffman length needs more than 8 octets (PLACEHOLDER_LEN; length >= 2^49): the theorems
     carry a guard on string lengths far below.

   Outcomes the Rust code does not have as values are distinct results ([EFail]):
     EvictEmpty      `evict` on an empty table (`self.slots.len() - 1` underflows / unwrap on None)
     SizeUnderflow   `self.size -= slot.header.len()` would wrap
     AssertSensitive `assert!(!header.is_sensitive())` in encode_header
     NoPreviousName  the panic! of `encode` for a leading `Field { name: None, .. }`
     OutOfFuel       the model's fuel of `converge` ran out (fuel = entries + 1; never happens)
   Proofs/HpackEncProofs.v shows that only NoPreviousName is reachable. *)
From Coq Require Import String Uint63.
From H2V Require Import Base.Tac Base.Bytes Gen.StaticTable Model.HttpTokens Model.Huffman.
From H2V Require Import Ref.Rfc7541Block.       (* used by the oracle at the end of the file only *)
Local Open Scope N_scope.

Notation hfield := (list N * list N)%type (only parsing).       (* (name, value) *)
Definition lenb (l : list N) : N := N.of_nat (List.length l).

Inductive fail := EvictEmpty | SizeUnderflow | AssertSensitive | NoPreviousName | OutOfFuel.

Inductive eres (A : Type) :=
| EOk (a : A)
| EFail (f : fail).
Arguments EOk {A} a.
Arguments EFail {A} f.

(* ---------------------------------------------------------------------------------------- *)
(* header.rs *)

Definition n_authority : list N := bstr ":authority".
Definition n_method : list N := bstr ":method".
Definition n_scheme : list N := bstr ":scheme".
Definition n_path : list N := bstr ":path".
Definition n_protocol : list N := bstr ":protocol".
Definition n_status : list N := bstr ":status".

(* the variants of `Header` other than `Field` *)
Definition pseudo_names : list (list N) :=
  [n_authority; n_method; n_scheme; n_path; n_protocol; n_status].

(* Header::skip_value_index, the `Field` arm (hand transcription; tied by the correspondence
   run, which submits every one of these names and their neighbours) *)
Definition skip_value_names : list (list N) :=
  [bstr "age"; bstr "authorization"; bstr "content-length"; bstr "etag";
   bstr "if-modified-since"; bstr "if-none-match"; bstr "location"; bstr "cookie";
   bstr "set-cookie"].

Definition mem_name (n : list N) (l : list (list N)) : bool := existsb (list_N_eqb n) l.

(* a reified header; [h_sens] is `value.is_sensitive()` of the HeaderValue *)
Record hdr := mkHdr { h_name : list N; h_value : list N; h_sens : bool }.

Definition hdr_field (h : hdr) : hfield := (h_name h, h_value h).

(* Header::len *)
Definition fsize (f : hfield) : N := 32 + lenb (fst f) + lenb (snd f).
Definition hdr_len (h : hdr) : N := fsize (hdr_field h).

(* Header::is_sensitive: `Field { value, .. } => value.is_sensitive(), _ => false` *)
Definition hdr_is_sensitive (h : hdr) : bool :=
  if mem_name (h_name h) pseudo_names then false else h_sens h.

(* Header::skip_value_index: the listed `Field` names and `Path(..)` *)
Definition hdr_skip_value_index (h : hdr) : bool :=
  list_N_eqb (h_name h) n_path || mem_name (h_name h) skip_value_names.

(* ---------------------------------------------------------------------------------------- *)
(* table.rs *)

Definition DYN_OFFSET : N := dyn_offset.        (* Gen/StaticTable.v: `const DYN_OFFSET` *)

(* index_static: first arm of the `match` (rendered into Gen.static_index in source order) whose
   name is the header's and whose exact value, if it has one, is the header's value *)
Fixpoint index_static_in (tbl : list (list N * option (list N) * N * bool)) (n v : list N)
  : option (N * bool) :=
  match tbl with
  | [] => None
  | (n', exact, idx, flag) :: tbl' =>
    if list_N_eqb n n' &&
       match exact with Some v' => list_N_eqb v v' | None => true end
    then Some (idx, flag)
    else index_static_in tbl' n v
  end.

Definition index_static (h : hdr) : option (N * bool) :=
  index_static_in static_index (h_name h) (h_value h).

(* `enum Index`; the header that Indexed/Name/NotIndexed carry travels separately.
   [Inserted slot], [InsertedValue idx slot]: `slot` is the position in `slots` (always 0). *)
Inductive index :=
| Indexed (idx : N)
| Name (idx : N)
| Inserted (slot : N)
| InsertedValue (idx slot : N)
| NotIndexed.

(* Index::new *)
Definition index_new (statik : option (N * bool)) : index :=
  match statik with
  | None => NotIndexed
  | Some (n, true) => Indexed n
  | Some (n, false) => Name n
  end.

Record enc_table := mkTable {
  et_entries : list hfield;   (* `slots`, front (newest) to back (oldest) *)
  et_size : N;                (* `size` *)
  et_max : N                  (* `max_size` *)
}.

(* Table::new *)
Definition table_new (max_size : N) : enc_table := mkTable [] 0 max_size.

(* `slots.pop_back()` *)
Fixpoint pop_back {A} (l : list A) : option (list A * A) :=
  match l with
  | [] => None
  | x :: l' =>
    match pop_back l' with
    | None => Some ([], x)
    | Some (init, last) => Some (x :: init, last)
    end
  end.

(* Table::converge / evict:  while self.size > self.max_size { pop_back; size -= len } *)
Fixpoint converge (fuel : nat) (es : list hfield) (size max : N) : eres (list hfield * N) :=
  if size <=? max then EOk (es, size)
  else
    match fuel with
    | O => EFail OutOfFuel
    | S fuel' =>
      match pop_back es with
      | None => EFail EvictEmpty
      | Some (es', last) =>
        if size <? fsize last then EFail SizeUnderflow
        else converge fuel' es' (size - fsize last) max
      end
    end.

Definition converge_fuel (es : list hfield) : nat := S (List.length es).

(* Table::resize *)
Definition table_resize (t : enc_table) (size : N) : eres enc_table :=
  if size =? 0 then EOk (mkTable [] 0 0)
  else
    match converge (converge_fuel (et_entries t)) (et_entries t) (et_size t) size with
    | EOk (es, sz) => EOk (mkTable es sz size)
    | EFail f => EFail f
    end.

(* update_size (size += len; converge) followed by insert (push_front) *)
Definition table_insert (t : enc_table) (f : hfield) : eres enc_table :=
  match converge (converge_fuel (et_entries t)) (et_entries t) (et_size t + fsize f) (et_max t) with
  | EOk (es, sz) => EOk (mkTable (f :: es) sz (et_max t))
  | EFail e => EFail e
  end.

(* position (0 = front) of the first / the last entry satisfying p *)
Fixpoint find_first_pos (p : hfield -> bool) (es : list hfield) (i : N) : option N :=
  match es with
  | [] => None
  | e :: es' => if p e then Some i else find_first_pos p es' (i + 1)
  end.

Fixpoint find_last_pos (p : hfield -> bool) (es : list hfield) (i : N) : option N :=
  match es with
  | [] => None
  | e :: es' =>
    match find_last_pos p es' (i + 1) with
    | Some j => Some j
    | None => if p e then Some i else None
    end
  end.

Definition name_is (n : list N) (e : hfield) : bool := list_N_eqb (fst e) n.
Definition field_is (n v : list N) (e : hfield) : bool :=
  list_N_eqb (fst e) n && list_N_eqb (snd e) v.

Definition statik_name (statik : option (N * bool)) : option N :=
  match statik with Some (n, _) => Some n | None => None end.

(* Table::index_dynamic with index_occupied / index_vacant (hash index abstracted, see above) *)
Definition index_dynamic (t : enc_table) (h : hdr) (statik : option (N * bool))
  : eres (enc_table * index) :=
  let es := et_entries t in
  match find_first_pos (name_is (h_name h)) es 0 with
  | Some newest =>
    (* index_occupied: there is an entry with this name *)
    match find_last_pos (field_is (h_name h) (h_value h)) es 0 with
    | Some real_idx => EOk (t, Indexed (real_idx + DYN_OFFSET))
    | None =>
      if hdr_is_sensitive h then EOk (t, Name (newest + DYN_OFFSET))
      else
        match table_insert t (hdr_field h) with
        | EFail e => EFail e
        | EOk t' =>
          EOk (t', match statik_name statik with
                   | Some n => InsertedValue n 0
                   | None => InsertedValue (newest + DYN_OFFSET) 0
                   end)
        end
    end
  | None =>
    (* index_vacant *)
    if hdr_is_sensitive h then EOk (t, index_new statik)
    else
      match table_insert t (hdr_field h) with
      | EFail e => EFail e
      | EOk t' =>
        EOk (t', match statik_name statik with
                 | Some n => InsertedValue n 0
                 | None => Inserted 0
                 end)
      end
  end.

(* Table::index *)
Definition table_index (t : enc_table) (h : hdr) : eres (enc_table * index) :=
  let statik := index_static h in
  if hdr_skip_value_index h then EOk (t, index_new statik)
  else
    match statik with
    | Some (n, true) => EOk (t, Indexed n)
    | _ =>
      if et_max t * 3 <? hdr_len h * 4 then EOk (t, index_new statik)
      else index_dynamic t h statik
    end.

(* Table::resolve_idx; None = `panic!("cannot resolve index")` (never called on NotIndexed) *)
Definition resolve_idx (i : index) : option N :=
  match i with
  | Indexed idx => Some idx
  | Name idx => Some idx
  | Inserted slot => Some (slot + DYN_OFFSET)
  | InsertedValue _ slot => Some (slot + DYN_OFFSET)
  | NotIndexed => None
  end.

(* ---------------------------------------------------------------------------------------- *)
(* encoder.rs: octets *)

(*  while value >= 128 { dst.put_u8(0b1000_0000 | value as u8); value >>= 7; }
    dst.put_u8(value as u8);
    fuel: one more than the number of bits of the value; running out is not reached
    (Proofs: enc_int_cont_fuel) *)
Fixpoint enc_int_cont (fuel : nat) (v : N) : list N :=
  match fuel with
  | O => []
  | S fuel' =>
    if 128 <=? v then N.lor 128 (v mod 256) :: enc_int_cont fuel' (v / 128)
    else [v]
  end.

(* encode_int_one_byte *)
Definition encode_int_one_byte (value prefix_bits : N) : bool := value <? 2 ^ prefix_bits - 1.

(* encode_int(value, prefix_bits, first_byte, dst) *)
Definition enc_int (value prefix_bits first_byte : N) : list N :=
  if encode_int_one_byte value prefix_bits then [N.lor first_byte value]
  else
    let low := 2 ^ prefix_bits - 1 in
    let value' := value - low in
    N.lor first_byte low :: enc_int_cont (S (N.to_nat (N.log2 value'))) value'.

(* encode_str: placeholder octet, huffman::encode, then the head is written over / shifted in *)
Definition enc_str (val : list N) : list N :=
  match val with
  | [] => [0]
  | _ :: _ =>
    let huff := huff_encode val in
    let huff_len := lenb huff in
    if encode_int_one_byte huff_len 7 then N.lor 128 huff_len :: huff
    else enc_int huff_len 7 128 ++ huff
  end.

(* encode_size_update *)
Definition enc_size_update (val : N) : list N := enc_int val 5 32.

(* encode_not_indexed *)
Definition encode_not_indexed (name : N) (value : list N) (sensitive : bool) : list N :=
  (if sensitive then enc_int name 4 16 else enc_int name 4 0) ++ enc_str value.

(* encode_not_indexed2 *)
Definition encode_not_indexed2 (name value : list N) (sensitive : bool) : list N :=
  (if sensitive then [16] else [0]) ++ enc_str name ++ enc_str value.

(* Encoder::encode_header; `self.table.resolve(index)` is the header just indexed *)
Definition encode_header (i : index) (h : hdr) : eres (list N) :=
  match i with
  | Indexed idx => EOk (enc_int idx 7 128)
  | Name idx => EOk (encode_not_indexed idx (h_value h) (hdr_is_sensitive h))
  | Inserted _ =>
    if hdr_is_sensitive h then EFail AssertSensitive
    else EOk (64 :: enc_str (h_name h) ++ enc_str (h_value h))
  | InsertedValue idx _ =>
    if hdr_is_sensitive h then EFail AssertSensitive
    else EOk (enc_int idx 6 64 ++ enc_str (h_value h))
  | NotIndexed => EOk (encode_not_indexed2 (h_name h) (h_value h) (hdr_is_sensitive h))
  end.

(* Encoder::encode_header_without_name; [last] is the index of the previous named header,
   [lh] that header (Table::resolve(last) in the NotIndexed arm) *)
Definition encode_header_without_name (last : index) (lh : hdr) (value : list N)
  (sensitive : bool) : list N :=
  match resolve_idx last with
  | Some idx => encode_not_indexed idx value sensitive
  | None => encode_not_indexed2 (h_name lh) value sensitive
  end.

(* ---------------------------------------------------------------------------------------- *)
(* encoder.rs: the Encoder *)

Inductive size_update :=
| One (val : N)
| Two (min max : N).

Record enc_state := mkEnc {
  e_table : enc_table;
  e_max_allowed : N;                       (* max_allowed_size *)
  e_size_update : option size_update
}.

Definition DEFAULT_MAX_ALLOWED_SIZE : N := 4096.

(* Encoder::new(max_size, capacity) *)
Definition enc_new (max_size : N) : enc_state :=
  mkEnc (table_new (N.min max_size DEFAULT_MAX_ALLOWED_SIZE)) DEFAULT_MAX_ALLOWED_SIZE None.

(* Encoder::update_max_size *)
Definition enc_update_max_size (st : enc_state) (val0 : N) : enc_state :=
  let val := N.min val0 (e_max_allowed st) in
  let set su := mkEnc (e_table st) (e_max_allowed st) su in
  match e_size_update st with
  | Some (One old) =>
    if old <? val then
      if et_max (e_table st) <? old then set (Some (One val))
      else set (Some (Two old val))
    else set (Some (One val))
  | Some (Two mn _) =>
    if val <? mn then set (Some (One val))
    else set (Some (Two mn val))
  | None =>
    if negb (val =? et_max (e_table st)) then set (Some (One val))
    else st
  end.

(* an item of the iterator given to `encode`: name = None is `Field { name: None, .. }`
   (a further value of the previous name, as the HeaderMap iterator yields them) *)
Record field_in := FI { fi_name : option (list N); fi_value : list N; fi_sens : bool }.

(* Encoder::encode_size_updates *)
Definition encode_size_updates (st : enc_state) : eres (enc_state * list N) :=
  match e_size_update st with
  | Some (One val) =>
    match table_resize (e_table st) val with
    | EFail e => EFail e
    | EOk t => EOk (mkEnc t (e_max_allowed st) None, enc_size_update val)
    end
  | Some (Two mn mx) =>
    match table_resize (e_table st) mn with
    | EFail e => EFail e
    | EOk t1 =>
      match table_resize t1 mx with
      | EFail e => EFail e
      | EOk t2 => EOk (mkEnc t2 (e_max_allowed st) None, enc_size_update mn ++ enc_size_update mx)
      end
    end
  | None => EOk (st, [])
  end.

(* the `for header in headers` loop of `encode`; [last] = `last_index` with its header *)
Fixpoint encode_loop (t : enc_table) (last : option (index * hdr)) (fl : list field_in)
  : eres (enc_table * list N) :=
  match fl with
  | [] => EOk (t, [])
  | f :: fl' =>
    match fi_name f with
    | Some n =>
      let h := mkHdr n (fi_value f) (fi_sens f) in
      match table_index t h with
      | EFail e => EFail e
      | EOk (t1, idx) =>
        match encode_header idx h with
        | EFail e => EFail e
        | EOk octets =>
          match encode_loop t1 (Some (idx, h)) fl' with
          | EFail e => EFail e
          | EOk (t2, rest) => EOk (t2, octets ++ rest)
          end
        end
      end
    | None =>
      match last with
      | None => EFail NoPreviousName
      | Some (idx, lh) =>
        let octets := encode_header_without_name idx lh (fi_value f) (fi_sens f) in
        match encode_loop t last fl' with
        | EFail e => EFail e
        | EOk (t2, rest) => EOk (t2, octets ++ rest)
        end
      end
    end
  end.

(* Encoder::encode: the new state and the octets appended to dst *)
Definition enc_encode (st : enc_state) (fl : list field_in) : eres (enc_state * list N) :=
  match encode_size_updates st with
  | EFail e => EFail e
  | EOk (st1, upd) =>
    match encode_loop (e_table st1) None fl with
    | EFail e => EFail e
    | EOk (t2, octets) => EOk (mkEnc t2 (e_max_allowed st1) None, upd ++ octets)
    end
  end.

(* ---------------------------------------------------------------------------------------- *)
(* correspondence check *)

Definition hfield_eqb (a b : hfield) : bool :=
  list_N_eqb (fst a) (fst b) && list_N_eqb (snd a) (snd b).

Fixpoint hfields_eqb (a b : list hfield) : bool :=
  match a, b with
  | [], [] => true
  | x :: a', y :: b' => hfield_eqb x y && hfields_eqb a' b'
  | _, _ => false
  end.

(* what the implementation did with one block:
     OOut octets size max_size entries : `encode` returned; octets appended to dst and the
                                         table afterwards (Encoder::verif_table; entries only
                                         where the harness printed them)
     OPanicNoName                      : `encode` panicked with the "no previous index" message
     OPanicOther                       : any other panic *)
Inductive block_obs :=
| OOut (out : list N) (size max : N) (entries : option (list hfield))
| OPanicNoName
| OPanicOther.

(* update_max_size values applied before the block (in order), header list, observation *)
Definition block_rec : Type := (list N * list field_in * block_obs)%type.

Definition table_obs_eqb (t : enc_table) (size max : N) (entries : option (list hfield)) : bool :=
  (et_size t =? size) && (et_max t =? max) &&
  match entries with Some es => hfields_eqb (et_entries t) es | None => true end.

Fixpoint run_history (st : enc_state) (blocks : list block_rec) : bool :=
  match blocks with
  | [] => true
  | (ups, fl, obs) :: more =>
    let st1 := fold_left enc_update_max_size ups st in
    match enc_encode st1 fl, obs with
    | EOk (st2, octets), OOut out size max entries =>
      list_N_eqb octets out && table_obs_eqb (e_table st2) size max entries &&
      run_history st2 more
    | EFail NoPreviousName, OPanicNoName => true       (* the history ends with the panic *)
    | _, _ => false
    end
  end.

(* case = (max_size given to Encoder::new, capacity given to Encoder::new (ignored), history) *)
Definition check_hpack_enc (c : N * N * list block_rec) : bool :=
  let '(max_size, _, blocks) := c in
  run_history (enc_new max_size) blocks.

(* ---------------------------------------------------------------------------------------- *)
(* the submitted header list: names of nameless items resolved *)

Fixpoint submitted_from (prev : list N) (fl : list field_in) : list hfield :=
  match fl with
  | [] => []
  | f :: fl' =>
    let n := match fi_name f with Some n => n | None => prev end in
    (n, fi_value f) :: submitted_from n fl'
  end.

Definition submitted (fl : list field_in) : list hfield := submitted_from [] fl.

(* ---------------------------------------------------------------------------------------- *)
(* oracle on recorded behaviour (independent of the encoder model above): the RFC 7541 reference
   decoder of Ref/Rfc7541Block.v, with h2's Huffman decoder model as `hd` and at most 4
   continuation octets per integer (h2's own limit), is run over the octets the implementation
   emitted.  The peer's limit (SETTINGS_HEADER_TABLE_SIZE) before a block is the last value given
   to update_max_size.  Result code per history:
     0  nothing to object
     1  the reference decoder rejects an emitted block
     2  it decodes to a different header list than the one submitted
     3  the limit went below the table's maximum and the block does not start with a size update
     4  the table (the encoder's own account of it, or the decoder's copy) is larger than the limit
     5  encoder and reference decoder disagree about the table size or maximum afterwards *)

(* limits before the block, submitted (name, value) list, emitted octets, encoder table size/max *)
Definition oracle_enc_block : Type := (list N * list hfield * list N * N * N)%type.

Fixpoint oracle_enc_history (rs : rstate) (blocks : list oracle_enc_block) : N :=
  match blocks with
  | [] => 0
  | (ups, want, out, tsize, tmax) :: more =>
    let rs1 := last_limit rs ups in
    match ref_decode_block huff_decode_opt 4 rs1 out with
    | None => 1
    | Some (fs, rs2) =>
      if negb (fields_eq fs want) then 2
      else if negb (ref_reduction_signalled 4 rs1 out) then 3
      else if negb ((tsize <=? r_limit rs1) && (table_size (r_dyn rs2) <=? r_limit rs1)) then 4
      else if negb ((table_size (r_dyn rs2) =? tsize) && (r_max rs2 =? tmax)) then 5
      else oracle_enc_history rs2 more
    end
  end.

(* case = (initial maximum of both sides = min(max_size given to Encoder::new, 4096), history) *)
Definition oracle_hpack_enc (c : N * list oracle_enc_block) : N :=
  oracle_enc_history (rstate_init (fst c)) (snd c).

(* the same, read off a correspondence case: the history up to the first block on which
   `encode` panicked (nothing was handed to the peer for that block) *)
Fixpoint oracle_blocks_of (blocks : list block_rec) : list oracle_enc_block :=
  match blocks with
  | (ups, fl, OOut out size max _) :: more =>
    (ups, submitted fl, out, size, max) :: oracle_blocks_of more
  | _ => []
  end.

Definition oracle_of_case (c : N * N * list block_rec) : N :=
  let '(max_size, _, blocks) := c in
  oracle_hpack_enc (N.min max_size DEFAULT_MAX_ALLOWED_SIZE, oracle_blocks_of blocks).

(* both at once (one pass over the recorded cases):
   0 fine, 1 model and implementation differ, 2 the oracle objects, 3 both *)
Definition check_and_oracle (c : N * N * list block_rec) : N :=
  (if check_hpack_enc c then 0 else 1) + (if oracle_of_case c =? 0 then 0 else 2).

(* ---------------------------------------------------------------------------------------- *)
(* compact transport of recorded cases.  coqc reads a list literal of octets at only ~12000
   octets per second (one term node per bit); the Python side therefore writes an octet string as
   its length and 7 octets per primitive 63-bit integer (little endian), and the case is unpacked
   here before it is checked.  Used for recorded data only, in no theorem. *)

Definition pbytes : Type := (N * list int)%type.

Definition byte_at (w : int) (i : int) : N :=
  Z.to_N (Uint63.to_Z (Uint63.land (Uint63.lsr w (Uint63.mul 8 i)) 255)).

Definition word_bytes (w : int) : list N :=
  [byte_at w 0; byte_at w 1; byte_at w 2; byte_at w 3; byte_at w 4; byte_at w 5; byte_at w 6].

Fixpoint take_bytes (n : nat) (l : list N) : list N :=
  match n, l with
  | S n', x :: l' => x :: take_bytes n' l'
  | _, _ => []
  end.

Definition unpack (p : pbytes) : list N :=
  take_bytes (N.to_nat (fst p)) (flat_map word_bytes (snd p)).

Definition pfield_in : Type := (option pbytes * pbytes * bool)%type.

Inductive pblock_obs :=
| POut (out : pbytes) (size max : N) (entries : option (list (pbytes * pbytes)))
| PPanicNoName
| PPanicOther.

Definition pblock_rec : Type := (list N * list pfield_in * pblock_obs)%type.

Definition unpack_field (f : pfield_in) : field_in :=
  let '(n, v, s) := f in
  FI (match n with Some n' => Some (unpack n') | None => None end) (unpack v) s.

Definition unpack_obs (o : pblock_obs) : block_obs :=
  match o with
  | POut out size max entries =>
    OOut (unpack out) size max
         (match entries with
          | Some es => Some (map (fun e => (unpack (fst e), unpack (snd e))) es)
          | None => None
          end)
  | PPanicNoName => OPanicNoName
  | PPanicOther => OPanicOther
  end.

Definition unpack_block (b : pblock_rec) : block_rec :=
  let '(ups, fl, o) := b in (ups, map unpack_field fl, unpack_obs o).

Definition unpack_case (c : N * N * list pblock_rec) : N * N * list block_rec :=
  let '(max_size, cap, blocks) := c in (max_size, cap, map unpack_block blocks).

Definition check_hpack_enc_packed (c : N * N * list pblock_rec) : bool :=
  check_hpack_enc (unpack_case c).

Definition oracle_of_case_packed (c : N * N * list pblock_rec) : N :=
  oracle_of_case (unpack_case c).

Definition check_and_oracle_packed (c : N * N * list pblock_rec) : N :=
  check_and_oracle (unpack_case c).
