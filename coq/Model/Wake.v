(* Model of h2's wake discipline (property C06): which waker slots exist, who stores a waker in them, and at which
   code sites they are taken and woken.

     src/proto/streams/stream.rs   send_task (wait_send / notify_send), open_task (wait_open, woken by notify_send),
                                   recv_task, push_task (notify_recv / notify_push), notify_capacity, set_reset
     src/proto/streams/recv.rs     poll_response / poll_informational / poll_data / poll_trailers / schedule_recv store
                                   recv_task, poll_pushed stores push_task; recv_headers / recv_data / recv_trailers /
                                   recv_push_promise / recv_reset / handle_error / recv_eof notify
     src/proto/streams/prioritize.rs  pop_pending_open -> notify_send; schedule_send wakes the connection task
     src/proto/streams/streams.rs  Actions.task: stored by poll_complete under the lock that saw every queue flushed, taken and
                                   woken by every entry through which a handle leaves work for the connection task
     src/proto/ping_pong.rs        ping_task / pong_task (AtomicWaker)
     src/client.rs                 Connection::poll re-wakes itself when the last reference disappeared during the poll

   A *slot* holds at most one waker.  A *site* is a place in the code where something a waiter may be waiting for
   happens; `notify_of` lists, in program order, the slots the code takes-and-wakes there (the implementation table);
   `interested` lists the slots whose waiters must learn about it (the specification table).  Tasks are the executor's
   task identities (numbers); the lock-step correspondence feeds the labels recorded from the real crate (hook events of
   verif-hooks, see /verif/hooks/apply_wake_hooks.py) and compares, inside Coq, the wakers the model says fire with the
   named wakers that actually fired in the harness.

   Ghost state: `w_parked` = (task, slot) pairs "this task was told to wait on this slot and has not been polled since";
   `w_due` = tasks for which something they wait for has happened since they parked; `w_woken` = tasks with a wake
   pending (woken and not polled since). *)
From H2V Require Import Base.Tac.
Local Open Scope N_scope.

Inductive slot := SlSend (k : N) | SlOpen (k : N) | SlRecv (k : N) | SlPush (k : N) | SlConn | SlPing | SlPong.

Definition slot_eqb (a b : slot) : bool :=
  match a, b with
  | SlSend x, SlSend y | SlOpen x, SlOpen y | SlRecv x, SlRecv y | SlPush x, SlPush y => x =? y
  | SlConn, SlConn | SlPing, SlPing | SlPong, SlPong => true
  | _, _ => false
  end.

(* what was pushed / noticed at a `recv.event` site *)
Inductive rkind := RHeaders | RInfo | RTrailers | RData | RPromised | RPollData | RAfterReset
  | RDataUnobserved.   (* Recv::recv_data on a stream whose RecvStream is gone: nothing is queued for a reader *)

(* entries through which a handle (or the connection's owner) leaves work for the connection task *)
Inductive work :=
| WFrameQueued          (* Prioritize::schedule_send: a stream with a sendable frame was queued on pending_send *)
| WOpenQueued           (* Send::send_headers: a new request was queued on pending_open *)
| WConnWindowOwed       (* Recv::release_connection_capacity: a connection WINDOW_UPDATE became due *)
| WStreamWindowOwed     (* Recv::release_capacity: the stream was queued on pending_window_updates *)
| WTargetChanged        (* Recv::set_target_connection_window *)
| WLastHandleDropped    (* Drop for Streams: only the connection's own reference is left *)
| WStreamRefDropped     (* drop_stream_ref: an unreferenced closed stream can be released *)
| WReservationLowered   (* StreamRef::reserve_capacity: returned capacity may have been given to a stream with buffered data *)
| WOnlyConnRefLeft.     (* drop_stream_ref: the last handle went away, only the connection's own reference is left (6b1d165) *)

Inductive site :=
| StCapacity (k : N)                         (* Stream::notify_capacity: the stream's capacity rose *)
| StOpened (k : N)                           (* Prioritize::pop_pending_open: the queued stream got its slot *)
| StSetReset (k : N)                         (* Stream::set_reset *)
| StRecvReset (k : N)                        (* Recv::recv_reset *)
| StHandleError (k : N)                      (* Recv::handle_error *)
| StRecvEof (k : N)                          (* Recv::recv_eof *)
| StRecvEvent (k : N) (r : rkind) (ended : bool)   (* an event for the receiver; ended = state.is_recv_end_stream() *)
| StPushQueued (k : N)                       (* Inner::recv_push_promise: a promise was queued on parent k *)
| StWork (w : work)
| StOwnWork (w : work)                       (* the same entry reached from inside the connection task with no task slot (`&mut None`):
                                                Recv::recv_data releasing the padding of a DATA frame; the running connection task
                                                flushes the queues itself before it parks *)
| StUserPing (was_empty : bool)              (* UserPings::send_ping; the ping was accepted iff the cell was EMPTY *)
| StPong (was_pending : bool)                (* UserPingsRx::receive_pong *)
| StPingClosed.                              (* Drop for UserPingsRx *)

(* the implementation table: slots taken and woken, in program order *)
Definition notify_of (s : site) : list slot :=
  match s with
  | StCapacity k | StOpened k => [SlSend k; SlOpen k]
  | StSetReset k => [SlSend k; SlOpen k; SlPush k; SlRecv k]
  | StRecvReset k | StHandleError k | StRecvEof k => [SlSend k; SlOpen k; SlRecv k; SlPush k]
  | StRecvEvent k RHeaders ended | StRecvEvent k RData ended => SlRecv k :: (if ended then [SlPush k] else [])
  | StRecvEvent k RTrailers _ | StRecvEvent k RPromised _ => [SlRecv k; SlPush k]
  | StRecvEvent k RDataUnobserved ended => if ended then [SlPush k] else []
  | StRecvEvent k _ _ => [SlRecv k]
  | StPushQueued k => [SlPush k]
  | StWork _ => [SlConn]
  | StOwnWork _ => []
  | StUserPing true => [SlPing]
  | StUserPing false => []
  | StPong true => [SlPong]
  | StPong false => []
  | StPingClosed => [SlPong]
  end.

(* the specification table: whose wait may be over *)
Definition interested (s : site) : list slot :=
  match s with
  | StCapacity k => [SlSend k]                                   (* capacity wait *)
  | StOpened k => [SlOpen k]                                     (* readiness wait *)
  | StSetReset k | StRecvReset k | StHandleError k | StRecvEof k => [SlSend k; SlOpen k; SlRecv k; SlPush k]
  | StRecvEvent k RHeaders ended | StRecvEvent k RData ended => SlRecv k :: (if ended then [SlPush k] else [])
  | StRecvEvent k RTrailers _ => [SlRecv k; SlPush k]            (* trailers end the receive half *)
  | StRecvEvent k RInfo _ => [SlRecv k]
  | StRecvEvent k RDataUnobserved ended => if ended then [SlPush k] else []   (* no reader is left; the receive half may have ended *)
  | StRecvEvent _ _ _ => []                                      (* nothing new for anyone *)
  | StPushQueued k => [SlPush k]
  | StWork _ => [SlConn]
  | StUserPing true => [SlPing]
  | StPong true => [SlPong]
  | StPingClosed => [SlPong]
  | _ => []
  end.

(* the tables of the tree before the three repairs (commits a67af12, b730a71; f1e4dd0 is about the slot used, see
   Proofs/WakeProofs.v) *)
Definition notify_before_push_fix (s : site) : list slot :=
  match s with
  | StRecvEvent k RHeaders _ | StRecvEvent k RData _ | StRecvEvent k RTrailers _ => [SlRecv k]
  | _ => notify_of s
  end.

Definition notify_before_reserve_fix (s : site) : list slot :=
  match s with
  | StWork WReservationLowered => []
  | _ => notify_of s
  end.

Record wstate := mkW {
  w_reg : list (slot * N);        (* slot -> stored waker's task *)
  w_parked : list (N * slot);
  w_woken : list N;
  w_due : list N
}.

Definition winit : wstate := mkW [] [] [] [].

Inductive wlabel :=
| LPoll (t : N)                   (* the executor polls task t *)
| LRegister (sl : slot) (t : N)   (* the polled task stores its waker *)
| LSite (s : site)
| LSelfWake (t : N).              (* cx.waker().wake_by_ref() by the task being polled *)

Inductive wout := OWake (sl : slot) (t : N) | OIdle (sl : slot).

Fixpoint rget (sl : slot) (r : list (slot * N)) : option N :=
  match r with
  | [] => None
  | (s, t) :: r' => if slot_eqb s sl then Some t else rget sl r'
  end.

Fixpoint rdel (sl : slot) (r : list (slot * N)) : list (slot * N) :=
  match r with
  | [] => []
  | (s, t) :: r' => if slot_eqb s sl then rdel sl r' else (s, t) :: rdel sl r'
  end.

Definition rset (sl : slot) (t : N) (r : list (slot * N)) : list (slot * N) := (sl, t) :: rdel sl r.

Fixpoint mem_slot (sl : slot) (l : list slot) : bool :=
  match l with [] => false | x :: l' => slot_eqb x sl || mem_slot sl l' end.

Fixpoint memN (t : N) (l : list N) : bool :=
  match l with [] => false | x :: l' => (x =? t) || memN t l' end.

(* take-and-wake every slot of the list, in order *)
Fixpoint notify (sls : list slot) (reg : list (slot * N)) (woken : list N) : list (slot * N) * list N * list wout :=
  match sls with
  | [] => (reg, woken, [])
  | sl :: sls' =>
    match rget sl reg with
    | Some t => let '(r2, w2, o2) := notify sls' (rdel sl reg) (t :: woken) in (r2, w2, OWake sl t :: o2)
    | None => let '(r2, w2, o2) := notify sls' reg woken in (r2, w2, OIdle sl :: o2)
    end
  end.

Definition newly_due (parked : list (N * slot)) (int : list slot) : list N :=
  map fst (filter (fun p => mem_slot (snd p) int) parked).

(* one label; [nf] is the implementation table in force *)
Definition wstep (nf : site -> list slot) (st : wstate) (l : wlabel) : wstate * list wout :=
  match l with
  | LPoll t =>
    (mkW (w_reg st) (filter (fun p => negb (fst p =? t)) (w_parked st))
         (filter (fun x => negb (x =? t)) (w_woken st)) (filter (fun x => negb (x =? t)) (w_due st)), [])
  | LRegister sl t => (mkW (rset sl t (w_reg st)) ((t, sl) :: w_parked st) (w_woken st) (w_due st), [])
  | LSite s =>
    let due := newly_due (w_parked st) (interested s) ++ w_due st in
    let '(r2, w2, o2) := notify (nf s) (w_reg st) (w_woken st) in
    (mkW r2 (w_parked st) w2 due, o2)
  | LSelfWake t => (mkW (w_reg st) (w_parked st) (t :: w_woken st) (w_due st), [OWake SlConn t])
  end.

(* a registration that throws out another task's waker *)
Definition displaces (st : wstate) (l : wlabel) : bool :=
  match l with
  | LRegister sl t => match rget sl (w_reg st) with Some t' => negb (t' =? t) | None => false end
  | _ => false
  end.

Fixpoint wrun (nf : site -> list slot) (st : wstate) (ls : list wlabel) : wstate :=
  match ls with
  | [] => st
  | l :: ls' => wrun nf (fst (wstep nf st l)) ls'
  end.

(* runs in which no slot is used by two tasks at once *)
Fixpoint wrun_nodisp (nf : site -> list slot) (st : wstate) (ls : list wlabel) : option wstate :=
  match ls with
  | [] => Some st
  | l :: ls' => if displaces st l then None else wrun_nodisp nf (fst (wstep nf st l)) ls'
  end.

(* the invariant of C06, as a boolean on states *)
Definition no_lost_wake (st : wstate) : bool := forallb (fun t => memN t (w_woken st)) (w_due st).

(* ---------------------------------------------------------------------------------------------
   Correspondence.  A recorded step of the harness = the labels of its hook events, each with the observed pattern of
   its primitive notifications (true = the slot held a waker), and the identities of the named wakers that fired
   during the step, in order. *)

Definition had_pattern (o : list wout) : list bool :=
  map (fun x => match x with OWake _ _ => true | OIdle _ => false end) o.

Fixpoint wakes_of (o : list wout) : list N :=
  match o with [] => [] | OWake _ t :: o' => t :: wakes_of o' | OIdle _ :: o' => wakes_of o' end.

Fixpoint bools_eqb (a b : list bool) : bool :=
  match a, b with
  | [], [] => true
  | x :: a', y :: b' => Bool.eqb x y && bools_eqb a' b'
  | _, _ => false
  end.

Fixpoint listN_eqb (a b : list N) : bool :=
  match a, b with
  | [], [] => true
  | x :: a', y :: b' => (x =? y) && listN_eqb a' b'
  | _, _ => false
  end.

(* labels of one step: result = (state, fired wakers, no displacement seen) or None when a pattern differs *)
Fixpoint run_step (st : wstate) (acc : list N) (nd : bool) (ls : list (wlabel * option (list bool)))
  : option (wstate * list N * bool) :=
  match ls with
  | [] => Some (st, acc, nd)
  | (l, pat) :: ls' =>
    let '(st1, o) := wstep notify_of st l in
    if match pat with Some p => bools_eqb (had_pattern o) p | None => true end
    then run_step st1 (acc ++ wakes_of o) (nd && negb (displaces st l)) ls'
    else None
  end.

(* 0 = agreement; 10*(step+1)+2 = a notification pattern differs; +5 = the fired wakers differ; +7 = a due task is not
   woken although no slot was ever shared by two tasks (cannot happen, by Proofs/WakeProofs.v; checked all the same) *)
Fixpoint check_steps (st : wstate) (i : N) (nd : bool)
  (steps : list (list (wlabel * option (list bool)) * option (list N))) : N :=
  match steps with
  | [] => 0
  | (ls, wk) :: steps' =>
    match run_step st [] nd ls with
    | None => 10 * (i + 1) + 2
    | Some (st1, fired, nd1) =>
      if negb (match wk with Some w => listN_eqb fired w | None => true end) then 10 * (i + 1) + 5
      else if nd1 && negb (no_lost_wake st1) then 10 * (i + 1) + 7
      else check_steps st1 (i + 1) nd1 steps'
    end
  end.

Definition diag_wake (c : list (list (wlabel * option (list bool)) * option (list N))) : N := check_steps winit 0 true c.
Definition check_wake (c : list (list (wlabel * option (list bool)) * option (list N))) : bool := diag_wake c =? 0.

(* number of registrations that displaced another task's waker (reported as a statistic) *)
Fixpoint count_disp (st : wstate) (ls : list wlabel) : N :=
  match ls with
  | [] => 0
  | l :: ls' => (if displaces st l then 1 else 0) + count_disp (fst (wstep notify_of st l)) ls'
  end.
