(* The pending_capacity FIFO of src/proto/streams/prioritize.rs made explicit on top of Model/SendFlow.v.

   SendFlow's labels take the order in which assign_connection_capacity visits the waiting streams as an
   OBSERVED input (`visits`).  Here the queue `Prioritize::pending_capacity : store::Queue<NextSendCapacity>`
   is part of the state (keys = record serials; store.rs `Queue::push` appends at the tail and is a no-op
   when the stream's `is_pending_send_capacity` flag is set, `Queue::pop` takes the head and clears the
   flag), and the visiting order is COMPUTED from it exactly as the code does:

     assign_connection_capacity:  while self.flow.available() > 0 {
                                    pop the head (return when the queue is empty);
                                    if !(is_send_streaming || buffered_send_data > 0) { continue }   -- evicted
                                    try_assign_capacity(stream) }
     try_assign_capacity:         ... after the assignment:
                                    if available < requested && send_flow.has_unavailable() { pending_capacity.push(stream) }

   What stays observed: the stream-state predicates of a popped stream (`ob`, a finite map from serial to
   `obs`, supplied with the label).  `qstep` calls nothing but SendFlow's own functions for the flow state,
   so a `qstep` run projects to a `step` run by construction (Proofs/CapQueueProofs.v: qstep_refines). *)
From H2V Require Import Base.Tac Model.SendFlow.
Local Open Scope Z_scope.

Fixpoint qmem (k : N) (q : list N) : bool :=
  match q with [] => false | x :: q' => N.eqb x k || qmem k q' end.

(* store.rs Queue::push: no-op when already queued, tail otherwise *)
Definition enq (k : N) (q : list N) : list N := if qmem k q then q else q ++ [k].

(* `stream.send_flow.available() < stream.requested_send_capacity as usize` (Window vs usize: a negative
   window compares Less) and FlowControl::has_unavailable *)
Definition wants_more (s : sstream) : bool := (s_avail s <? 0) || (s_avail s <? s_req s).
Definition has_unavailable (s : sstream) : bool := (0 <=? s_win s) && (s_avail s <? s_win s).

(* does this call of try_assign_capacity reach `self.pending_capacity.push(stream)`?  Same guards, in the same
   order, as SendFlow.try_assign; the final test reads the stream after the assignment. *)
Definition push_after (st : fstate) (sid : N) (o : obs) : bool :=
  match find_s sid (c_strs st) with
  | None => false
  | Some s =>
    if o_pending_open o then false else
    let av := as_size (s_avail s) in
    if s_req s <? av then false
    else if as_size (s_win s) <? av then false
    else
    let additional := Z.min (s_req s - av) (as_size (s_win s) - av) in
    if additional =? 0 then false else
    if negb (o_streaming o) && (s_buf s =? 0) then false else
    let ca := as_size (c_avail st) in
    let assign := if 0 <? ca then Z.min ca additional else 0 in
    let s' := set_avail s (s_avail s + assign) in
    wants_more s' && has_unavailable s'
  end.

Inductive qoutcome :=
| QOk (st : fstate) (q : list N) (outs : list out) (vs : list visit)   (* vs = the visits this call computed *)
| QStuck (n : N)
| QPanic (n : N).

Definition q_try_assign (st : fstate) (q : list N) (sid : N) (o : obs) : qoutcome :=
  match try_assign st sid o with
  | Ok st' outs => QOk st' (if push_after st sid o then enq sid q else q) outs []
  | Stuck n => QStuck n
  | Panic n => QPanic n
  end.

Fixpoint find_ob (k : N) (ob : list (N * obs)) : option obs :=
  match ob with
  | [] => None
  | (x, o) :: ob' => if N.eqb x k then Some o else find_ob k ob'
  end.

(* the loop of assign_connection_capacity.  Fuel: every iteration pops, a push ends the loop (theorem
   q_loop_fuel: QStuck 50 is never returned with fuel > length q). *)
Fixpoint q_loop (fuel : nat) (st : fstate) (q : list N) (ob : list (N * obs)) (outs : list out) (vs : list visit) : qoutcome :=
  match fuel with
  | O => QStuck 50
  | S f =>
    if c_avail st <=? 0 then QOk st q outs vs else
    match q with
    | [] => QOk st [] outs vs
    | h :: q' =>
      match find_s h (c_strs st), find_ob h ob with
      | None, _ => QStuck 51            (* a queued key names no record *)
      | _, None => QStuck 52            (* no observation supplied for a popped stream *)
      | Some s, Some o =>
        if negb (o_streaming o || (0 <? s_buf s)) then q_loop f st q' ob outs vs      (* evicted *)
        else match try_assign st h o with
             | Ok st1 o1 =>
               q_loop f st1 (if push_after st h o then enq h q' else q') ob (outs ++ o1) (vs ++ [mkV h o])
             | Stuck n => QStuck n
             | Panic n => QPanic n
             end
      end
    end
  end.

Definition q_assign_conn (st : fstate) (q : list N) (inc : Z) (ob : list (N * obs)) : qoutcome :=
  if negb (in_i32 (c_avail st + inc)) then QPanic 5
  else q_loop (S (length q)) (set_cavail st (c_avail st + inc)) q ob [] [].

Definition q_add_outs (pre : list out) (r : qoutcome) : qoutcome :=
  match r with QOk st q o vs => QOk st q (pre ++ o) vs | x => x end.

Definition q_reclaim_all (st : fstate) (q : list N) (sid : N) (ob : list (N * obs)) : qoutcome :=
  match find_s sid (c_strs st) with
  | None => QStuck 3
  | Some s =>
    let av := as_size (s_avail s) in
    if 0 <? av then q_assign_conn (put st (set_avail s (s_avail s - av))) q av ob
    else QOk st q [] []
  end.

Definition q_reclaim_reserved (st : fstate) (q : list N) (sid : N) (ob : list (N * obs)) : qoutcome :=
  match find_s sid (c_strs st) with
  | None => QStuck 5
  | Some s =>
    if s_buf s <? as_size (s_avail s) then
      let reserved := as_size (s_avail s) - s_buf s in
      q_assign_conn (put st (set_avail s (s_avail s - reserved))) q reserved ob
    else QOk st q [] []
  end.

Definition q_reserve (st : fstate) (q : list N) (sid : N) (send_closed : bool) (o : obs) (cap : Z) (ob : list (N * obs)) : qoutcome :=
  match find_s sid (c_strs st) with
  | None => QStuck 8
  | Some s =>
    let capacity := cap + s_buf s in
    if capacity =? s_req s then QOk st q [] []
    else if capacity <? s_req s then
      let s1 := set_req s capacity in
      let av := as_size (s_avail s1) in
      if capacity <? av then
        let diff := av - capacity in
        q_assign_conn (put st (set_avail s1 (s_avail s1 - diff))) q diff ob
      else QOk (put st s1) q [] []
    else
      if send_closed then QOk st q [] []
      else q_try_assign (put st (set_req s (Z.min capacity U32MAX))) q sid o
  end.

Definition q_recv_stream_wu (st : fstate) (q : list N) (sid : N) (o : obs) (inc : Z) : qoutcome :=
  match find_s sid (c_strs st) with
  | None => QStuck 14
  | Some s =>
    if o_send_closed o && (s_buf s =? 0) then QOk (put st (set_dead s)) q [] []
    else
    let v := s_win s + inc in
    if negb (in_i32 v) || (MAXW <? v) then QOk st q [OStreamErr sid] []
    else q_try_assign (put st (set_win s v)) q sid o
  end.

Fixpoint q_settings_inc (st : fstate) (q : list N) (outs : list out) (inc : Z) (touched : list (N * obs)) : qoutcome :=
  match touched with
  | [] => QOk st q outs []
  | (sid, o) :: t' =>
    match q_recv_stream_wu st q sid o inc with
    | QOk st1 q1 o1 _ =>
      match o1 with
      | OStreamErr _ :: _ => QOk st1 q1 (outs ++ o1 ++ [OConnErr]) []
      | _ => q_settings_inc st1 q1 (outs ++ o1) inc t'
      end
    | r => r
    end
  end.

(* labels that touch neither the queue nor the connection's unassigned capacity *)
Definition q_pass (st : fstate) (q : list N) (l : label) : qoutcome :=
  match step st l with
  | Ok st' outs => QOk st' q outs []
  | Stuck n => QStuck n
  | Panic n => QPanic n
  end.

(* the `visits` field of [l] is ignored: the visits are computed *)
Definition qstep (st : fstate) (q : list N) (l : label) (ob : list (N * obs)) : qoutcome :=
  match l with
  | LNew _ _ | LPopData _ _ _ | LPollCapacity _ _ | LCapacity _ | LNotify _ | LWait _ => q_pass st q l
  | LRemove sid =>
    (* counts.rs transition_after removes a record only when Stream::is_released, which requires
       !is_pending_send_capacity *)
    if qmem sid q then QStuck 60 else q_pass st q l
  | LSendData sid o sz eos _ =>
    match find_s sid (c_strs st) with
    | None => QStuck 24
    | Some s =>
      if MAXW <? sz then QOk st q [ORes (-3)] []
      else if negb (o_streaming o) then QOk st q [ORes (-3)] []
      else if s_dead s then QStuck 25
      else
      let s1 := set_bufq s (s_buf s + sz) (s_frames s ++ [sz]) in
      let r1 :=
        if s_req s1 <? s_buf s1
        then q_try_assign (put st (set_req s1 (Z.min (s_buf s1) U32MAX))) q sid o
        else QOk (put st s1) q [] [] in
      if eos then
        match r1 with
        | QOk st1 q1 o1 _ => q_add_outs o1 (q_reserve st1 q1 sid true o 0 ob)
        | r => r
        end
      else r1
    end
  | LReserve sid o cap _ => q_reserve st q sid (o_send_closed o) o cap ob
  | LRecvStreamWU sid o inc => q_recv_stream_wu st q sid o inc
  | LRecvConnWU inc _ =>
    let v := c_win st + inc in
    if negb (in_i32 v) || (MAXW <? v) then QOk st q [OConnErr] []
    else q_assign_conn (set_cwin st v) q inc ob
  | LSendReset sid o is_reset queue_empty _ =>
    match find_s sid (c_strs st) with
    | None => QStuck 27
    | Some s =>
      if is_reset then QOk st q [] []
      else
      let outs := if s_parked s then [OWake sid] else [] in
      let st0 := put st (set_parked s false) in
      if o_closed o && queue_empty && (s_buf s =? 0) then QOk st0 q outs []
      else
      (* also for a stream still waiting to be opened (it keeps only its HEADERS; fix a052906 of /repo) *)
      match clear_queue st0 sid with
      | Ok st1 o1 => q_add_outs outs (q_add_outs o1 (q_reclaim_all st1 q sid ob))
      | Stuck n => QStuck n
      | Panic n => QPanic n
      end
    end
  | LHandleError sid _ =>
    match clear_queue st sid with
    | Ok st1 o1 => q_add_outs o1 (q_reclaim_all st1 q sid ob)
    | Stuck n => QStuck n
    | Panic n => QPanic n
    end
  | LImplicitReset sid o _ =>
    if o_closed o then QOk st q [] [] else q_reclaim_reserved st q sid ob
  | LApplySettings new_init touched _ =>
    if negb (nodup_keys touched) then QStuck 41 else
    let old := c_init st in
    let st0 := set_cinit st new_init in
    if new_init <? old then
      match settings_dec st0 (old - new_init) 0 touched with
      | (Ok st1 [], total) => q_assign_conn (set_strs st1 (mark_untouched touched (c_strs st1))) q total ob
      | (Ok st1 outs, _) => QOk st1 q outs []
      | (Stuck n, _) => QStuck n
      | (Panic n, _) => QPanic n
      end
    else if old <? new_init then q_settings_inc st0 q [] (new_init - old) touched
    else match touched with [] => QOk st0 q [] [] | _ => QStuck 32 end
  | LTryAssign sid o => q_try_assign st q sid o
  end.

(* the SendFlow label this step projects to *)
Definition with_vs (l : label) (vs : list visit) : label :=
  match l with
  | LSendData sid o sz eos _ => LSendData sid o sz eos vs
  | LReserve sid o cap _ => LReserve sid o cap vs
  | LRecvConnWU inc _ => LRecvConnWU inc vs
  | LSendReset sid o r qe _ => LSendReset sid o r qe vs
  | LHandleError sid _ => LHandleError sid vs
  | LImplicitReset sid o _ => LImplicitReset sid o vs
  | LApplySettings n t _ => LApplySettings n t vs
  | l => l
  end.

Definition visits_of (l : label) : list visit :=
  match l with
  | LSendData _ _ _ _ vs | LReserve _ _ _ vs | LRecvConnWU _ vs | LSendReset _ _ _ _ vs
  | LHandleError _ vs | LImplicitReset _ _ vs | LApplySettings _ _ vs => vs
  | _ => []
  end.

(* one entry of a run: a SendFlow label with the observations of the popped streams, or
   Send::clear_queues -> Prioritize::clear_pending_capacity (pops everything; connection teardown) *)
Inductive qlabel :=
| QL (l : label) (ob : list (N * obs))
| QClear.

(* result: final state, final queue, the projected SendFlow labels (visits filled in), per-label outputs *)
Fixpoint qrun (st : fstate) (q : list N) (ls : list qlabel) : option (fstate * list N * list label * list (list out)) :=
  match ls with
  | [] => Some (st, q, [], [])
  | QClear :: ls' => qrun st [] ls'
  | QL l ob :: ls' =>
    match qstep st q l ob with
    | QOk st1 q1 o vs =>
      match qrun st1 q1 ls' with
      | Some (st2, q2, pls, os) => Some (st2, q2, with_vs l vs :: pls, o :: os)
      | None => None
      end
    | _ => None
    end
  end.

(* ---------------------------------------------------------------------------------------------
   Correspondence.  A case = (max_buffer_size, init_window, entries, final observed queue); an entry =
   (qlabel with the OBSERVED visits left in the label, observed queue before the label).  At every label the
   model's queue must equal the observed one, and the visits the model computes must be the observed visits
   (same serials, same order, same observations). *)

Fixpoint nlist_eqb (a b : list N) : bool :=
  match a, b with
  | [], [] => true
  | x :: a', y :: b' => N.eqb x y && nlist_eqb a' b'
  | _, _ => false
  end.

Definition obs_eqb (a b : obs) : bool :=
  Bool.eqb (o_streaming a) (o_streaming b) && Bool.eqb (o_send_closed a) (o_send_closed b) &&
  Bool.eqb (o_closed a) (o_closed b) && Bool.eqb (o_pending_open a) (o_pending_open b).

Fixpoint visits_eqb (a b : list visit) : bool :=
  match a, b with
  | [], [] => true
  | x :: a', y :: b' => N.eqb (v_sid x) (v_sid y) && obs_eqb (v_obs x) (v_obs y) && visits_eqb a' b'
  | _, _ => false
  end.

(* 0 = agreement; otherwise 10*(index+1) + reason (1 queue before the label differs, 2 computed visits differ
   from the observed ones, 3 model Stuck, 4 model Panic, 5 final queue differs) *)
Fixpoint check_qrun (st : fstate) (q : list N) (i : N) (ls : list (qlabel * list N)) (fin : list N) : N :=
  match ls with
  | [] => if nlist_eqb q fin then 0%N else (10 * (i + 1) + 5)%N
  | (ql, qobs) :: ls' =>
    if negb (nlist_eqb q qobs) then (10 * (i + 1) + 1)%N
    else match ql with
         | QClear => check_qrun st [] (i + 1) ls' fin
         | QL l ob =>
           match qstep st q l ob with
           | QOk st1 q1 _ vs =>
             if visits_eqb vs (visits_of l) then check_qrun st1 q1 (i + 1) ls' fin else (10 * (i + 1) + 2)%N
           | QStuck _ => (10 * (i + 1) + 3)%N
           | QPanic _ => (10 * (i + 1) + 4)%N
           end
         end
  end.

Definition diag_capqueue (c : Z * Z * list (qlabel * list N) * list N) : N :=
  let '(maxbuf, init, ls, fin) := c in check_qrun (init_state maxbuf init) [] 0 ls fin.

Definition check_capqueue (c : Z * Z * list (qlabel * list N) * list N) : bool :=
  (diag_capqueue c =? 0)%N.
