(* Model of h2's HTTP message rules (property C13), branch by branch, including the oddities:

     src/hpack/header.rs            Header::new                          -> [header_new]
     src/frame/headers.rs           HeaderBlock::load (the decoder callback, set_pseudo!,
                                    check_size!), parse_u64, Pseudo::request,
                                    PushPromise::validate_request       -> [load] [parse_u64] ...
     src/codec/framed_read.rs       mapping of load errors (hpack error / way too large ->
                                    connection error, MalformedMessage -> stream reset)
     src/server.rs, src/client.rs   Peer::convert_poll_message, convert_send_message,
                                    convert_push_message                 -> [convert_request] ...
     src/proto/streams/recv.rs      recv_headers, recv_trailers, recv_data (content-length part),
                                    recv_push_promise, poll_*            -> [recv_head] ...
     src/proto/streams/stream.rs    dec_content_length, ensure_content_length_zero
     src/proto/streams/streams.rs   Inner::recv_headers / recv_data / recv_push_promise (which
                                    function a frame reaches in which receive state)
     src/proto/streams/send.rs      Send::check_headers

   Input of the receive side: the field list of one header block in wire order, every field
   coded as an HPACK literal (so every field passes through Header::new).

   MODELLED, NOT VERIFIED: the `http` crate's syntax checks of :authority / :scheme / :path
   (uri::Authority::from_maybe_shared, Scheme::from_str, PathAndQuery::from_maybe_shared) are
   the three booleans of [verdicts]; every theorem holds for all their values.  Name/value/
   method/status/UTF-8 validation is Model/HttpTokens.v.  HeaderMap iteration order is
   [hm_order]; the HeaderMap capacity limit (24,576 distinct names -> over-size) is not
   modelled (it only makes the code refuse more).

   The second half ([step], [drain], [run]) is one stream seen frame by frame, with the
   application of the harness polling everything it holds after every frame; this is what
   [check_http_recv] compares with the real crate (what the application was handed, byte-exact,
   the RST_STREAM and GOAWAY frames, the 431 answer).  Oddities of the code that are mirrored:
   a response without :status becomes 200 (KF-C13-1); the pseudo part of a trailers block is
   dropped (KF-C13-2); a content-length of a 1xx head stays in force for the final response;
   204/304 are exempt from the content-length check only for END_STREAM on the HEADERS frame;
   a malformed PUSH_PROMISE block resets the PARENT stream; an empty PUSH_PROMISE block is a
   connection error; no RST_STREAM is written when the failing frame had already closed the
   stream (client) or when the 431 answer closed it (server); a stray frame on a stream that
   is closed in both directions is answered with RST_STREAM(STREAM_CLOSED).

   Definitions only; proofs in Proofs/HttpRulesProofs.v. *)
From Coq Require Import String Ascii.
From H2V Require Import Base.Tac Base.Bytes Model.HttpTokens Ref.Rfc9113Http.
Local Open Scope N_scope.

Definition lenN {A} (l : list A) : N := N.of_nat (length l).
Definition is_some {A} (o : option A) : bool := match o with Some _ => true | None => false end.

Definition opt_bytes_eqb (a b : option (list N)) : bool :=
  match a, b with
  | Some x, Some y => list_N_eqb x y
  | None, None => true
  | _, _ => false
  end.

Definition opt_N_eqb (a b : option N) : bool :=
  match a, b with
  | Some x, Some y => x =? y
  | None, None => true
  | _, _ => false
  end.

Definition field_eqb (a b : field) : bool := list_N_eqb (fst a) (fst b) && list_N_eqb (snd a) (snd b).

Fixpoint fields_eqb (a b : list field) : bool :=
  match a, b with
  | [], [] => true
  | x :: a', y :: b' => field_eqb x y && fields_eqb a' b'
  | _, _ => false
  end.

(* ===================== src/hpack/header.rs: Header::new ===================== *)

Inductive hname := HField | HAuthority | HMethod | HScheme | HPath | HProtocol | HStatus.

(* which variant of `Header` the field becomes; None = DecoderError *)
Definition header_new (f : field) : option hname :=
  match fst f with
  | [] => None                                                       (* name.is_empty() *)
  | c :: rest =>
    if c =? 58 then                                                  (* name[0] == b':' *)
      if list_N_eqb rest (bstr "authority") then (if utf8_ok (snd f) then Some HAuthority else None)
      else if list_N_eqb rest (bstr "method") then (if method_ok (snd f) then Some HMethod else None)
      else if list_N_eqb rest (bstr "scheme") then (if utf8_ok (snd f) then Some HScheme else None)
      else if list_N_eqb rest (bstr "path") then (if utf8_ok (snd f) then Some HPath else None)
      else if list_N_eqb rest (bstr "protocol") then (if utf8_ok (snd f) then Some HProtocol else None)
      else if list_N_eqb rest (bstr "status") then (if status_ok (snd f) then Some HStatus else None)
      else None                                                      (* InvalidPseudoheader *)
    else if name_ok (fst f) then (if value_ok (snd f) then Some HField else None) else None
  end.

(* ===================== src/frame/headers.rs: Pseudo, HeaderBlock::load ===================== *)

Record pseudo := mk_pseudo {
  p_method : option (list N);
  p_scheme : option (list N);
  p_authority : option (list N);
  p_path : option (list N);
  p_protocol : option (list N);
  p_status : option (list N)
}.

Definition pseudo_empty : pseudo := mk_pseudo None None None None None None.

Definition ps_get (h : hname) (p : pseudo) : option (list N) :=
  match h with
  | HField => None
  | HAuthority => p_authority p
  | HMethod => p_method p
  | HScheme => p_scheme p
  | HPath => p_path p
  | HProtocol => p_protocol p
  | HStatus => p_status p
  end.

Definition ps_set (h : hname) (v : list N) (p : pseudo) : pseudo :=
  match h with
  | HField => p
  | HAuthority => mk_pseudo (p_method p) (p_scheme p) (Some v) (p_path p) (p_protocol p) (p_status p)
  | HMethod => mk_pseudo (Some v) (p_scheme p) (p_authority p) (p_path p) (p_protocol p) (p_status p)
  | HScheme => mk_pseudo (p_method p) (Some v) (p_authority p) (p_path p) (p_protocol p) (p_status p)
  | HPath => mk_pseudo (p_method p) (p_scheme p) (p_authority p) (Some v) (p_protocol p) (p_status p)
  | HProtocol => mk_pseudo (p_method p) (p_scheme p) (p_authority p) (p_path p) (Some v) (p_status p)
  | HStatus => mk_pseudo (p_method p) (p_scheme p) (p_authority p) (p_path p) (p_protocol p) (Some v)
  end.

(* stringify!($field).len() + 1 *)
Definition pname_len (h : hname) : N :=
  match h with
  | HField => 0 | HAuthority => 10 | HMethod => 7 | HScheme => 7 | HPath => 5 | HProtocol => 9 | HStatus => 7
  end.

(* the mutable variables of HeaderBlock::load *)
Record lstate := mk_lstate {
  l_reg : bool;              (* a regular field has been seen *)
  l_mal : bool;              (* malformed *)
  l_over : bool;             (* self.is_over_size *)
  l_size : N;                (* headers_size *)
  l_ps : pseudo;             (* self.pseudo *)
  l_fields : list field      (* self.fields, in append order *)
}.

Definition lstate0 : lstate := mk_lstate false false false 0 pseudo_empty [].

Definition set_mal (s : lstate) : lstate := mk_lstate (l_reg s) true (l_over s) (l_size s) (l_ps s) (l_fields s).
Definition set_over (s : lstate) : lstate := mk_lstate (l_reg s) (l_mal s) true (l_size s) (l_ps s) (l_fields s).
Definition add_size (n : N) (s : lstate) : lstate := mk_lstate (l_reg s) (l_mal s) (l_over s) (l_size s + n) (l_ps s) (l_fields s).
Definition set_reg (s : lstate) : lstate := mk_lstate true (l_mal s) (l_over s) (l_size s) (l_ps s) (l_fields s).
Definition put_ps (h : hname) (v : list N) (s : lstate) : lstate :=
  mk_lstate (l_reg s) (l_mal s) (l_over s) (l_size s) (ps_set h v (l_ps s)) (l_fields s).
Definition put_field (f : field) (s : lstate) : lstate :=
  mk_lstate (l_reg s) (l_mal s) (l_over s) (l_size s) (l_ps s) (l_fields s ++ [f]).

Inductive flow := Continue (s : lstate) | Break.

Definition MAX_HEADER_LIST_ABUSE_MULTIPLIER : N := 4.

(* check_size!() *)
Definition check_size (max : N) (s : lstate) : flow :=
  if max * MAX_HEADER_LIST_ABUSE_MULTIPLIER <? l_size s then Break
  else Continue (if (max <=? l_size s) && negb (l_over s) then set_over s else s).

Definition conn_specific_name (n : list N) : bool :=
  list_N_eqb n (bstr "connection") || list_N_eqb n (bstr "transfer-encoding") ||
  list_N_eqb n (bstr "upgrade") || list_N_eqb n (bstr "keep-alive") || list_N_eqb n (bstr "proxy-connection").

Definition te_not_trailers (f : field) : bool :=
  list_N_eqb (fst f) (bstr "te") && negb (list_N_eqb (snd f) (bstr "trailers")).

(* the closure passed to decoder.decode *)
Definition load_field (max : N) (s : lstate) (h : hname) (f : field) : flow :=
  match h with
  | HField =>
      if conn_specific_name (fst f) then Continue (set_mal s)
      else if te_not_trailers f then Continue (set_mal s)
      else
        match check_size max (add_size (lenN (fst f) + lenN (snd f) + 32) (set_reg s)) with
        | Break => Break
        | Continue s1 => Continue (if l_over s1 then s1 else put_field f s1)
        end
  | _ =>                                                             (* set_pseudo! *)
      if l_reg s then Continue (set_mal s)
      else if is_some (ps_get h (l_ps s)) then Continue (set_mal s)
      else
        match check_size max (add_size (pname_len h + lenN (snd f) + 32) s) with
        | Break => Break
        | Continue s1 => Continue (if l_over s1 then s1 else put_ps h (snd f) s1)
        end
  end.

Record block := mk_block { b_pseudo : pseudo; b_fields : list field; b_over : bool }.

Inductive load_res :=
| LOk (b : block)
| LMalformed            (* frame::Error::MalformedMessage *)
| LHpack                (* frame::Error::Hpack(_) *)
| LWayTooLarge.         (* frame::Error::HeaderListWayTooLarge *)

Fixpoint load_from (max : N) (s : lstate) (fs : list field) : load_res :=
  match fs with
  | [] => if l_mal s then LMalformed else LOk (mk_block (l_ps s) (l_fields s) (l_over s))
  | f :: r =>
      match header_new f with
      | None => LHpack
      | Some h =>
          match load_field max s h f with
          | Break => LWayTooLarge
          | Continue s' => load_from max s' r
          end
      end
  end.

Definition load (max : N) (fs : list field) : load_res := load_from max lstate0 fs.

(* frame::headers::parse_u64 *)
Definition digit (b : N) : bool := (48 <=? b) && (b <=? 57).

Definition parse_u64 (v : list N) : option N :=
  match v with
  | [] => None
  | _ :: _ =>
      if 19 <? lenN v then None
      else if forallb digit v then Some (fold_left (fun a d => a * 10 + (d - 48)) v 0)
      else None
  end.

(* HeaderMap: get = first value of the name, get_all = all values, iteration = grouped by
   name in order of first insertion *)
Fixpoint first_value (n : list N) (fs : list field) : option (list N) :=
  match fs with
  | [] => None
  | f :: r => if list_N_eqb (fst f) n then Some (snd f) else first_value n r
  end.

Definition all_values (n : list N) (fs : list field) : list (list N) :=
  map snd (filter (fun f => list_N_eqb (fst f) n) fs).

Fixpoint names_dedup (seen : list (list N)) (fs : list field) : list (list N) :=
  match fs with
  | [] => []
  | f :: r =>
      if existsb (list_N_eqb (fst f)) seen then names_dedup seen r
      else fst f :: names_dedup (fst f :: seen) r
  end.

Definition hm_order (fs : list field) : list field :=
  flat_map (fun n => filter (fun f => list_N_eqb (fst f) n) fs) (names_dedup [] fs).

(* ===================== messages handed to the application ===================== *)

Record request := mk_request {
  rq_method : list N;
  rq_scheme : option (list N);
  rq_authority : option (list N);
  rq_path : option (list N);
  rq_protocol : option (list N);
  rq_fields : list field
}.

Record response := mk_response { rs_status : N; rs_fields : list field }.

Inductive message :=
| MRequest (r : request)
| MResponse (r : response)
| MInfo (r : response)
| MPushed (r : request)
| MTrailers (fs : list field).

Definition status_num (v : list N) : N :=
  match v with
  | [a; b; c] => (a - 48) * 100 + (b - 48) * 10 + (c - 48)
  | _ => 0
  end.

(* Pseudo::is_informational: StatusCode::is_informational = 100 <= code < 200 *)
Definition ps_informational (p : pseudo) : bool :=
  match p_status p with
  | Some v => (100 <=? status_num v) && (status_num v <? 200)
  | None => false
  end.

(* the three http-crate syntax checks, on the values this block carries *)
Record verdicts := mk_verdicts { v_authority : bool; v_scheme : bool; v_path : bool }.

(* http::Uri::from_parts *)
Definition uri_from_parts_ok (scheme authority path : bool) : bool :=
  if scheme then authority && path
  else negb (authority && path).

(* server::Peer::convert_poll_message *)
Definition convert_request (v : verdicts) (ps : pseudo) (fields : list field) : option request :=
  match p_method ps with
  | None => None                                                     (* missing method *)
  | Some m =>
    let is_connect := list_N_eqb m (bstr "CONNECT") in
    let has_protocol := is_some (p_protocol ps) in
    if has_protocol && negb is_connect then None                     (* :protocol on non-CONNECT *)
    else if is_some (p_status ps) then None                          (* :status field on request *)
    else if is_some (p_authority ps) && negb (v_authority v) then None
    else if is_connect && negb has_protocol && negb (is_some (p_authority ps)) then None
    else if (match p_scheme ps with
             | Some _ => (is_connect && negb has_protocol) || negb (v_scheme v)
             | None => negb is_connect || has_protocol               (* missing scheme *)
             end) then None
    else if (match p_path ps with
             | Some p => (is_connect && negb has_protocol) || (lenN p =? 0) || negb (v_path v)
             | None => negb is_connect || has_protocol               (* missing path *)
             end) then None
    else if negb (uri_from_parts_ok (is_some (p_scheme ps) && is_some (p_authority ps))
                                    (is_some (p_authority ps)) (is_some (p_path ps))) then None
    else Some (mk_request m (if is_some (p_authority ps) then p_scheme ps else None)
                          (p_authority ps) (p_path ps) (p_protocol ps) (hm_order fields))
  end.

(* client::Peer::convert_poll_message *)
Definition convert_response (ps : pseudo) (fields : list field) : option response :=
  if is_some (p_method ps) || is_some (p_scheme ps) || is_some (p_authority ps) ||
     is_some (p_path ps) || is_some (p_protocol ps) then None
  else Some (mk_response (match p_status ps with Some s => status_num s | None => 200 end)
                         (hm_order fields)).

(* ===================== what happens to one frame ===================== *)

Inductive outcome :=
| Deliver (m : message)      (* queued for the application *)
| StreamError                (* Error::library_reset(stream, PROTOCOL_ERROR) *)
| ConnError (code : N)       (* Error::library_go_away(code) *)
| Respond431                 (* server answers 431 itself and resets the stream *)
| Ignore.

(* stream.content_length *)
Inductive clen := CLOmitted | CLHead | CLRemaining (n : N).

(* frame.pseudo().status.map_or(true, |status| status != 204 && status != 304) *)
Definition status_not_204_304 (p : pseudo) : bool :=
  match p_status p with
  | Some v => negb (status_num v =? 204) && negb (status_num v =? 304)
  | None => true
  end.

Definition cl_name : list N := bstr "content-length".

(* the content-length part of Recv::recv_headers; None = stream error *)
Definition head_content_length (cl : clen) (eos : bool) (b : block) : option clen :=
  match cl with
  | CLHead => Some cl
  | _ =>
    match first_value cl_name (b_fields b) with
    | None => Some cl
    | Some v =>
      match parse_u64 v with
      | None => None                                                  (* could not parse *)
      | Some n =>
        if existsb (fun w => negb (opt_N_eqb (parse_u64 w) (Some n))) (all_values cl_name (b_fields b))
        then None                                                     (* conflicting values *)
        else if eos && (0 <? n) && status_not_204_304 (b_pseudo b) then None
        else Some (CLRemaining n)
      end
    end
  end.

(* Recv::recv_headers (the stream is in a state that awaits headers).
   Result: outcome, new content_length, whether State::recv_open has run (END_STREAM of this
   frame has then already closed the receive half). *)
Definition recv_head (r : role) (ext : bool) (cl : clen) (eos : bool) (v : verdicts) (b : block)
  : outcome * clen * bool :=
  if ps_informational (b_pseudo b) && eos then (StreamError, cl, false)
  else
    match head_content_length cl eos b with
    | None => (StreamError, cl, true)
    | Some cl' =>
      if b_over b then ((match r with Server => Respond431 | Client => StreamError end), cl', true)
      else if is_some (p_protocol (b_pseudo b)) && (match r with Server => negb ext | Client => false end)
      then (StreamError, cl', true)
      else if is_some (p_status (b_pseudo b)) && (match r with Server => true | Client => false end)
      then (StreamError, cl', true)
      else
        match r with
        | Server =>
            match convert_request v (b_pseudo b) (b_fields b) with
            | None => (StreamError, cl', true)
            | Some rq => (Deliver (MRequest rq), cl', true)
            end
        | Client =>
            match convert_response (b_pseudo b) (b_fields b) with
            | None => (StreamError, cl', true)
            | Some rs =>
                (Deliver (if ps_informational (b_pseudo b) then MInfo rs else MResponse rs), cl', true)
            end
        end
    end.

Definition ensure_content_length_zero (cl : clen) : bool :=
  match cl with CLRemaining n => n =? 0 | _ => true end.

(* Inner::recv_headers (not awaiting headers) + Recv::recv_trailers; the bool: State::recv_close
   has run *)
Definition recv_trailers (cl : clen) (eos : bool) (b : block) : outcome * bool :=
  if negb eos then (StreamError, false)                               (* trailers frame was not EOS *)
  else if negb (ensure_content_length_zero cl) then (StreamError, false)   (* checked before recv_close since fix 1441ad2 *)
  else (Deliver (MTrailers (hm_order (b_fields b))), true).            (* frame.into_fields(): pseudo dropped *)

(* PushPromise::validate_request *)
Definition validate_push (rq_method_v : list N) (fields : list field) : bool :=
  (match first_value cl_name fields with
   | Some v => opt_N_eqb (parse_u64 v) (Some 0)
   | None => true
   end) &&
  (list_N_eqb rq_method_v (bstr "GET") || list_N_eqb rq_method_v (bstr "HEAD")).

(* Recv::recv_push_promise *)
Definition recv_push (v : verdicts) (b : block) : outcome :=
  if b_over b then StreamError
  else
    match convert_request v (b_pseudo b) (b_fields b) with
    | None => StreamError
    | Some rq => if validate_push (rq_method rq) (b_fields b) then Deliver (MPushed rq) else StreamError
    end.

(* Stream::dec_content_length *)
Definition dec_content_length (cl : clen) (len : N) : option clen :=
  match cl with
  | CLRemaining rem => if len <=? rem then Some (CLRemaining (rem - len)) else None
  | CLHead => if len =? 0 then Some CLHead else None
  | CLOmitted => Some CLOmitted
  end.

(* the content-length part of Recv::recv_data *)
Inductive data_res :=
| DAccept (cl : clen) (closed : bool) (event : bool)   (* event: an Event::Data is queued *)
| DStreamError.

Definition recv_data_cl (cl : clen) (len : N) (eos : bool) : data_res :=
  match dec_content_length cl len with
  | None => DStreamError                                              (* content-length overflow *)
  | Some cl' =>
      if eos then (if ensure_content_length_zero cl' then DAccept cl' true true
                   else DStreamError)                                 (* content-length underflow *)
      else DAccept cl' false (negb (len =? 0))
  end.

(* a whole body: DATA frames (payload length, END_STREAM) after the head *)
Inductive body_end := BClean | BError | BOpen.

Fixpoint run_data (cl : clen) (ds : list (N * bool)) : body_end :=
  match ds with
  | [] => BOpen
  | (len, eos) :: r =>
      match recv_data_cl cl len eos with
      | DStreamError => BError
      | DAccept cl' closed _ => if closed then BClean else run_data cl' r
      end
  end.

(* the block-level decision: codec (framed_read.rs) + stream layer, for each way a block can be
   handed to the application *)
Definition of_load (max : N) (fs : list field) (k : block -> outcome) : outcome :=
  match load max fs with
  | LHpack => ConnError 1
  | LWayTooLarge => ConnError 11
  | LMalformed => StreamError
  | LOk b => k b
  end.

Definition model_head (r : role) (ext : bool) (max : N) (cl : clen) (eos : bool) (v : verdicts)
  (fs : list field) : outcome :=
  of_load max fs (fun b => fst (fst (recv_head r ext cl eos v b))).

Definition model_trailers (max : N) (cl : clen) (eos : bool) (fs : list field) : outcome :=
  of_load max fs (fun b => fst (recv_trailers cl eos b)).

Definition model_push (r : role) (max : N) (v : verdicts) (fs : list field) : outcome :=
  of_load max fs (fun b => match r with Client => recv_push v b | Server => ConnError 1 end).

(* the three ways, by the kind the application would see *)
Definition model_recv (r : role) (k : kind) (ext : bool) (max : N) (cl : clen) (eos : bool) (v : verdicts)
  (fs : list field) : outcome :=
  match k with
  | Request | Response | Informational => model_head r ext max cl eos v fs
  | PushedRequest => model_push r max v fs
  | Trailers => model_trailers max cl eos fs
  end.

(* as which kind the model hands a message over *)
Definition delivers (k : kind) (o : outcome) : bool :=
  match o, k with
  | Deliver (MRequest _), Request => true
  | Deliver (MResponse _), Response => true
  | Deliver (MInfo _), Informational => true
  | Deliver (MPushed _), PushedRequest => true
  | Deliver (MTrailers _), Trailers => true
  | _, _ => false
  end.

(* ===================== send side ===================== *)

(* Send::check_headers: true = Ok(()) *)
Definition check_headers (fields : list field) : bool :=
  negb (existsb (fun f => conn_specific_name (fst f)) fields) &&
  negb (existsb te_not_trailers fields).

Definition opt_field (n : string) (v : option (list N)) : list field :=
  match v with Some x => [(bstr n, x)] | None => [] end.

(* Pseudo::request + client::Peer::convert_send_message (protocol = None), then the order of
   frame::headers::Iter.  The URI is given by its parts (http::uri::Parts); [h2] = the request's
   version is HTTP/2.  None = UserError *)
Definition send_request_pseudo (method : list N) (u_scheme u_authority u_path : option (list N)) (h2 : bool)
  : option pseudo :=
  let is_connect := list_N_eqb method (bstr "CONNECT") in
  let path :=
    if is_connect then None
    else Some (match u_path with
               | Some p => if lenN p =? 0 then (if list_N_eqb method (bstr "OPTIONS") then bstr "*" else bstr "/") else p
               | None => if list_N_eqb method (bstr "OPTIONS") then bstr "*" else bstr "/"
               end) in
  let scheme := if is_connect then None else u_scheme in
  match scheme, u_authority with
  | None, None => if h2 then None                                     (* MissingUriSchemeAndAuthority *)
                  else Some (mk_pseudo (Some method) (Some (bstr "http")) None path None None)
  | _, _ => Some (mk_pseudo (Some method) scheme u_authority path None None)
  end.

Definition pseudo_fields (p : pseudo) : list field :=
  opt_field ":method" (p_method p) ++ opt_field ":scheme" (p_scheme p) ++
  opt_field ":authority" (p_authority p) ++ opt_field ":path" (p_path p) ++
  opt_field ":protocol" (p_protocol p) ++ opt_field ":status" (p_status p).

Definition send_request (method : list N) (u_scheme u_authority u_path : option (list N)) (h2 : bool)
  (fields : list field) : option (list field) :=
  match send_request_pseudo method u_scheme u_authority u_path h2 with
  | None => None
  | Some p => if check_headers fields then Some (pseudo_fields p ++ hm_order fields) else None
  end.

(* server::Peer::convert_push_message + Send::send_push_promise: Pseudo::request only *)
Definition push_request_pseudo (method : list N) (u_scheme u_authority u_path : option (list N)) : pseudo :=
  let is_connect := list_N_eqb method (bstr "CONNECT") in
  let path :=
    if is_connect then None
    else Some (match u_path with
               | Some p => if lenN p =? 0 then (if list_N_eqb method (bstr "OPTIONS") then bstr "*" else bstr "/") else p
               | None => if list_N_eqb method (bstr "OPTIONS") then bstr "*" else bstr "/"
               end) in
  mk_pseudo (Some method) (if is_connect then None else u_scheme) u_authority path None None.

Definition send_push (method : list N) (u_scheme u_authority u_path : option (list N))
  (fields : list field) : option (list field) :=
  if validate_push method fields && check_headers fields
  then Some (pseudo_fields (push_request_pseudo method u_scheme u_authority u_path) ++ hm_order fields)
  else None.

Definition digits3 (n : N) : list N := [48 + n / 100; 48 + (n / 10) mod 10; 48 + n mod 10].

(* server::Peer::convert_send_message + Send::send_headers (also interim responses) *)
Definition send_response (status : N) (fields : list field) : option (list field) :=
  if check_headers fields then Some ((bstr ":status", digits3 status) :: hm_order fields) else None.

(* SendStream::send_trailers *)
Definition send_trailers (fields : list field) : option (list field) :=
  if check_headers fields then Some (hm_order fields) else None.

(* ===================== one stream, frame by frame ===================== *)

(* receive half as the frames see it *)
Inductive rstate :=
| RAwait                     (* Idle / Open{remote: AwaitingHeaders} / HalfClosedLocal(AwaitingHeaders) *)
| RStreaming                 (* remote: Streaming *)
| RClosed                    (* END_STREAM received *)
| RGone                      (* closed in both directions, unlinked, then reset by a stray frame *)
| RDone                      (* server: closed in both directions by its own 431 answer, unlinked *)
| RError (goaway : bool) (code : N).   (* Closed(Cause::Error(..)) / ScheduledLibraryReset *)

Inductive frame :=
| FHeaders (fs : list field) (eos : bool) (v : verdicts)
| FData (len : N) (eos : bool)
| FPush (fs : list field) (v : verdicts).

(* stream.pending_recv *)
Inductive event :=
| EHead (m : message)        (* Event::Headers / Event::InformationalHeaders *)
| EData (len : N)
| ETrailers (fs : list field).

Record config := mk_config { c_role : role; c_head : bool; c_ext : bool; c_max : N }.

Record sstate := mk_sstate {
  s_recv : rstate;
  s_cl : clen;
  s_queue : list event;
  s_pushq : list request;    (* pending_push_promises *)
  s_conn : option N;         (* GOAWAY written (connection error) *)
  s_rst : list (N * N);      (* RST_STREAM written: (stream, code) *)
  s_431 : bool;              (* the library answered 431 *)
  s_promised : N;            (* id the next PUSH_PROMISE of the script promises *)
  s_scope : bool             (* false: the script left what is modelled *)
}.

Definition sstate0 (c : config) : sstate :=
  mk_sstate RAwait (if c_head c then CLHead else CLOmitted) [] [] None [] false 2 true.

Definition with_recv (s : sstate) (r : rstate) : sstate :=
  mk_sstate r (s_cl s) (s_queue s) (s_pushq s) (s_conn s) (s_rst s) (s_431 s) (s_promised s) (s_scope s).
Definition with_cl (s : sstate) (cl : clen) : sstate :=
  mk_sstate (s_recv s) cl (s_queue s) (s_pushq s) (s_conn s) (s_rst s) (s_431 s) (s_promised s) (s_scope s).
Definition enqueue (s : sstate) (e : event) : sstate :=
  mk_sstate (s_recv s) (s_cl s) (s_queue s ++ [e]) (s_pushq s) (s_conn s) (s_rst s) (s_431 s) (s_promised s) (s_scope s).
Definition enqueue_push (s : sstate) (r : request) : sstate :=
  mk_sstate (s_recv s) (s_cl s) (s_queue s) (s_pushq s ++ [r]) (s_conn s) (s_rst s) (s_431 s) (s_promised s) (s_scope s).
Definition add_rst (s : sstate) (sid code : N) : sstate :=
  mk_sstate (s_recv s) (s_cl s) (s_queue s) (s_pushq s) (s_conn s) (s_rst s ++ [(sid, code)]) (s_431 s) (s_promised s) (s_scope s).
Definition set_431 (s : sstate) : sstate :=
  mk_sstate (s_recv s) (s_cl s) (s_queue s) (s_pushq s) (s_conn s) (s_rst s) true (s_promised s) (s_scope s).
Definition next_promised (s : sstate) : sstate :=
  mk_sstate (s_recv s) (s_cl s) (s_queue s) (s_pushq s) (s_conn s) (s_rst s) (s_431 s) (s_promised s + 2) (s_scope s).
Definition out_of_scope (s : sstate) : sstate :=
  mk_sstate (s_recv s) (s_cl s) (s_queue s) (s_pushq s) (s_conn s) (s_rst s) (s_431 s) (s_promised s) false.

(* Connection::poll on a connection error: GOAWAY, every stream that is not closed gets the error *)
Definition conn_error (s : sstate) (code : N) : sstate :=
  mk_sstate (match s_recv s with RAwait | RStreaming => RError true code | r => r end)
            (s_cl s) (s_queue s) (s_pushq s) (Some code) (s_rst s) (s_431 s) (s_promised s) (s_scope s).

Definition is_client (c : config) : bool := match c_role c with Client => true | Server => false end.

(* a locally detected stream error on stream 1: the state becomes reset; RST_STREAM is written
   unless the stream is already closed in both directions (client: the request has END_STREAM) *)
Definition stream_error (c : config) (s : sstate) (closed_by_this_frame : bool) : sstate :=
  let s1 := with_recv s (RError false 1) in
  if is_client c && closed_by_this_frame then s1 else add_rst s1 1 1.

(* Error::library_reset(stream 1, PROTOCOL_ERROR) raised by the codec for a malformed block *)
Definition codec_reset (c : config) (s : sstate) : sstate :=
  match s_recv s with
  | RError _ _ | RGone => s
  | RClosed => if is_client c then add_rst (with_recv s RGone) 1 1 else add_rst (with_recv s (RError false 1)) 1 1
  | RDone => add_rst (with_recv s RGone) 1 1
  | RAwait | RStreaming => add_rst (with_recv s (RError false 1)) 1 1
  end.

Definition step_headers (c : config) (s : sstate) (fs : list field) (eos : bool) (v : verdicts) : sstate :=
  match load (c_max c) fs with
  | LHpack => conn_error s 1
  | LWayTooLarge => conn_error s 11
  | LMalformed => codec_reset c s
  | LOk b =>
    match s_recv s with
    | RError _ _ | RGone => s                                         (* is_local_error: ignored *)
    | RAwait =>
        match recv_head (c_role c) (c_ext c) (s_cl s) eos v b with
        | (Deliver m, cl', _) =>
            with_recv (enqueue (with_cl s cl') (EHead m))
                      (if eos then RClosed
                       else match m with MInfo _ => RAwait | _ => RStreaming end)
        | (StreamError, cl', opened) => stream_error c (with_cl s cl') (opened && eos)
        | (Respond431, cl', _) =>
            (* send_headers(431, END_STREAM) then schedule_implicit_reset, which does nothing when the
               request's END_STREAM has already closed the stream *)
            if eos then set_431 (with_recv (with_cl s cl') RDone)
            else add_rst (set_431 (with_recv (with_cl s cl') (RError false 1))) 1 1
        | (ConnError code, _, _) => conn_error s code
        | (Ignore, _, _) => s
        end
    | RStreaming =>
        match recv_trailers (s_cl s) eos b with
        | (Deliver (MTrailers t), _) => with_recv (enqueue s (ETrailers t)) RClosed
        | (Deliver _, _) => out_of_scope s
        | (StreamError, closed) => stream_error c s closed
        | (_, _) => out_of_scope s
        end
    | RClosed =>
        if is_client c then add_rst (with_recv s RGone) 1 5           (* forgotten stream: STREAM_CLOSED *)
        else if eos then conn_error s 1                               (* recv_close in unexpected state *)
        else stream_error c s false
    | RDone => conn_error s 1                                         (* Recv::open: id < next_stream_id *)
    end
  end.

Definition step_data (c : config) (s : sstate) (len : N) (eos : bool) : sstate :=
  match s_recv s with
  | RError _ _ | RGone => s
  | RAwait => conn_error s 1                                          (* unexpected DATA frame *)
  | RClosed => if is_client c then add_rst (with_recv s RGone) 1 5 else conn_error s 1
  | RDone => add_rst (with_recv s RGone) 1 5                          (* may_have_forgotten_stream *)
  | RStreaming =>
      match recv_data_cl (s_cl s) len eos with
      | DStreamError => stream_error c s false
      | DAccept cl' closed ev =>
          let s1 := with_cl s cl' in
          let s2 := if ev then enqueue s1 (EData len) else s1 in
          with_recv s2 (if closed then RClosed else RStreaming)
      end
  end.

Definition step_push (c : config) (s0 : sstate) (fs : list field) (v : verdicts) : sstate :=
  let pid := s_promised s0 in
  let s := next_promised s0 in
  (* an empty fragment is accepted since fix bd8c9ba (PushPromise::load needs the 4 octets of the promised id only) *)
    match load (c_max c) fs with
    | LHpack => conn_error s 1
    | LWayTooLarge => conn_error s 11
    | LMalformed => codec_reset c s                                   (* resets the PARENT stream *)
    | LOk b =>
      match s_recv s with
      | RError _ _ | RGone =>                                         (* is_local_error: the promised stream is refused *)
          if is_client c then add_rst s pid 8 else conn_error s 1     (* (fix 631577b); server: push is disabled *)
      | RClosed | RDone => conn_error s 1                             (* initiating stream is not open *)
      | RAwait | RStreaming =>
          if negb (is_client c) then conn_error s 1                   (* server: stream unknown / push is disabled *)
          else
            match recv_push v b with
            | Deliver (MPushed rq) => enqueue_push s rq
            | StreamError => add_rst s pid 1
            | _ => out_of_scope s
            end
      end
    end.

Definition step (c : config) (s : sstate) (f : frame) : sstate :=
  match s_conn s with
  | Some _ => s                                                       (* the connection is gone *)
  | None =>
      match f with
      | FHeaders fs eos v => step_headers c s fs eos v
      | FData len eos => step_data c s len eos
      | FPush fs v => step_push c s fs v
      end
  end.

(* ---------- the application of the harness: polls everything after every frame ---------- *)

Inductive endres := ENone | EErr (goaway : bool) (code : N).

Inductive aev :=
| AAccept (r : request) | AAcceptEnd (e : endres)
| APush (r : request) | APushEnd (e : endres)
| AInfo (r : response) | AResp (r : response) | ARespErr (e : endres)
| AData (n : N) | ADataEnd (e : endres)
| ATrailers (fs : list field) | ATrailersEnd (e : endres).

Record appst := mk_app { a_accept_done : bool; a_resp_done : bool; a_push_done : bool; a_body : bool; a_body_done : bool }.
Definition app0 : appst := mk_app false false false false false.

(* State::ensure_recv_open when nothing is queued: None = still open (Pending) *)
Definition stream_end (r : rstate) : option endres :=
  match r with
  | RAwait | RStreaming => None
  | RClosed | RGone | RDone => Some ENone
  | RError g code => Some (EErr g code)
  end.

Fixpoint take_infos (q : list event) : list aev * list event :=
  match q with
  | EHead (MInfo r) :: q' => let (a, rest) := take_infos q' in (AInfo r :: a, rest)
  | _ => ([], q)
  end.

Fixpoint take_data (q : list event) : list aev * list event :=
  match q with
  | EData n :: q' => let (a, rest) := take_data q' in (AData n :: a, rest)
  | _ => ([], q)
  end.

Definition with_queue (s : sstate) (q : list event) : sstate :=
  mk_sstate (s_recv s) (s_cl s) q (s_pushq s) (s_conn s) (s_rst s) (s_431 s) (s_promised s) (s_scope s).
Definition clear_pushq (s : sstate) : sstate :=
  mk_sstate (s_recv s) (s_cl s) (s_queue s) [] (s_conn s) (s_rst s) (s_431 s) (s_promised s) (s_scope s).

(* RecvStream: poll_data until it stops, then poll_trailers *)
Definition drain_body (s : sstate) (a : appst) : sstate * appst * list aev :=
  if a_body a && negb (a_body_done a) then
    let (ds, q) := take_data (s_queue s) in
    match q with
    | ETrailers t :: q' =>
        (with_queue s q', mk_app (a_accept_done a) (a_resp_done a) (a_push_done a) true true,
         ds ++ [ADataEnd ENone; ATrailers t])
    | _ :: _ => (out_of_scope s, a, ds)
    | [] =>
        match stream_end (s_recv s) with
        | None => (with_queue s [], a, ds)
        | Some ENone =>
            (with_queue s [], mk_app (a_accept_done a) (a_resp_done a) (a_push_done a) true true,
             ds ++ [ADataEnd ENone; ATrailersEnd ENone])
        | Some e =>
            (with_queue s [], mk_app (a_accept_done a) (a_resp_done a) (a_push_done a) true true,
             ds ++ [ADataEnd e])
        end
    end
  else (s, a, []).

Definition drain (c : config) (has_pushes : bool) (s : sstate) (a : appst) : sstate * appst * list aev :=
  let '(s1, a1, ev1) :=
    match c_role c with
    | Server =>
        if a_accept_done a then (s, a, [])
        else
          match s_conn s with
          | Some code => (s, mk_app true (a_resp_done a) (a_push_done a) (a_body a) (a_body_done a),
                          [AAcceptEnd (EErr true code)])
          | None =>
              match s_queue s with
              | EHead (MRequest rq) :: q' =>
                  (with_queue s q', mk_app true (a_resp_done a) (a_push_done a) true false, [AAccept rq])
              | _ => (s, a, [])
              end
          end
    | Client =>
        (* PushPromises::poll_push_promise *)
        let '(sp, ap, evp) :=
          if has_pushes && negb (a_push_done a) then
            let evs := map APush (s_pushq s) in
            match stream_end (s_recv s) with
            | None => (clear_pushq s, a, evs)
            | Some e => (clear_pushq s, mk_app (a_accept_done a) (a_resp_done a) true (a_body a) (a_body_done a),
                         evs ++ [APushEnd e])
            end
          else (s, a, []) in
        (* poll_informational*, then the response future *)
        if a_resp_done ap then (sp, ap, evp)
        else
          let (infos, q) := take_infos (s_queue sp) in
          match q with
          | EHead (MResponse rs) :: q' =>
              (with_queue sp q', mk_app (a_accept_done ap) true (a_push_done ap) true false,
               evp ++ infos ++ [AResp rs])
          | _ :: _ => (out_of_scope sp, ap, evp ++ infos)
          | [] =>
              match stream_end (s_recv sp) with
              | None => (with_queue sp [], ap, evp ++ infos)
              | Some ENone =>                                          (* "stream is not opened" *)
                  (with_queue sp [], mk_app (a_accept_done ap) true (a_push_done ap) (a_body ap) (a_body_done ap),
                   evp ++ infos ++ [ARespErr (EErr false 1)])
              | Some e =>
                  (with_queue sp [], mk_app (a_accept_done ap) true (a_push_done ap) (a_body ap) (a_body_done ap),
                   evp ++ infos ++ [ARespErr e])
              end
          end
    end in
  let '(s2, a2, ev2) := drain_body s1 a1 in
  (s2, a2, ev1 ++ ev2).

Fixpoint run (c : config) (has_pushes : bool) (s : sstate) (a : appst) (fs : list frame)
  : sstate * list (list aev) :=
  match fs with
  | [] => (s, [])
  | f :: r =>
      let '(s1, a1, ev) := drain c has_pushes (step c s f) a in
      let (s2, evs) := run c has_pushes s1 a1 r in
      (s2, ev :: evs)
  end.

(* ===================== correspondence checks ===================== *)

Definition request_eqb (a b : request) : bool :=
  list_N_eqb (rq_method a) (rq_method b) && opt_bytes_eqb (rq_authority a) (rq_authority b) &&
  opt_bytes_eqb (rq_protocol a) (rq_protocol b) && fields_eqb (rq_fields a) (rq_fields b).

Definition response_eqb (a b : response) : bool :=
  (rs_status a =? rs_status b) && fields_eqb (rs_fields a) (rs_fields b).

Definition endres_eqb (a b : endres) : bool :=
  match a, b with
  | ENone, ENone => true
  | EErr g1 c1, EErr g2 c2 => Bool.eqb g1 g2 && (c1 =? c2)
  | _, _ => false
  end.

Definition aev_eqb (a b : aev) : bool :=
  match a, b with
  | AAccept x, AAccept y => request_eqb x y
  | AAcceptEnd x, AAcceptEnd y => endres_eqb x y
  | APush x, APush y => request_eqb x y
  | APushEnd x, APushEnd y => endres_eqb x y
  | AInfo x, AInfo y => response_eqb x y
  | AResp x, AResp y => response_eqb x y
  | ARespErr x, ARespErr y => endres_eqb x y
  | AData x, AData y => x =? y
  | ADataEnd x, ADataEnd y => endres_eqb x y
  | ATrailers x, ATrailers y => fields_eqb x y
  | ATrailersEnd x, ATrailersEnd y => endres_eqb x y
  | _, _ => false
  end.

Fixpoint list_eqb {A} (eq : A -> A -> bool) (a b : list A) : bool :=
  match a, b with
  | [], [] => true
  | x :: a', y :: b' => eq x y && list_eqb eq a' b'
  | _, _ => false
  end.

Definition is_push_frame (f : frame) : bool := match f with FPush _ _ => true | _ => false end.

(* what the harness observed: events per frame, RST_STREAM list, GOAWAY code, 431 written *)
Definition recv_obs : Type := (list (list aev) * list (N * N) * option N * bool)%type.
Definition recv_case : Type := (config * list frame * recv_obs)%type.

Definition pairN_eqb (a b : N * N) : bool := (fst a =? fst b) && (snd a =? snd b).

Definition model_obs (c : config) (fs : list frame) : option recv_obs :=
  let (s, evs) := run c (existsb is_push_frame fs) (sstate0 c) app0 fs in
  if s_scope s then Some (evs, s_rst s, s_conn s, s_431 s) else None.

Definition check_http_recv (x : recv_case) : bool :=
  let '(c, fs, (evs, rst, goaway, w431)) := x in
  match model_obs c fs with
  | None => false
  | Some (evs', rst', goaway', w431') =>
      list_eqb (list_eqb aev_eqb) evs' evs && list_eqb pairN_eqb rst' rst &&
      opt_N_eqb goaway' goaway && Bool.eqb w431' w431
  end.

(* diagnosis of a failing case: 1 out of scope, 2 events, 3 rst, 4 goaway, 5 431; 0 = agrees *)
Definition diag_http_recv (x : recv_case) : N :=
  let '(c, fs, (evs, rst, goaway, w431)) := x in
  match model_obs c fs with
  | None => 1
  | Some (evs', rst', goaway', w431') =>
      if negb (list_eqb (list_eqb aev_eqb) evs' evs) then 2
      else if negb (list_eqb pairN_eqb rst' rst) then 3
      else if negb (opt_N_eqb goaway' goaway) then 4
      else if negb (Bool.eqb w431' w431) then 5 else 0
  end.

(* send side: api 0 send_request, 1 send_response, 2 send_informational, 3 send_trailers,
   4 push_request; the URI by its parts; observed: the block on the wire or None (refused) *)
Definition send_case : Type :=
  (N * list N * (option (list N) * option (list N) * option (list N)) * N * list field * option (list field))%type.

Definition model_send (api : N) (method : list N) (u : option (list N) * option (list N) * option (list N))
  (status : N) (fields : list field) : option (list field) :=
  let '(us, ua, up) := u in
  if api =? 0 then send_request method us ua up false fields
  else if api =? 1 then send_response status fields
  else if api =? 2 then send_response status fields
  else if api =? 3 then send_trailers fields
  else send_push method us ua up fields.

Definition check_http_send (x : send_case) : bool :=
  let '(api, method, u, status, fields, wire) := x in
  match model_send api method u status fields, wire with
  | None, None => true
  | Some a, Some b => fields_eqb a b
  | _, _ => false
  end.
