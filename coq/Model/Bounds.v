(* C18: the quantities a peer can grow and the admission decisions that cap them.

   Part A  the DATA-frame budget of counts.rs (Budget, record_data_frame, release_data_frame), with the buffered
           budgeted DATA events as a ghost list;
   Part B  the admission decisions of recv.rs / streams.rs as runs of the (lock-stepped) Counts model:
           Recv::open (refuse beyond the concurrency limit), Recv::recv_reset on a pending-accept stream (quota, else
           GOAWAY ENHANCE_YOUR_CALM), Recv::enqueue_reset_expiration (quota, else the reset stream is not remembered),
           Actions::reset_on_recv_stream_err / send_reset (lifetime quota of library resets, else GOAWAY ENHANCE_YOUR_CALM);
   Part C  a connection-level model of the peer's moves over these decisions, with the two quantities for which the code has
           NO cap (reserved pushed streams, queued interim responses) as plain counters;
   Part D  the bound function B and the classification of stored records. *)
From H2V Require Import Base.Tac Model.Counts.
Local Open Scope N_scope.

(* ---------------------------------------------------------------- Part A: data-frame budget *)
Definition DF_T : N := 256.          (* DEFAULT_DATA_FRAME_OVERHEAD_THRESHOLD *)
Definition MAX_EMPTY : N := 100.     (* MAX_RECV_EMPTY_DATA_FRAMES *)

Record dstate := mkD {
  d_avail : N; d_max : N;            (* Budget *)
  d_empty : N;                       (* num_recv_empty_data_frames *)
  d_buf : list N;                    (* ghost: payload lengths of the buffered non-final DATA events *)
  d_repl : N;                        (* ghost: total replenished by large frames (sum of len - 256) *)
  d_failed : bool                    (* the budget was exhausted: the connection has been failed with GOAWAY *)
}.

Inductive dlabel := DRecord (len : N) | DRelease (len : N).
Inductive dout := DOk | DExhausted.   (* DExhausted = Err(BudgetExhausted) -> GOAWAY(ENHANCE_YOUR_CALM, "too_many_data_frames") *)

Fixpoint ndel (x : N) (l : list N) : option (list N) :=
  match l with
  | [] => None
  | y :: l' => if x =? y then Some l' else match ndel x l' with Some r => Some (y :: r) | None => None end
  end.

Definition replenish (avail mx amount : N) : N := N.min (avail + amount) mx.

(* Recv::recv_data has already queued the event when Counts::record_data_frame is called *)
Definition dstep (st : dstate) (l : dlabel) : option (dstate * list dout) :=
  match l with
  | DRecord len =>
    let buf := len :: d_buf st in
    if len =? 0 then
      let e := d_empty st + 1 in
      if MAX_EMPTY <? e then Some (mkD (d_avail st) (d_max st) e buf (d_repl st) true, [DExhausted])
      else Some (mkD (d_avail st) (d_max st) e buf (d_repl st) (d_failed st), [DOk])
    else if len <? DF_T then
      let cost := DF_T - len in
      if d_avail st <? cost then Some (mkD (d_avail st) (d_max st) (d_empty st) buf (d_repl st) true, [DExhausted])
      else Some (mkD (d_avail st - cost) (d_max st) (d_empty st) buf (d_repl st) (d_failed st), [DOk])
    else
      Some (mkD (replenish (d_avail st) (d_max st) (len - DF_T)) (d_max st) (d_empty st) buf (d_repl st + (len - DF_T)) (d_failed st), [DOk])
  | DRelease len =>
    match ndel len (d_buf st) with
    | None => None                    (* only a buffered event is released: Stuck *)
    | Some buf =>
      if negb (len =? 0) && (len <? DF_T)
      then Some (mkD (replenish (d_avail st) (d_max st) (DF_T - len)) (d_max st) (d_empty st) buf (d_repl st) (d_failed st), [])
      else Some (mkD (d_avail st) (d_max st) (d_empty st) buf (d_repl st) (d_failed st), [])
    end
  end.

Definition dinit (mx : N) : dstate := mkD mx mx 0 [] 0 false.

Fixpoint drun (st : dstate) (ls : list dlabel) : option dstate :=
  match ls with
  | [] => Some st
  | l :: ls' => match dstep st l with Some (st1, _) => drun st1 ls' | None => None end
  end.

Definition dcost (len : N) : N := if (len =? 0) || negb (len <? DF_T) then 0 else DF_T - len.
Fixpoint buf_cost (l : list N) : N := match l with [] => 0 | x :: l' => dcost x + buf_cost l' end.
Fixpoint count_if (f : N -> bool) (l : list N) : N := match l with [] => 0 | x :: l' => (if f x then 1 else 0) + count_if f l' end.
Definition is_tiny (len : N) : bool := negb (len =? 0) && (len <? DF_T).
Definition is_zero (len : N) : bool := len =? 0.

(* lock-step of Part A: observed (available, empty counter) before each call, observed result *)
Fixpoint dcheck_run (st : dstate) (i : N) (ls : list (dlabel * (N * N) * bool)) : N :=
  match ls with
  | [] => 0
  | (l, (a, e), ok) :: ls' =>
    if negb ((d_avail st =? a) && (d_empty st =? e)) then 10 * (i + 1) + 1
    else match dstep st l with
         | None => 10 * (i + 1) + 3
         | Some (st1, o) =>
           let good := match l, o with
                       | DRecord _, [DOk] => ok
                       | DRecord _, [DExhausted] => negb ok
                       | DRelease _, [] => true
                       | _, _ => false
                       end in
           if good then dcheck_run st1 (i + 1) ls' else 10 * (i + 1) + 2
         end
  end.
Definition check_budget (c : N * list (dlabel * (N * N) * bool)) : bool :=
  let '(mx, ls) := c in dcheck_run (dinit mx) 0 ls =? 0.

(* ---------------------------------------------------------------- Part B: admission decisions over Counts *)
Inductive decision := Admit | Refuse | GoAwayCalm | NotRemembered | Impossible.

(* Recv::open after the stream-id checks: `if !counts.can_inc_num_recv_streams() { self.refused = Some(id); return Ok(None) }` *)
Definition recv_open (st : cstate) : cstate * decision :=
  match cstep st QRecv with
  | COk st1 [CBool true] => (st1, Admit)
  | COk st1 _ => (st1, Refuse)                 (* RST_STREAM(REFUSED_STREAM) owed in the single `refused` slot; no record *)
  | _ => (st, Impossible)
  end.

(* Recv::recv_headers on the admitted record: counts.inc_num_recv_streams (the limit was queried again just before) *)
Definition count_stream (st : cstate) (key : N) : cstate * decision :=
  match cstep st QRecv with
  | COk st1 [CBool true] => match cstep st1 (IncRecv key) with COk st2 _ => (st2, Admit) | _ => (st1, Impossible) end
  | COk st1 _ => (st1, Refuse)                 (* library reset REFUSED_STREAM (pushed stream activated beyond the limit) *)
  | _ => (st, Impossible)
  end.

(* Recv::recv_reset on a stream that is still in pending_accept *)
Definition recv_reset_unaccepted (st : cstate) : cstate * decision :=
  match cstep st QRReset with
  | COk st1 [CBool true] => match cstep st1 IncRReset with COk st2 _ => (st2, Admit) | _ => (st1, Impossible) end
  | COk st1 _ => (st1, GoAwayCalm)             (* Error::library_go_away_data(ENHANCE_YOUR_CALM, "too_many_resets") *)
  | _ => (st, Impossible)
  end.

(* Recv::enqueue_reset_expiration for a locally reset stream that is not yet in the expiry queue *)
Definition enqueue_reset_expiration (st : cstate) : cstate * decision :=
  match cstep st QLReset with
  | COk st1 [CBool true] => match cstep st1 IncLReset with COk st2 _ => (st2, Admit) | _ => (st1, Impossible) end
  | COk st1 _ => (st1, NotRemembered)
  | _ => (st, Impossible)
  end.

(* Actions::reset_on_recv_stream_err / Actions::send_reset(Initiator::Library) *)
Definition library_reset (st : cstate) : cstate * decision :=
  match cstep st QLErr with
  | COk st1 [CBool true] => match cstep st1 IncLErr with COk st2 _ => (st2, Admit) | _ => (st1, Impossible) end
  | COk st1 _ => (st1, GoAwayCalm)             (* GOAWAY(ENHANCE_YOUR_CALM, "too_many_internal_resets") *)
  | _ => (st, Impossible)
  end.

(* ---------------------------------------------------------------- Part C: the peer's moves *)
Record bstate := mkB {
  b_cs : cstate;
  b_resv : N;          (* reserved (promised, not started) records: Inner::recv_push_promise inserts one per frame *)
  b_info : N;          (* queued Event::InformationalHeaders: Recv::recv_headers pushes one per interim HEADERS frame *)
  b_push : bool;       (* Recv.is_push_enabled *)
  b_failed : bool      (* a GOAWAY was decided *)
}.

Inductive bout := BRefused | BGoAway (code : N) | BRst | BNone.

Inductive blabel :=
| BOpen (key : N)              (* HEADERS opening a new peer-initiated stream: open + count *)
| BRstUnaccepted               (* RST_STREAM for a stream the application has not accepted yet *)
| BStreamError                 (* a frame that is a stream error: library reset + expiry queue *)
| BClose (key : N) (o : tobs)  (* a transition_after *)
| BAccept                      (* next_incoming of a remotely reset stream: dec_num_remote_reset_streams *)
| BPushPromise                 (* PUSH_PROMISE on an open stream *)
| BPushPolled                  (* the application takes one promised stream (poll_pushed): it now holds a handle *)
| BInfoHeaders                 (* 1xx HEADERS on an open stream *)
| BInfoPolled.                 (* the application takes one interim response *)

Definition ENHANCE_YOUR_CALM : N := 11.
Definition PROTOCOL_ERROR : N := 1.

Definition with_cs (st : bstate) (c : cstate) : bstate := mkB c (b_resv st) (b_info st) (b_push st) (b_failed st).
Definition fail (st : bstate) (c : cstate) : bstate := mkB c (b_resv st) (b_info st) (b_push st) true.

Definition bstep (st : bstate) (l : blabel) : option (bstate * list bout) :=
  if b_failed st then Some (st, [])          (* a failed connection reads no more frames *)
  else match l with
  | BOpen key =>
    match recv_open (b_cs st) with
    | (c1, Admit) => match count_stream c1 key with
                     | (c2, Admit) => Some (with_cs st c2, [])
                     | (c2, Refuse) => Some (with_cs st c2, [BRst])
                     | _ => None
                     end
    | (c1, Refuse) => Some (with_cs st c1, [BRefused])
    | _ => None
    end
  | BRstUnaccepted =>
    match recv_reset_unaccepted (b_cs st) with
    | (c1, Admit) => Some (with_cs st c1, [])
    | (c1, GoAwayCalm) => Some (fail st c1, [BGoAway ENHANCE_YOUR_CALM])
    | _ => None
    end
  | BStreamError =>
    match library_reset (b_cs st) with
    | (c1, Admit) => match enqueue_reset_expiration c1 with
                     | (c2, Admit) | (c2, NotRemembered) => Some (with_cs st c2, [BRst])
                     | _ => None
                     end
    | (c1, GoAwayCalm) => Some (fail st c1, [BGoAway ENHANCE_YOUR_CALM])
    | _ => None
    end
  | BClose key o =>
    match cstep (b_cs st) (TransitionAfter key o) with
    | COk c1 _ => Some (with_cs st c1, [])
    | _ => None
    end
  | BAccept =>
    match cstep (b_cs st) DecRReset with
    | COk c1 _ => Some (with_cs st c1, [])
    | _ => None
    end
  | BPushPromise =>
    if b_push st then Some (mkB (b_cs st) (b_resv st + 1) (b_info st) (b_push st) (b_failed st), [])   (* no quota of any kind *)
    else Some (fail st (b_cs st), [BGoAway PROTOCOL_ERROR])
  | BPushPolled =>
    if b_resv st =? 0 then None else Some (mkB (b_cs st) (b_resv st - 1) (b_info st) (b_push st) (b_failed st), [])
  | BInfoHeaders => Some (mkB (b_cs st) (b_resv st) (b_info st + 1) (b_push st) (b_failed st), [])    (* no quota of any kind *)
  | BInfoPolled =>
    if b_info st =? 0 then None else Some (mkB (b_cs st) (b_resv st) (b_info st - 1) (b_push st) (b_failed st), [])
  end.

Fixpoint brun (st : bstate) (ls : list blabel) : option bstate :=
  match ls with
  | [] => Some st
  | l :: ls' => match bstep st l with Some (st1, _) => brun st1 ls' | None => None end
  end.

Definition binit (c : cstate) (push : bool) : bstate := mkB c 0 0 push false.

(* ---------------------------------------------------------------- Part D: the bound *)
(* configuration limits as natural numbers (None = no limit configured) *)
Record blimits := mkBL {
  l_max_recv : option N;      (* advertised MAX_CONCURRENT_STREAMS *)
  l_max_send : option N;      (* the peer's MAX_CONCURRENT_STREAMS / initial_max_send_streams *)
  l_max_lreset : N;           (* max_concurrent_reset_streams *)
  l_max_rreset : N;           (* max_pending_accept_reset_streams *)
  l_max_lerr : option N       (* max_local_error_reset_streams *)
}.

Definition osum (a b : option N) : option N := match a, b with Some x, Some y => Some (x + y) | _, _ => None end.

(* B(config, app_held): records the endpoint may keep apart from the reserved pushed streams (known class KF-C18-1) *)
Definition B (l : blimits) (app_held : N) : option N :=
  osum (osum (osum (l_max_recv l) (l_max_send l)) (l_max_lerr l)) (Some (l_max_lreset l + l_max_rreset l + app_held)).

(* a snapshot, classified: every record is put into the first class that applies *)
Record bsnap := mkBS {
  s_held : N;        (* application-attributable: records with a handle (ref_count > 0), and locally initiated records the
                        application queued (pending_open / pending_send) and abandoned before they were counted *)
  s_counted : N;     (* else: occupying a concurrency slot (is_counted) *)
  s_expiring : N;    (* else: awaiting reset expiry *)
  s_unaccepted : N;  (* else: in pending_accept *)
  s_reserved : N;    (* else: known unbounded classes: promised streams that never became active (queued on the parent or being
                        cancelled; KF-C18-1) and records leaked by the eviction from pending_capacity (KF-C19-3) *)
  s_queued : N;      (* else: in a send-side queue with a locally reset state (RST_STREAM owed) *)
  s_other : N;       (* none of the above *)
  s_num_send : N; s_num_recv : N; s_num_lreset : N; s_num_rreset : N; s_num_lerr : N
}.

Definition ole (a : N) (m : option N) : bool := match m with None => true | Some x => a <=? x end.

(* what the classification relies on (evaluated on every snapshot by the correspondence) *)
Definition snap_ok (l : blimits) (s : bsnap) : bool :=
  (s_counted s <=? s_num_send s + s_num_recv s) &&
  ole (s_num_recv s) (l_max_recv l) && ole (s_num_send s) (l_max_send l) &&
  (s_expiring s <=? s_num_lreset s) && (s_num_lreset s <=? l_max_lreset l) &&
  (s_num_rreset s <=? l_max_rreset l) && ole (s_num_lerr s) (l_max_lerr l) &&
  (s_unaccepted s + s_queued s <=? s_num_rreset s + s_num_lerr s) &&
  (s_other s =? 0).

Definition total (s : bsnap) : N :=
  s_held s + s_counted s + s_expiring s + s_unaccepted s + s_reserved s + s_queued s + s_other s.

Definition within (s : bsnap) (l : blimits) : bool :=
  match B l (s_held s) with None => true | Some b => total s - s_reserved s <=? b end.

Definition check_bounds (c : blimits * list bsnap) : bool :=
  let '(l, ss) := c in forallb (fun s => snap_ok l s && within s l) ss.
