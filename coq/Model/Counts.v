(* Model of src/proto/streams/counts.rs: the concurrency counters (num_send_streams,
   num_recv_streams and their limits), the reset counters, and Counts::transition_after, which is
   where every closed stream gives its slot back.

   Labels are the calls of the functions of counts.rs (hooked inside counts.rs itself).  The
   callers' discipline "query can_inc_* and increment only on `true`, with nothing in between" is
   represented by *permits*: a query sets the permit, the matching increment consumes it and is
   Stuck without it (the lock-step correspondence reports it if the implementation ever
   increments without a preceding successful query); any label that changes the counter or its
   limit clears the permit.  Unmodelled stream state (is_closed, reset-expiration membership, ...)
   enters transition_after as observed inputs; theorems quantify over all their values. *)
From H2V Require Import Base.Tac.
Local Open Scope Z_scope.

(* limits: None = usize::MAX (unlimited) *)
Record cstate := mkC {
  max_send : option Z; num_send : Z;
  max_recv : option Z; num_recv : Z;
  max_lreset : Z; num_lreset : Z;          (* locally reset streams kept until expiry *)
  max_rreset : Z; num_rreset : Z;          (* remotely reset pending-accept streams *)
  max_lerr : option Z; num_lerr : Z;       (* lifetime library error resets *)
  p_send : bool; p_recv : bool; p_lreset : bool; p_rreset : bool; p_lerr : bool;   (* permits *)
  counted : list (N * bool)                (* counted records: key, locally initiated? *)
}.

Inductive cout := CBool (b : bool).

Inductive coutcome :=
| COk (st : cstate) (outs : list cout)
| CStuck (n : N)
| CPanic (n : N).

Record tobs := mkT {
  t_closed : bool;              (* stream.is_closed(): state closed, send queue flushed *)
  t_pending_reset : bool;       (* is_pending_reset_expiration() at the call *)
  t_reset_counted : bool;       (* the caller's is_reset_counted argument *)
  t_sched_reset : bool;         (* state.is_scheduled_reset() *)
  t_local : bool                (* peer.is_local_init(id) *)
}.

Inductive clabel :=
| QSend | QRecv | QLReset | QRReset | QLErr
| IncSend (key : N) | IncRecv (key : N)
| IncLReset | IncRReset | DecRReset | IncLErr
| CSettings (max_conc : option Z) (is_initial : bool)
| TransitionAfter (key : N) (o : tobs).

Definition below (num : Z) (max : option Z) : bool :=
  match max with None => true | Some m => num <? m end.

Fixpoint cmem (key : N) (l : list (N * bool)) : bool :=
  match l with [] => false | (k, _) :: l' => N.eqb k key || cmem key l' end.

Fixpoint clook (key : N) (l : list (N * bool)) : option bool :=
  match l with [] => None | (k, b) :: l' => if N.eqb k key then Some b else clook key l' end.

Fixpoint cdel (key : N) (l : list (N * bool)) : list (N * bool) :=
  match l with [] => [] | (k, b) :: l' => if N.eqb k key then l' else (k, b) :: cdel key l' end.

Definition upd_send (st : cstate) (mx : option Z) (n : Z) (c : list (N * bool)) : cstate :=
  mkC mx n (max_recv st) (num_recv st) (max_lreset st) (num_lreset st) (max_rreset st) (num_rreset st)
      (max_lerr st) (num_lerr st) false (p_recv st) (p_lreset st) (p_rreset st) (p_lerr st) c.
Definition upd_recv (st : cstate) (n : Z) (c : list (N * bool)) : cstate :=
  mkC (max_send st) (num_send st) (max_recv st) n (max_lreset st) (num_lreset st) (max_rreset st) (num_rreset st)
      (max_lerr st) (num_lerr st) (p_send st) false (p_lreset st) (p_rreset st) (p_lerr st) c.
Definition upd_lreset (st : cstate) (n : Z) : cstate :=
  mkC (max_send st) (num_send st) (max_recv st) (num_recv st) (max_lreset st) n (max_rreset st) (num_rreset st)
      (max_lerr st) (num_lerr st) (p_send st) (p_recv st) false (p_rreset st) (p_lerr st) (counted st).
Definition upd_rreset (st : cstate) (n : Z) : cstate :=
  mkC (max_send st) (num_send st) (max_recv st) (num_recv st) (max_lreset st) (num_lreset st) (max_rreset st) n
      (max_lerr st) (num_lerr st) (p_send st) (p_recv st) (p_lreset st) false (p_lerr st) (counted st).
Definition upd_lerr (st : cstate) (n : Z) : cstate :=
  mkC (max_send st) (num_send st) (max_recv st) (num_recv st) (max_lreset st) (num_lreset st) (max_rreset st) (num_rreset st)
      (max_lerr st) n (p_send st) (p_recv st) (p_lreset st) (p_rreset st) false (counted st).
Definition set_permits (st : cstate) (a b c d e : bool) : cstate :=
  mkC (max_send st) (num_send st) (max_recv st) (num_recv st) (max_lreset st) (num_lreset st) (max_rreset st) (num_rreset st)
      (max_lerr st) (num_lerr st) a b c d e (counted st).

Definition cstep (st : cstate) (l : clabel) : coutcome :=
  match l with
  | QSend => let b := below (num_send st) (max_send st) in
             COk (set_permits st b (p_recv st) (p_lreset st) (p_rreset st) (p_lerr st)) [CBool b]
  | QRecv => let b := below (num_recv st) (max_recv st) in
             COk (set_permits st (p_send st) b (p_lreset st) (p_rreset st) (p_lerr st)) [CBool b]
  | QLReset => let b := num_lreset st <? max_lreset st in
               COk (set_permits st (p_send st) (p_recv st) b (p_rreset st) (p_lerr st)) [CBool b]
  | QRReset => let b := num_rreset st <? max_rreset st in
               COk (set_permits st (p_send st) (p_recv st) (p_lreset st) b (p_lerr st)) [CBool b]
  | QLErr => let b := below (num_lerr st) (max_lerr st) in
             COk (set_permits st (p_send st) (p_recv st) (p_lreset st) (p_rreset st) b) [CBool b]
  | IncSend key =>
    if negb (p_send st) then CStuck 1
    else if negb (below (num_send st) (max_send st)) then CPanic 1      (* assert!(can_inc_num_send_streams()) *)
    else if cmem key (counted st) then CStuck 9     (* assert!(!stream.is_counted): callers' discipline, checked by the lock-step *)
    else COk (upd_send st (max_send st) (num_send st + 1) ((key, true) :: counted st)) []
  | IncRecv key =>
    if negb (p_recv st) then CStuck 2
    else if negb (below (num_recv st) (max_recv st)) then CPanic 3
    else if cmem key (counted st) then CStuck 10
    else COk (upd_recv st (num_recv st + 1) ((key, false) :: counted st)) []
  | IncLReset =>
    if negb (p_lreset st) then CStuck 3
    else if negb (num_lreset st <? max_lreset st) then CPanic 5
    else COk (upd_lreset st (num_lreset st + 1)) []
  | IncRReset =>
    if negb (p_rreset st) then CStuck 4
    else if negb (num_rreset st <? max_rreset st) then CPanic 6
    else COk (upd_rreset st (num_rreset st + 1)) []
  | DecRReset =>
    if num_rreset st <=? 0 then CStuck 5      (* assert!(num > 0): which records are counted here is not modelled *)
    else COk (upd_rreset st (num_rreset st - 1)) []
  | IncLErr =>
    if negb (p_lerr st) then CStuck 6
    else if negb (below (num_lerr st) (max_lerr st)) then CPanic 7
    else COk (upd_lerr st (num_lerr st + 1)) []
  | CSettings mx is_initial =>
    match mx with
    | Some v => COk (upd_send st (Some v) (num_send st) (counted st)) []
    | None => if is_initial then COk (upd_send st None (num_send st) (counted st)) []
              else COk st []
    end
  | TransitionAfter key o =>
    (* the slot in the locally-reset count is given back as soon as the record has left the
       reset-expiration queue, closed (= RST_STREAM flushed) or not *)
    let r1 :=
      if negb (t_pending_reset o) && t_reset_counted o then
        if num_lreset st <=? 0 then CStuck 7     (* assert!(num_local_reset_streams > 0) *)
        else COk (upd_lreset st (num_lreset st - 1)) []
      else COk st [] in
    match r1 with
    | COk st1 _ =>
      if t_closed o then
        if negb (t_sched_reset o) && cmem key (counted st1) then
          (* dec_num_streams; the side is recomputed from the stream id by the code *)
          if negb (match clook key (counted st1) with Some b => Bool.eqb b (t_local o) | None => false end) then CStuck 8
          else if t_local o then
            if num_send st1 <=? 0 then CPanic 8
            else COk (upd_send st1 (max_send st1) (num_send st1 - 1) (cdel key (counted st1))) []
          else
            if num_recv st1 <=? 0 then CPanic 9
            else COk (upd_recv st1 (num_recv st1 - 1) (cdel key (counted st1))) []
        else COk st1 []
      else COk st1 []
    | r => r
    end
  end.

Definition cinit (ms : option Z) (mr : option Z) (mlr mrr : Z) (mle : option Z) : cstate :=
  mkC ms 0 mr 0 mlr 0 mrr 0 mle 0 false false false false false [].

Fixpoint crun (st : cstate) (ls : list clabel) : option (cstate * list (list cout)) + (N * coutcome) :=
  match ls with
  | [] => inl (Some (st, []))
  | l :: ls' =>
    match cstep st l with
    | COk st1 o =>
      match crun st1 ls' with
      | inl (Some (st2, os)) => inl (Some (st2, o :: os))
      | inl None => inl None
      | inr (k, r) => inr (N.succ k, r)
      end
    | r => inr (0%N, r)
    end
  end.

(* ---------------------------------------------------------------------------------------------
   Correspondence: observed pre-state (the ten counters; -1 encodes unlimited/None) before each label,
   observed query results, and whether the record was observed counted. *)

Definition optz_eqb (o : option Z) (v : Z) : bool :=
  match o with None => v =? -1 | Some x => x =? v end.

Record cexpect := mkCE {
  ce_c : option (Z * Z * Z * Z * Z * Z * Z * Z * Z * Z);
  ce_counted : option (N * bool);
  ce_outs : option (list cout)
}.

Definition ccheck_pre (st : cstate) (e : cexpect) : bool :=
  (match ce_c e with
   | None => true
   | Some (a1, a2, a3, a4, a5, a6, a7, a8, a9, a10) =>
     optz_eqb (max_send st) a1 && (num_send st =? a2) && optz_eqb (max_recv st) a3 && (num_recv st =? a4) &&
     (max_lreset st =? a5) && (num_lreset st =? a6) && (max_rreset st =? a7) && (num_rreset st =? a8) &&
     optz_eqb (max_lerr st) a9 && (num_lerr st =? a10)
   end) &&
  (match ce_counted e with
   | None => true
   | Some (key, c) => Bool.eqb (cmem key (counted st)) c
   end).

Definition couts_eqb (a b : list cout) : bool :=
  match a, b with
  | [], [] => true
  | [CBool x], [CBool y] => Bool.eqb x y
  | _, _ => false
  end.

Fixpoint ccheck_run (st : cstate) (i : N) (ls : list (clabel * cexpect)) : N :=
  match ls with
  | [] => 0%N
  | (l, e) :: ls' =>
    if negb (ccheck_pre st e) then (10 * (i + 1) + 1)%N
    else match cstep st l with
         | COk st1 o =>
           match ce_outs e with
           | Some eo => if couts_eqb o eo then ccheck_run st1 (i + 1) ls' else (10 * (i + 1) + 2)%N
           | None => ccheck_run st1 (i + 1) ls'
           end
         | CStuck _ => (10 * (i + 1) + 3)%N
         | CPanic _ => (10 * (i + 1) + 4)%N
         end
  end.

Definition check_counts (c : (option Z * option Z * Z * Z * option Z) * list (clabel * cexpect)) : bool :=
  let '((ms, mr, mlr, mrr, mle), ls) := c in
  (ccheck_run (cinit ms mr mlr mrr mle) 0 ls =? 0)%N.

Definition diag_counts (c : (option Z * option Z * Z * Z * option Z) * list (clabel * cexpect)) : N :=
  let '((ms, mr, mlr, mrr, mle), ls) := c in ccheck_run (cinit ms mr mlr mrr mle) 0 ls.
