(* Model of `decode_int` (src/hpack/decoder.rs) and of the error type `DecoderError`.

     fn decode_int<B: Buf>(buf: &mut B, prefix_size: u8) -> Result<usize, DecoderError> {
         const MAX_BYTES: usize = 5;
         if prefix_size < 1 || prefix_size > 8 { return Err(InvalidIntegerPrefix); }
         if !buf.has_remaining() { return Err(NeedMore(IntegerUnderflow)); }
         let mask = if prefix_size == 8 { 0xFF } else { (1u8 << prefix_size).wrapping_sub(1) };
         let mut ret = (buf.get_u8() & mask) as usize;
         if ret < mask as usize { return Ok(ret); }
         let mut bytes = 1;
         let mut shift = 0;
         while buf.has_remaining() {
             let b = buf.get_u8();
             bytes += 1;
             ret += ((b & VARINT_MASK) as usize) << shift;
             shift += 7;
             if b & VARINT_FLAG == 0 { return Ok(ret); }
             if bytes == MAX_BYTES { return Err(IntegerOverflow); }
         }
         Err(NeedMore(IntegerUnderflow))
     }

   `usize` arithmetic: at most 4 continuation octets are added, each (b & 127) << shift with
   shift <= 21, so ret <= 255 + 127 * (1 + 2^7 + 2^14 + 2^21) < 2^28 + 255: no wrap-around on a
   32 or 64 bit usize (Proofs/HpackIntProofs.v, decode_int_bound); N is exact. *)
From H2V Require Import Base.Tac Base.Bytes.
Local Open Scope N_scope.

Inductive need_more := UnexpectedEndOfStream | IntegerUnderflow | StringUnderflow.

Inductive dec_err :=
| InvalidRepresentation
| InvalidIntegerPrefix
| InvalidTableIndex
| InvalidHuffmanCode
| InvalidUtf8
| InvalidStatusCode
| InvalidPseudoheader
| InvalidMaxDynamicSize
| IntegerOverflow
| NeedMore (k : need_more).

Definition need_more_eqb (a b : need_more) : bool :=
  match a, b with
  | UnexpectedEndOfStream, UnexpectedEndOfStream => true
  | IntegerUnderflow, IntegerUnderflow => true
  | StringUnderflow, StringUnderflow => true
  | _, _ => false
  end.

Definition dec_err_eqb (a b : dec_err) : bool :=
  match a, b with
  | InvalidRepresentation, InvalidRepresentation => true
  | InvalidIntegerPrefix, InvalidIntegerPrefix => true
  | InvalidTableIndex, InvalidTableIndex => true
  | InvalidHuffmanCode, InvalidHuffmanCode => true
  | InvalidUtf8, InvalidUtf8 => true
  | InvalidStatusCode, InvalidStatusCode => true
  | InvalidPseudoheader, InvalidPseudoheader => true
  | InvalidMaxDynamicSize, InvalidMaxDynamicSize => true
  | IntegerOverflow, IntegerOverflow => true
  | NeedMore x, NeedMore y => need_more_eqb x y
  | _, _ => false
  end.

Definition is_need_more (e : dec_err) : bool :=
  match e with NeedMore _ => true | _ => false end.

(* result of reading something from the front of the buffer: value and the octets after it *)
Inductive rd (A : Type) :=
| ROk (v : A) (rest : list N)
| RErr (e : dec_err).
Arguments ROk {A} v rest.
Arguments RErr {A} e.

Definition MAX_BYTES : N := 5.
Definition VARINT_MASK : N := 127.
Definition VARINT_FLAG : N := 128.

Definition int_mask (prefix_size : N) : N :=
  if prefix_size =? 8 then 255 else N.shiftl 1 prefix_size - 1.

(* the `while buf.has_remaining()` loop; [bytes] octets read so far *)
Fixpoint decode_int_loop (bytes shift ret : N) (bs : list N) : rd N :=
  match bs with
  | [] => RErr (NeedMore IntegerUnderflow)
  | b :: bs' =>
    let bytes' := bytes + 1 in
    let ret' := ret + N.shiftl (N.land b VARINT_MASK) shift in
    let shift' := shift + 7 in
    if N.land b VARINT_FLAG =? 0 then ROk ret' bs'
    else if bytes' =? MAX_BYTES then RErr IntegerOverflow
    else decode_int_loop bytes' shift' ret' bs'
  end.

Definition decode_int (prefix_size : N) (bs : list N) : rd N :=
  if (prefix_size <? 1) || (8 <? prefix_size) then RErr InvalidIntegerPrefix
  else match bs with
       | [] => RErr (NeedMore IntegerUnderflow)
       | b :: bs' =>
         let mask := int_mask prefix_size in
         let ret := N.land b mask in
         if ret <? mask then ROk ret bs'
         else decode_int_loop 1 0 ret bs'
       end.
