(* Model of h2's send-side flow control: src/proto/streams/prioritize.rs (send_data,
   reserve_capacity, recv_stream_window_update, recv_connection_window_update,
   reclaim_all_capacity, reclaim_reserved_capacity, assign_connection_capacity,
   try_assign_capacity, clear_queue, the DATA arm of pop_frame), send.rs (send_reset,
   handle_error, schedule_implicit_reset, apply_remote_settings, poll_capacity, capacity),
   stream.rs (assign_capacity, send_data, capacity, notify_capacity, notify_send, wait_send) and
   flow_control.rs (Window / FlowControl arithmetic on i32 with its checked operations).

   A *label* is one entry into this mechanism from outside (one hooked function call, see
   /repo/src/verif.rs `enter`).  What the model does not contain — the stream state machine, the
   scheduling queues, the frame queue contents other than DATA lengths — enters a label as an
   *observed input*: the state predicates read at the call, and for assign_connection_capacity the
   sequence of streams it visited.  The theorems quantify over all values of these inputs, so they
   hold for every stream-state history and every scheduling policy.

   Outcomes:  Ok st outs | Stuck n | Panic n.
     Panic n : the Rust code would panic / fail a (debug_)assert / wrap an unsigned subtraction here.
     Stuck n : the label is not a possible step (a guard on unmodelled state fails, e.g. the label
               names an unknown stream); the correspondence check reports it if the implementation
               ever produces such a label. *)
From H2V Require Import Base.Tac.
Local Open Scope Z_scope.

Definition MAXW : Z := 2147483647.      (* proto::MAX_WINDOW_SIZE, i32::MAX *)
Definition MINW : Z := -2147483648.     (* i32::MIN *)
Definition U32MAX : Z := 4294967295.
Definition DEFAULT_WIN : Z := 65535.    (* frame::DEFAULT_INITIAL_WINDOW_SIZE *)

Record sstream := mkS {
  s_id : N;
  s_win : Z;            (* send_flow.window_size (i32, may be negative) *)
  s_avail : Z;          (* send_flow.available *)
  s_req : Z;            (* requested_send_capacity (u32) *)
  s_buf : Z;            (* buffered_send_data (usize) *)
  s_frames : list Z;    (* remaining lengths of the queued DATA frames (incl. the in-flight remainder) *)
  s_capinc : bool;      (* send_capacity_inc *)
  s_parked : bool;      (* send_task.is_some() *)
  s_dead : bool         (* observed send-closed with nothing buffered: will never send again *)
}.

Record fstate := mkF {
  c_win : Z;            (* prioritize.flow.window_size *)
  c_avail : Z;          (* prioritize.flow.available *)
  c_maxbuf : Z;         (* prioritize.max_buffer_size *)
  c_init : Z;           (* send.init_window_sz *)
  c_strs : list sstream
}.

Inductive out :=
| OData (sid : N) (len : Z)        (* DATA frame handed to the codec *)
| OWake (sid : N)                  (* send_task woken *)
| ONotifyCap (sid : N)             (* notify_capacity: send_capacity_inc set *)
| ORes (v : Z)                     (* API result: capacity value; -1 = Pending, -2 = None, -3 = Err *)
| OStreamErr (sid : N)             (* FLOW_CONTROL_ERROR on that stream *)
| OConnErr.                        (* connection error *)

Inductive outcome :=
| Ok (st : fstate) (outs : list out)
| Stuck (n : N)
| Panic (n : N).

(* observed state predicates of the target stream at the call *)
Record obs := mkObs { o_streaming : bool; o_send_closed : bool; o_closed : bool; o_pending_open : bool }.

(* one stream visited by assign_connection_capacity (a try_assign_capacity call) *)
Record visit := mkV { v_sid : N; v_obs : obs }.

Inductive label :=
| LNew (sid : N) (init : Z)
| LRemove (sid : N)
| LSendData (sid : N) (o : obs) (sz : Z) (eos : bool) (visits : list visit)
| LReserve (sid : N) (o : obs) (cap : Z) (visits : list visit)
| LRecvStreamWU (sid : N) (o : obs) (inc : Z)
| LRecvConnWU (inc : Z) (visits : list visit)
| LSendReset (sid : N) (o : obs) (is_reset : bool) (queue_empty : bool) (visits : list visit)
| LHandleError (sid : N) (visits : list visit)        (* clear_queue + reclaim_all_capacity *)
| LImplicitReset (sid : N) (o : obs) (visits : list visit)
| LApplySettings (new_init : Z) (touched : list (N * obs)) (visits : list visit)
| LPopData (sid : N) (sz : Z) (max_len : Z)
| LPollCapacity (sid : N) (o : obs)
| LCapacity (sid : N)
| LNotify (sid : N)
| LWait (sid : N)
| LTryAssign (sid : N) (o : obs).    (* buffer_pending: after pop_pending_open *)

Definition as_size (w : Z) : Z := Z.max 0 w.

Definition in_i32 (z : Z) : bool := (MINW <=? z) && (z <=? MAXW).

Fixpoint find_s (sid : N) (l : list sstream) : option sstream :=
  match l with
  | [] => None
  | s :: l' => if N.eqb (s_id s) sid then Some s else find_s sid l'
  end.

Fixpoint upd_s (s : sstream) (l : list sstream) : list sstream :=
  match l with
  | [] => []
  | x :: l' => if N.eqb (s_id x) (s_id s) then s :: l' else x :: upd_s s l'
  end.

Fixpoint del_s (sid : N) (l : list sstream) : list sstream :=
  match l with
  | [] => []
  | x :: l' => if N.eqb (s_id x) sid then l' else x :: del_s sid l'
  end.

Definition set_strs (st : fstate) (l : list sstream) : fstate :=
  mkF (c_win st) (c_avail st) (c_maxbuf st) (c_init st) l.
Definition set_cavail (st : fstate) (a : Z) : fstate :=
  mkF (c_win st) a (c_maxbuf st) (c_init st) (c_strs st).
Definition set_cwin (st : fstate) (w : Z) : fstate :=
  mkF w (c_avail st) (c_maxbuf st) (c_init st) (c_strs st).
Definition set_cinit (st : fstate) (i : Z) : fstate :=
  mkF (c_win st) (c_avail st) (c_maxbuf st) i (c_strs st).
Definition put (st : fstate) (s : sstream) : fstate := set_strs st (upd_s s (c_strs st)).

Definition set_avail (s : sstream) (a : Z) : sstream :=
  mkS (s_id s) (s_win s) a (s_req s) (s_buf s) (s_frames s) (s_capinc s) (s_parked s) (s_dead s).
Definition set_win (s : sstream) (w : Z) : sstream :=
  mkS (s_id s) w (s_avail s) (s_req s) (s_buf s) (s_frames s) (s_capinc s) (s_parked s) (s_dead s).
Definition set_req (s : sstream) (r : Z) : sstream :=
  mkS (s_id s) (s_win s) (s_avail s) r (s_buf s) (s_frames s) (s_capinc s) (s_parked s) (s_dead s).
Definition set_bufq (s : sstream) (b : Z) (q : list Z) : sstream :=
  mkS (s_id s) (s_win s) (s_avail s) (s_req s) b q (s_capinc s) (s_parked s) (s_dead s).
Definition set_capinc (s : sstream) (b : bool) : sstream :=
  mkS (s_id s) (s_win s) (s_avail s) (s_req s) (s_buf s) (s_frames s) b (s_parked s) (s_dead s).
Definition set_parked (s : sstream) (b : bool) : sstream :=
  mkS (s_id s) (s_win s) (s_avail s) (s_req s) (s_buf s) (s_frames s) (s_capinc s) b (s_dead s).
Definition set_dead (s : sstream) : sstream :=
  mkS (s_id s) (s_win s) (s_avail s) (s_req s) (s_buf s) (s_frames s) (s_capinc s) (s_parked s) true.

(* stream.rs: Stream::capacity *)
Definition capacity (maxbuf : Z) (s : sstream) : Z :=
  Z.max 0 (Z.min (as_size (s_avail s)) maxbuf - s_buf s).

(* stream.rs: notify_capacity + notify_send, when the capacity went up *)
Definition notify_if_up (maxbuf : Z) (prev : Z) (s : sstream) : sstream * list out :=
  if prev <? capacity maxbuf s
  then (set_parked (set_capinc s true) false,
        ONotifyCap (s_id s) :: (if s_parked s then [OWake (s_id s)] else []))
  else (s, []).

(* prioritize.rs: try_assign_capacity *)
Definition try_assign (st : fstate) (sid : N) (o : obs) : outcome :=
  match find_s sid (c_strs st) with
  | None => Stuck 1
  | Some s =>
    if o_pending_open o then Ok st [] else
    let av := as_size (s_avail s) in
    if s_req s <? av then Panic 1            (* total_requested - available: u32 underflow *)
    else if as_size (s_win s) <? av then Panic 2   (* window_size() - available: u32 underflow *)
    else
    let additional := Z.min (s_req s - av) (as_size (s_win s) - av) in
    if additional =? 0 then Ok st [] else
    if negb (o_streaming o) && (s_buf s =? 0) then Ok st [] else
    let ca := as_size (c_avail st) in
    if 0 <? ca then
      let assign := Z.min ca additional in
      let prev := capacity (c_maxbuf st) s in
      if negb (in_i32 (s_avail s + assign)) then Panic 3   (* debug_assert!(_res.is_ok()) *)
      else
      let '(s1, outs) := notify_if_up (c_maxbuf st) prev (set_avail s (s_avail s + assign)) in
      if negb (in_i32 (c_avail st - assign)) then Panic 4
      else Ok (set_cavail (put st s1) (c_avail st - assign)) outs
    else Ok st []
  end.

(* prioritize.rs: assign_connection_capacity, with the visited streams observed *)
Fixpoint visit_all (st : fstate) (outs : list out) (vs : list visit) : outcome :=
  match vs with
  | [] => Ok st outs
  | v :: vs' =>
    if c_avail st <=? 0 then Stuck 2     (* the loop `while self.flow.available() > 0` had ended *)
    else match try_assign st (v_sid v) (v_obs v) with
         | Ok st1 o1 => visit_all st1 (outs ++ o1) vs'
         | r => r
         end
  end.

Definition assign_conn (st : fstate) (inc : Z) (vs : list visit) : outcome :=
  if negb (in_i32 (c_avail st + inc)) then Panic 5
  else visit_all (set_cavail st (c_avail st + inc)) [] vs.

Definition bind (r : outcome) (f : fstate -> list out -> outcome) : outcome :=
  match r with Ok st o => f st o | Stuck n => Stuck n | Panic n => Panic n end.

Definition add_outs (pre : list out) (r : outcome) : outcome :=
  match r with Ok st o => Ok st (pre ++ o) | x => x end.

(* prioritize.rs: reclaim_all_capacity *)
Definition reclaim_all (st : fstate) (sid : N) (vs : list visit) : outcome :=
  match find_s sid (c_strs st) with
  | None => Stuck 3
  | Some s =>
    let av := as_size (s_avail s) in
    if 0 <? av then assign_conn (put st (set_avail s (s_avail s - av))) av vs
    else match vs with [] => Ok st [] | _ => Stuck 4 end
  end.

(* prioritize.rs: reclaim_reserved_capacity *)
Definition reclaim_reserved (st : fstate) (sid : N) (vs : list visit) : outcome :=
  match find_s sid (c_strs st) with
  | None => Stuck 5
  | Some s =>
    if s_buf s <? as_size (s_avail s) then
      let reserved := as_size (s_avail s) - s_buf s in
      assign_conn (put st (set_avail s (s_avail s - reserved))) reserved vs
    else match vs with [] => Ok st [] | _ => Stuck 6 end
  end.

(* prioritize.rs: clear_queue *)
Definition clear_queue (st : fstate) (sid : N) : outcome :=
  match find_s sid (c_strs st) with
  | None => Stuck 7
  | Some s => Ok (put st (set_req (set_bufq s 0 []) 0)) []
  end.

(* prioritize.rs: reserve_capacity *)
Definition reserve (st : fstate) (sid : N) (send_closed : bool) (o : obs) (cap : Z) (vs : list visit) : outcome :=
  match find_s sid (c_strs st) with
  | None => Stuck 8
  | Some s =>
    let capacity := cap + s_buf s in
    if capacity =? s_req s then (match vs with [] => Ok st [] | _ => Stuck 9 end)
    else if capacity <? s_req s then
      let s1 := set_req s capacity in
      let av := as_size (s_avail s1) in
      if capacity <? av then
        let diff := av - capacity in
        assign_conn (put st (set_avail s1 (s_avail s1 - diff))) diff vs
      else (match vs with [] => Ok (put st s1) [] | _ => Stuck 10 end)
    else
      if send_closed then (match vs with [] => Ok st [] | _ => Stuck 11 end)
      else match vs with
           | [] => try_assign (put st (set_req s (Z.min capacity U32MAX))) sid o
           | _ => Stuck 12
           end
  end.

Fixpoint sumz (l : list Z) : Z := match l with [] => 0 | x :: l' => x + sumz l' end.

(* send.rs apply_remote_settings, decrease branch: per touched stream *)
Fixpoint settings_dec (st : fstate) (dec : Z) (total : Z) (touched : list (N * obs)) : outcome * Z :=
  match touched with
  | [] => (Ok st [], total)
  | (sid, _) :: t' =>
    match find_s sid (c_strs st) with
    | None => (Stuck 13, total)
    | Some s =>
      if negb (in_i32 (s_win s - dec)) then (Ok st [OConnErr], total)   (* checked_sub failed: library_go_away *)
      else
      let s1 := set_win s (s_win s - dec) in
      let ws := as_size (s_win s1) in
      let av := as_size (s_avail s1) in
      if ws <? av then
        let reclaim := av - ws in
        settings_dec (put st (set_avail s1 (s_avail s1 - reclaim))) dec (total + reclaim) t'
      else settings_dec (put st s1) dec total t'
    end
  end.

Fixpoint mem_touched (sid : N) (t : list (N * obs)) : bool :=
  match t with [] => false | (x, _) :: t' => N.eqb x sid || mem_touched sid t' end.

(* streams that the decrease skipped (send-closed with nothing buffered, or already unlinked) will
   never send again *)
Definition mark_untouched (t : list (N * obs)) (l : list sstream) : list sstream :=
  map (fun s => if mem_touched (s_id s) t then s else set_dead s) l.

(* prioritize.rs: recv_stream_window_update *)
Definition recv_stream_wu (st : fstate) (sid : N) (o : obs) (inc : Z) : outcome :=
  match find_s sid (c_strs st) with
  | None => Stuck 14
  | Some s =>
    if o_send_closed o && (s_buf s =? 0) then Ok (put st (set_dead s)) []
    else
    let v := s_win s + inc in
    if negb (in_i32 v) || (MAXW <? v) then Ok st [OStreamErr sid]
    else try_assign (put st (set_win s v)) sid o
  end.

(* send.rs apply_remote_settings, increase branch *)
Fixpoint settings_inc (st : fstate) (outs : list out) (inc : Z) (touched : list (N * obs)) : outcome :=
  match touched with
  | [] => Ok st outs
  | (sid, o) :: t' =>
    match recv_stream_wu st sid o inc with
    | Ok st1 o1 =>
      (* an error resets the stream (separate label) and aborts the iteration with a connection error *)
      match o1 with
      | OStreamErr _ :: _ => Ok st1 (outs ++ o1 ++ [OConnErr])
      | _ => settings_inc st1 (outs ++ o1) inc t'
      end
    | r => r
    end
  end.

(* store.try_for_each visits every record once *)
Fixpoint nodup_keys (t : list (N * obs)) : bool :=
  match t with
  | [] => true
  | (k, _) :: t' => negb (mem_touched k t') && nodup_keys t'
  end.

Definition step (st : fstate) (l : label) : outcome :=
  match l with
  | LNew sid init =>
    match find_s sid (c_strs st) with
    | Some _ => Stuck 20
    | None =>
      (* streams.rs creates records with the current init_window_sz, except Inner::send_reset which
         builds a reset-only record with `Stream::new(id, 0, 0)` *)
      if negb ((init =? c_init st) || (init =? 0)) then Stuck 21
      else Ok (set_strs st (mkS sid init 0 0 0 [] false false false :: c_strs st)) []
    end
  | LRemove sid =>
    match find_s sid (c_strs st) with
    | None => Stuck 22
    | Some s => if s_avail s =? 0 then Ok (set_strs st (del_s sid (c_strs st))) [] else Stuck 23
    end
  | LSendData sid o sz eos vs =>
    match find_s sid (c_strs st) with
    | None => Stuck 24
    | Some s =>
      if MAXW <? sz then Ok st [ORes (-3)]
      else if negb (o_streaming o) then Ok st [ORes (-3)]
      else if s_dead s then Stuck 25
      else
      let s1 := set_bufq s (s_buf s + sz) (s_frames s ++ [sz]) in
      let r1 :=
        if s_req s1 <? s_buf s1
        then try_assign (put st (set_req s1 (Z.min (s_buf s1) U32MAX))) sid o
        else Ok (put st s1) [] in
      if eos then
        bind r1 (fun st1 o1 => add_outs o1 (reserve st1 sid true o 0 vs))
      else match vs with [] => r1 | _ => Stuck 26 end
    end
  | LReserve sid o cap vs => reserve st sid (o_send_closed o) o cap vs
  | LRecvStreamWU sid o inc => recv_stream_wu st sid o inc
  | LRecvConnWU inc vs =>
    let v := c_win st + inc in
    if negb (in_i32 v) || (MAXW <? v) then Ok st [OConnErr]
    else assign_conn (set_cwin st v) inc vs
  | LSendReset sid o is_reset queue_empty vs =>
    match find_s sid (c_strs st) with
    | None => Stuck 27
    | Some s =>
      if is_reset then (match vs with [] => Ok st [] | _ => Stuck 28 end)
      else
      (* stream.set_reset: notify_send (+ push/recv tasks, not modelled) *)
      let outs := if s_parked s then [OWake sid] else [] in
      let st0 := put st (set_parked s false) in
      (* closed AND flushed: the queue is also empty while the tail of the last DATA frame is with the codec,
         so `buffered_send_data == 0` is part of the test (fix cc4d669 of /repo) *)
      if o_closed o && queue_empty && (s_buf s =? 0) then (match vs with [] => Ok st0 outs | _ => Stuck 29 end)
      else
      (* a stream still waiting to be opened keeps only its HEADERS (not part of this model); everything queued behind them is
         dropped like for any other stream (fix of /repo: pending-open reset) *)
      let r := clear_queue st0 sid in
      add_outs outs (bind r (fun st1 o1 => add_outs o1 (reclaim_all st1 sid vs)))
    end
  | LHandleError sid vs =>
    bind (clear_queue st sid) (fun st1 o1 => add_outs o1 (reclaim_all st1 sid vs))
  | LImplicitReset sid o vs =>
    if o_closed o then (match vs with [] => Ok st [] | _ => Stuck 30 end)
    else reclaim_reserved st sid vs
  | LApplySettings new_init touched vs =>
    if negb (nodup_keys touched) then Stuck 41 else
    let old := c_init st in
    let st0 := set_cinit st new_init in
    if new_init <? old then
      match settings_dec st0 (old - new_init) 0 touched with
      | (Ok st1 [], total) => assign_conn (set_strs st1 (mark_untouched touched (c_strs st1))) total vs
      | (r, _) => r
      end
    else if old <? new_init then
      match vs with
      | [] => settings_inc st0 [] (new_init - old) touched
      | _ => Stuck 31
      end
    else match vs, touched with [], [] => Ok st0 [] | _, _ => Stuck 32 end
  | LPopData sid sz max_len =>
    match find_s sid (c_strs st) with
    | None => Stuck 33
    | Some s =>
      match s_frames s with
      | [] => Stuck 34
      | f :: q =>
        if negb (f =? sz) then Stuck 35
        else if s_dead s && (0 <? sz) then Stuck 36   (* a dead stream only has empty frames left *)
        else if (0 <? sz) && (s_avail s =? 0) then Stuck 37     (* the code `continue`s before this point *)
        else
        let len := Z.min (Z.min sz max_len) (as_size (s_avail s)) in
        if (0 <? len) && (as_size (s_win s) <? len) then Stuck 38
        else
        (* stream.send_data(len) *)
        if (0 <? len) && (s_win s <? len) then Panic 6           (* assert!(window_size >= sz) *)
        else if s_buf s <? len then Panic 7                      (* debug_assert!(buffered >= len) *)
        else if s_req s <? len then Panic 8                      (* requested_send_capacity -= len *)
        else
        let prev := capacity (c_maxbuf st) s in
        let q' := if len <? sz then (sz - len) :: q else q in
        let s1 := set_req (set_bufq (set_avail (set_win s (s_win s - len)) (s_avail s - len)) (s_buf s - len) q') (s_req s - len) in
        let '(s2, outs) := notify_if_up (c_maxbuf st) prev s1 in
        (* self.flow.assign_capacity(len); self.flow.send_data(len) *)
        if (0 <? len) && (c_win st <? len) then Panic 9
        else Ok (set_cwin (put st s2) (c_win st - len)) (OData sid len :: outs)
      end
    end
  | LPollCapacity sid o =>
    match find_s sid (c_strs st) with
    | None => Stuck 39
    | Some s =>
      if negb (o_streaming o) then Ok st [ORes (-2)]
      else if negb (s_capinc s) then Ok (put st (set_parked s true)) [ORes (-1)]
      else
      let s1 := set_capinc s false in
      let c := capacity (c_maxbuf st) s1 in
      if c =? 0 then Ok (put st (set_parked s1 true)) [ORes (-1)]
      else Ok (put st s1) [ORes c]
    end
  | LCapacity sid =>
    match find_s sid (c_strs st) with
    | None => Stuck 40
    | Some s => Ok st [ORes (capacity (c_maxbuf st) s)]
    end
  | LNotify sid =>
    match find_s sid (c_strs st) with
    | None => Ok st []     (* notify on a record the flow model never saw *)
    | Some s => Ok (put st (set_parked s false)) (if s_parked s then [OWake sid] else [])
    end
  | LWait sid =>
    match find_s sid (c_strs st) with
    | None => Ok st []
    | Some s => Ok (put st (set_parked s true)) []
    end
  | LTryAssign sid o => try_assign st sid o
  end.

Definition init_state (maxbuf : Z) (init : Z) : fstate := mkF DEFAULT_WIN DEFAULT_WIN maxbuf init [].

(* run a label list; the result keeps the per-label outputs *)
Fixpoint run (st : fstate) (ls : list label) : option (fstate * list (list out)) + (N * outcome) :=
  match ls with
  | [] => inl (Some (st, []))
  | l :: ls' =>
    match step st l with
    | Ok st1 o =>
      match run st1 ls' with
      | inl (Some (st2, os)) => inl (Some (st2, o :: os))
      | inl None => inl None
      | inr (k, r) => inr (N.succ k, r)
      end
    | r => inr (0%N, r)
    end
  end.

(* ---------------------------------------------------------------------------------------------
   Correspondence: replay a label list recorded from the implementation and compare, before each
   label, the model state with the observed pre-state (fields of the target stream, connection
   flow), and after it the model outputs with the observed ones. *)

Definition out_eqb (a b : out) : bool :=
  match a, b with
  | OData s l, OData s' l' => N.eqb s s' && (l =? l')
  | OWake s, OWake s' => N.eqb s s'
  | ONotifyCap s, ONotifyCap s' => N.eqb s s'
  | ORes v, ORes v' => v =? v'
  | OStreamErr s, OStreamErr s' => N.eqb s s'
  | OConnErr, OConnErr => true
  | _, _ => false
  end.

Fixpoint outs_eqb (a b : list out) : bool :=
  match a, b with
  | [], [] => true
  | x :: a', y :: b' => out_eqb x y && outs_eqb a' b'
  | _, _ => false
  end.

(* observed: target stream (sid, win, avail, req, buf), connection (win, avail), outputs *)
Record expect := mkE {
  e_s : option (N * (Z * Z * Z * Z));
  e_c : option (Z * Z);
  e_outs : option (list out)
}.

Definition check_pre (st : fstate) (e : expect) : bool :=
  (match e_s e with
   | None => true
   | Some (sid, (w, a, r, b)) =>
     match find_s sid (c_strs st) with
     | None => false
     | Some s => (s_win s =? w) && (s_avail s =? a) && (s_req s =? r) && (s_buf s =? b)
     end
   end) &&
  (match e_c e with
   | None => true
   | Some (w, a) => (c_win st =? w) && (c_avail st =? a)
   end).

(* result: 0 = agreement on the whole run; otherwise 10*(index+1) + reason
   (1 pre-state differs, 2 outputs differ, 3 model Stuck, 4 model Panic) *)
Fixpoint check_run (st : fstate) (i : N) (ls : list (label * expect)) : N :=
  match ls with
  | [] => 0%N
  | (l, e) :: ls' =>
    if negb (check_pre st e) then (10 * (i + 1) + 1)%N
    else match step st l with
         | Ok st1 o =>
           match e_outs e with
           | Some eo => if outs_eqb o eo then check_run st1 (i + 1) ls' else (10 * (i + 1) + 2)%N
           | None => check_run st1 (i + 1) ls'
           end
         | Stuck _ => (10 * (i + 1) + 3)%N
         | Panic _ => (10 * (i + 1) + 4)%N
         end
  end.

(* a case: (max_buffer_size, initial init_window_sz, labels with expectations, final snapshot:
   connection (win, avail) and every record (sid, win, avail, req, buf)) *)
Definition final_ok (st : fstate) (fin : option ((Z * Z) * list (N * (Z * Z * Z * Z)))) : bool :=
  match fin with
  | None => true
  | Some ((w, a), ss) =>
    (c_win st =? w) && (c_avail st =? a) &&
    forallb (fun x => check_pre st (mkE (Some x) None None)) ss &&
    (N.of_nat (length ss) =? N.of_nat (length (c_strs st)))%N
  end.

Fixpoint run_state (st : fstate) (ls : list (label * expect)) : option fstate :=
  match ls with
  | [] => Some st
  | (l, _) :: ls' => match step st l with Ok st1 _ => run_state st1 ls' | _ => None end
  end.

Definition check_sendflow (c : Z * Z * list (label * expect) * option ((Z * Z) * list (N * (Z * Z * Z * Z)))) : bool :=
  let '(maxbuf, init, ls, fin) := c in
  let st0 := init_state maxbuf init in
  (check_run st0 0 ls =? 0)%N &&
  match run_state st0 ls with Some st => final_ok st fin | None => false end.

Definition diag_sendflow (c : Z * Z * list (label * expect) * option ((Z * Z) * list (N * (Z * Z * Z * Z)))) : N :=
  let '(maxbuf, init, ls, fin) := c in check_run (init_state maxbuf init) 0 ls.
