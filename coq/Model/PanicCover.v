(* C08: which argument covers which panic site of the receive path.

   Gen/PanicSites.v is regenerated from /repo on every run.  This file assigns EVERY site a coverage class;
   Properties/C08.v proves that the assignment is total on the current inventory (so a new, moved or
   re-ordered panic site breaks that obligation) and that every theorem cited here is one of the
   theorems audited by ./check C08.  The assignment itself is hand-written: it is part of the trusted
   base of C08 ("modelled, not verified": that the named theorem's Panic outcome is this Rust site was
   established by reading the code; the lock-step correspondence of the cited model would flag a panic
   of the real code that the model does not predict). *)
From Coq Require Import String List NArith Bool.
From H2V Require Import Gen.PanicSites.
Import ListNotations.
Local Open Scope string_scope.

Inductive cover :=
| ByTheorem (name : string)        (* a model of this code has the site as a Panic outcome and the theorem shows it unreachable *)
| ApiMisuse                        (* fires only when the LOCAL application violates a documented precondition; not peer-reachable *)
| Infallible (why : string)        (* cannot fail by construction (constants, fixed-size control frames, value just written) *)
| Poisoned                         (* Mutex poisoning: fires only after another panic under the lock *)
| DebugOnly                        (* debug_assert*: compiled out of release builds; exercised by the fuzz runs of the check *)
| Residual (why : string).         (* internal invariant that no model carries: covered by the fuzz/chaos runs only *)

Fixpoint prefixb (p s : string) : bool :=
  match p, s with
  | EmptyString, _ => true
  | String a p', String b s' => if Ascii.eqb a b then prefixb p' s' else false
  | _, _ => false
  end.

Fixpoint containsb (p s : string) : bool :=
  prefixb p s || match s with EmptyString => false | String _ s' => containsb p s' end.

Definition site := (string * string * N * N * string)%type.

Definition manual : list (string * string * N * N * cover) := [
  ("codec/framed_read.rs", "set_max_frame_size", 3%N, 1%N, ApiMisuse);
  ("frame/headers.rs", "encode", 3%N, 1%N, Infallible "the 9 reserved head octets were just written as zeros by the same function");
  ("frame/data.rs", "new", 3%N, 1%N, ApiMisuse);
  ("frame/data.rs", "encode_chunk", 3%N, 1%N, Residual "write-buffer capacity invariant of framed_write (has_capacity checked by the caller); C12_write_* model the buffer, not the capacity arithmetic");
  ("frame/settings.rs", "set_max_frame_size", 3%N, 1%N, ApiMisuse);
  ("frame/stream_id.rs", "from", 3%N, 1%N, Residual "StreamId::from(u32) with the reserved bit set: every receive-path caller masks the bit first (StreamId::parse); send-path ids come from the library's own counters");
  ("hpack/decoder.rs", "consolidate", 0%N, 1%N, ByTheorem "C11_decode_no_fuel");
  ("hpack/decoder.rs", "get_static", 1%N, 1%N, ByTheorem "C11_decode_no_fuel");
  ("hpack/table.rs", "resolve_idx", 0%N, 1%N, ByTheorem "C10_never_panics");
  ("hpack/table.rs", "evict", 4%N, 1%N, ByTheorem "C10_never_panics");
  ("hpack/table.rs", "evict", 4%N, 2%N, ByTheorem "C10_never_panics");
  ("hpack/table.rs", "reinsert_entry_in_order", 4%N, 1%N, ByTheorem "C10_never_panics");
  ("proto/connection.rs", "recv_frame", 3%N, 1%N, ByTheorem "C14_no_assert");
  ("proto/connection.rs", "recv_frame", 5%N, 1%N, Poisoned);
  ("proto/streams/streams.rs", "is_extended_connect_protocol_enabled", 4%N, 1%N, Poisoned);
  ("proto/streams/streams.rs", "recv_data", 3%N, 1%N, Infallible "a DATA payload is at most 2^24-1 octets (24-bit length field), below MAX_WINDOW_SIZE = 2^31-1; C12_recv_limit");
  ("proto/streams/streams.rs", "recv_data", 3%N, 2%N, Infallible "a DATA payload is at most 2^24-1 octets (24-bit length field), below MAX_WINDOW_SIZE = 2^31-1; C12_recv_limit");
  ("proto/streams/streams.rs", "recv_reset", 3%N, 1%N, Residual "state.recv_reset always closes (C17_state_recv_reset_surfaces) - the assert restates it across two modules");
  ("proto/streams/streams.rs", "send_reset", 1%N, 1%N, Residual "send_reset with Initiator::User never returns the library-error-limit error: only the Library initiator consults the limit");
  ("proto/streams/streams.rs", "drop_stream_ref", 0%N, 1%N, Poisoned);
  ("proto/streams/streams.rs", "clear_recv_buffer", 0%N, 1%N, Poisoned);
  ("proto/streams/streams.rs", "send_reset", 4%N, 5%N, Residual "max_local_error_resets() is Some whenever can_inc_num_local_error_resets() was false");
  ("proto/streams/streams.rs", "reset_on_recv_stream_err", 4%N, 1%N, Residual "max_local_error_resets() is Some whenever can_inc_num_local_error_resets() was false");
  ("proto/streams/recv.rs", "new", 5%N, 1%N, Infallible "constants: the default window fits a Window");
  ("proto/streams/recv.rs", "new", 4%N, 1%N, Infallible "constants: the default window fits a Window");
  ("proto/streams/recv.rs", "open", 3%N, 1%N, Residual "single refusal slot: Connection::poll_ready calls send_pending_refusal before the next frame is read (the loop order of C14_poll2_order; the slot itself is not in the Control model)");
  ("proto/streams/recv.rs", "take_request", 1%N, 1%N, Residual "pending_accept holds only streams whose first event is Headers (recv_headers pushes it before queueing)");
  ("proto/streams/recv.rs", "poll_pushed", 0%N, 1%N, Residual "first event of a pushed stream is its PUSH_PROMISE head");
  ("proto/streams/recv.rs", "poll_response", 0%N, 1%N, ApiMisuse);
  ("proto/streams/recv.rs", "recv_data", 3%N, 1%N, Infallible "a DATA payload is at most 2^24-1 octets (24-bit length field), below MAX_WINDOW_SIZE = 2^31-1; C12_recv_limit");
  ("proto/streams/recv.rs", "go_away", 3%N, 1%N, ByTheorem "C15_no_assert");
  ("proto/streams/recv.rs", "send_pending_refusal", 5%N, 1%N, Infallible "RST_STREAM is a fixed-size frame; Codec::buffer only refuses oversized DATA/HEADERS");
  ("proto/streams/recv.rs", "clear_expired_reset_streams", 5%N, 1%N, Residual "reset_at is set by enqueue_reset_expiration before the stream is queued (wp-store: C19)");
  ("proto/streams/recv.rs", "send_connection_window_update", 5%N, 1%N, ByTheorem "C03_no_panic");
  ("proto/streams/recv.rs", "send_connection_window_update", 5%N, 2%N, ByTheorem "C03_no_panic");
  ("proto/streams/recv.rs", "send_stream_window_updates", 5%N, 1%N, ByTheorem "C03_no_panic");
  ("proto/streams/recv.rs", "send_stream_window_updates", 5%N, 2%N, ByTheorem "C03_no_panic");
  ("proto/streams/flow_control.rs", "sanity_unclaimed_ratio", 3%N, 1%N, Infallible "compile-time constants");
  ("proto/streams/flow_control.rs", "sanity_unclaimed_ratio", 3%N, 2%N, Infallible "compile-time constants");
  ("proto/streams/flow_control.rs", "sanity_unclaimed_ratio", 3%N, 3%N, Infallible "compile-time constants");
  ("proto/streams/flow_control.rs", "send_data", 3%N, 1%N, ByTheorem "C02_flow_code_never_panics");
  ("proto/streams/flow_control.rs", "checked_size", 3%N, 1%N, ByTheorem "C02_flow_code_never_panics");
  ("proto/go_away.rs", "go_away", 3%N, 1%N, ByTheorem "C15_no_assert");
  ("proto/go_away.rs", "send_pending_go_away", 5%N, 1%N, Infallible "GOAWAY debug data is bounded by the codec's frame size only for DATA/HEADERS; Codec::buffer accepts control frames");
  ("proto/ping_pong.rs", "ping_shutdown", 3%N, 1%N, ByTheorem "C15_no_assert");
  ("proto/ping_pong.rs", "recv_ping", 3%N, 1%N, ByTheorem "C14_no_assert");
  ("proto/ping_pong.rs", "recv_ping", 3%N, 2%N, ByTheorem "C14_no_assert");
  ("proto/ping_pong.rs", "send_pending_pong", 5%N, 1%N, Infallible "PING is a fixed-size frame");
  ("proto/ping_pong.rs", "send_pending_ping", 5%N, 1%N, Infallible "PING is a fixed-size frame");
  ("proto/ping_pong.rs", "send_pending_ping", 5%N, 2%N, Infallible "PING is a fixed-size frame");
  ("proto/settings.rs", "recv_settings", 3%N, 1%N, ByTheorem "C14_no_assert");
  ("proto/settings.rs", "send_settings", 3%N, 1%N, ByTheorem "C14_no_assert");
  ("proto/settings.rs", "poll_send", 5%N, 1%N, Infallible "SETTINGS frames are small control frames");
  ("proto/settings.rs", "poll_send", 5%N, 2%N, Infallible "SETTINGS frames are small control frames");
  ("proto/streams/counts.rs", "inc_num_local_error_resets", 3%N, 1%N, ByTheorem "C05_counts_invariant");
  ("proto/streams/counts.rs", "inc_num_recv_streams", 3%N, 1%N, ByTheorem "C05_counts_invariant");
  ("proto/streams/counts.rs", "inc_num_recv_streams", 3%N, 2%N, ByTheorem "C05_counts_invariant");
  ("proto/streams/counts.rs", "inc_num_send_streams", 3%N, 1%N, ByTheorem "C05_counts_invariant");
  ("proto/streams/counts.rs", "inc_num_send_streams", 3%N, 2%N, ByTheorem "C05_counts_invariant");
  ("proto/streams/counts.rs", "inc_num_reset_streams", 3%N, 1%N, ByTheorem "C05_counts_invariant");
  ("proto/streams/counts.rs", "inc_num_remote_reset_streams", 3%N, 1%N, ByTheorem "C05_counts_invariant");
  ("proto/streams/counts.rs", "dec_num_remote_reset_streams", 3%N, 1%N, ByTheorem "C05_counts_invariant");
  ("proto/streams/counts.rs", "dec_num_streams", 3%N, 1%N, ByTheorem "C05_counts_invariant");
  ("proto/streams/counts.rs", "dec_num_streams", 3%N, 2%N, ByTheorem "C05_counts_invariant");
  ("proto/streams/counts.rs", "dec_num_streams", 3%N, 3%N, ByTheorem "C05_counts_invariant");
  ("proto/streams/counts.rs", "dec_num_reset_streams", 3%N, 1%N, ByTheorem "C05_counts_invariant");
  ("proto/streams/store.rs", "insert", 3%N, 1%N, Residual "an id is inserted once: recv/send open paths look the id up first (wp-store: C19)");
  ("proto/streams/store.rs", "try_for_each", 4%N, 1%N, Residual "index below len, re-read every iteration");
  ("proto/streams/store.rs", "index", 0%N, 1%N, ByTheorem "C19_no_panic");
  ("proto/streams/store.rs", "index_mut", 0%N, 1%N, ByTheorem "C19_no_panic");
  ("proto/streams/store.rs", "pop", 3%N, 1%N, Residual "intrusive queue linking invariant (wp-store: C19)");
  ("proto/streams/store.rs", "pop", 4%N, 1%N, Residual "intrusive queue linking invariant (wp-store: C19)");
  ("proto/streams/store.rs", "remove", 3%N, 1%N, ByTheorem "C19_no_panic");
  ("proto/streams/state.rs", "send_close", 0%N, 1%N, Residual "callers reach send_close only from a state with an open send half (checked on the real State by the StreamState differential run: RPanic cases)");
  ("proto/streams/prioritize.rs", "new", 5%N, 1%N, Infallible "constants");
  ("proto/streams/prioritize.rs", "reclaim_reserved_capacity", 5%N, 1%N, ByTheorem "C02_flow_code_never_panics");
  ("proto/streams/prioritize.rs", "buffer_pending", 5%N, 1%N, Residual "Codec::buffer refuses only frames above max_frame_size: pop_frame splits DATA to the limit (C12_send_limit_data_enforced); header blocks are split by the encoder");
  ("proto/streams/prioritize.rs", "reclaim_frame_inner", 0%N, 1%N, ByTheorem "C20_handover_never_panics");
  ("proto/streams/prioritize.rs", "pop_frame", 4%N, 1%N, Residual "queue discipline of pending_send/pending_open");
  ("proto/streams/prioritize.rs", "pop_frame", 1%N, 1%N, Residual "queue discipline of pending_send/pending_open");
  ("proto/streams/buffer.rs", "pop_front", 3%N, 1%N, Residual "slab deque linking invariant");
  ("proto/streams/buffer.rs", "pop_front", 4%N, 1%N, Residual "slab deque linking invariant");
  ("proto/streams/stream.rs", "new", 5%N, 1%N, Infallible "initial window sizes were validated when the SETTINGS were received/built (<= 2^31-1)");
  ("proto/streams/stream.rs", "new", 5%N, 2%N, Infallible "initial window sizes were validated when the SETTINGS were received/built (<= 2^31-1)");
  ("proto/streams/stream.rs", "ref_dec", 3%N, 1%N, ByTheorem "C19_no_panic")
].

Fixpoint lookup (f fn : string) (k o : N) (l : list (string * string * N * N * cover)) : option cover :=
  match l with
  | [] => None
  | (f', fn', k', o', c) :: l' =>
    if String.eqb f f' && String.eqb fn fn' && N.eqb k k' && N.eqb o o' then Some c else lookup f fn k o l'
  end.

Definition classify (s : site) : option cover :=
  let '(f, fn, k, o, text) := s in
  if N.eqb k 6 then Some DebugOnly
  else if containsb "lock().unwrap()" text then Some Poisoned
  else lookup f fn k o manual.

Definition is_classified (s : site) : bool := match classify s with Some _ => true | None => false end.

(* every manual entry still names a site of the inventory (no stale entries hiding a moved site) *)
Definition site_key_eqb (s : site) (e : string * string * N * N * cover) : bool :=
  let '(f, fn, k, o, _) := s in let '(f', fn', k', o', _) := e in
  String.eqb f f' && String.eqb fn fn' && N.eqb k k' && N.eqb o o'.
Definition entry_live (e : string * string * N * N * cover) : bool := existsb (fun s => site_key_eqb s e) panic_sites.

Definition cited (l : list (string * string * N * N * cover)) : list string :=
  flat_map (fun e => match e with (_, _, _, _, ByTheorem n) => [n] | _ => [] end) l.

(* the theorems ./check C08 audits (Print Assumptions) - kept in step with lib/props/c08.py *)
Definition audited : list string :=
  ["C02_flow_code_never_panics"; "C03_no_panic"; "C05_counts_invariant"; "C10_never_panics"; "C11_decode_no_fuel";
   "C12_parse_never_panics"; "C12_load_never_panics"; "C12_reader_never_panics"; "C14_no_assert"; "C14_poll2_order"; "C15_no_assert";
   "C19_no_panic"; "C20_handover_never_panics"].

Definition count (p : cover -> bool) : N :=
  N.of_nat (length (filter (fun s => match classify s with Some c => p c | None => false end) panic_sites)).
