(* Model of h2's per-stream state machine: /repo/src/proto/streams/state.rs, one function per method
   of `State`, one match arm per Rust match arm, in the same order.

   Every mutating method is a total function  state -> state * res  (the `&mut self` state after the
   call and what the call returned):
     RUnit          the method returns () / Ok(())
     RBool b        Ok(b)
     RReason o      Ok(o : Option<Reason>)
     RUserErr u     Err(UserError::u)        (or crate::Error from a UserError, for ensure_reason)
     RProtoErr e    Err(e : proto::Error)    (or crate::Error::from(e), for ensure_reason)
     RPanic         the Rust code panics (send_close's last arm; set_scheduled_reset's debug_assert!)
   A call that errs or panics leaves the state unchanged (the Rust code returns / panics before it
   assigns `self.inner`).

   Payloads are unbounded here: reason codes, stream ids : N (u32 / 31 bit in the code), debug data
   and I/O messages : list N (bytes), I/O error kinds : N (an opaque code; only BrokenPipe is named
   by the code itself).

   No proofs in this file. *)
From H2V Require Import Base.Tac Base.Bytes.
Local Open Scope N_scope.

(* proto/error.rs *)
Inductive initiator := User | Library | Remote.

Inductive perror :=
| EReset (sid : N) (reason : N) (i : initiator)         (* Error::Reset(StreamId, Reason, Initiator) *)
| EGoAway (debug : list N) (reason : N) (i : initiator) (* Error::GoAway(Bytes, Reason, Initiator) *)
| EIo (kind : N) (msg : option (list N)).               (* Error::Io(io::ErrorKind, Option<String>) *)

Definition initiator_is_local (i : initiator) : bool :=
  match i with User | Library => true | Remote => false end.

(* Error::is_local *)
Definition error_is_local (e : perror) : bool :=
  match e with
  | EReset _ _ i | EGoAway _ _ i => initiator_is_local i
  | EIo _ _ => true
  end.

Definition PROTOCOL_ERROR : N := 1.                      (* Reason::PROTOCOL_ERROR *)
Definition library_go_away (r : N) : perror := EGoAway [] r Library.
Definition remote_reset (sid r : N) : perror := EReset sid r Remote.

(* io::ErrorKind::BrokenPipe, as the code the correspondence glue assigns to it, and the text of
   recv_eof's error: "stream closed because of a broken pipe" *)
Definition IO_BROKEN_PIPE : N := 1.
Definition EOF_MSG : list N :=
  [115; 116; 114; 101; 97; 109; 32; 99; 108; 111; 115; 101; 100; 32; 98; 101; 99; 97; 117; 115; 101;
   32; 111; 102; 32; 97; 32; 98; 114; 111; 107; 101; 110; 32; 112; 105; 112; 101].
Definition eof_error : perror := EIo IO_BROKEN_PIPE (Some EOF_MSG).

(* state.rs *)
Inductive peer := AwaitingHeaders | Streaming.

Inductive cause :=
| EndStream
| CError (e : perror)                  (* Cause::Error *)
| ErrorAfterEndStream (e : perror)
| ScheduledLibraryReset (reason : N).

Inductive state :=
| Idle
| ReservedLocal
| ReservedRemote
| Open (local remote : peer)
| HalfClosedLocal (p : peer)
| HalfClosedRemote (p : peer)
| Closed (c : cause).

Inductive user_error := UnexpectedFrameType | PollResetAfterSendResponse.

Inductive res :=
| RUnit
| RBool (b : bool)
| RReason (o : option N)
| RUserErr (u : user_error)
| RProtoErr (e : perror)
| RPanic.

Inductive poll_reset := PRAwaitingHeaders | PRStreaming.     (* send.rs: PollReset *)

(* ---- queries ---- *)

Definition is_recv_end_stream (s : state) : bool :=
  match s with
  | Closed EndStream | Closed (ErrorAfterEndStream _) | HalfClosedRemote _ => true
  | _ => false
  end.

Definition is_closed (s : state) : bool := match s with Closed _ => true | _ => false end.

Definition is_send_closed (s : state) : bool :=
  match s with Closed _ | HalfClosedLocal _ | ReservedRemote => true | _ => false end.

Definition is_idle (s : state) : bool := match s with Idle => true | _ => false end.

Definition get_scheduled_reset (s : state) : option N :=
  match s with Closed (ScheduledLibraryReset r) => Some r | _ => None end.

Definition is_scheduled_reset (s : state) : bool :=
  match s with Closed (ScheduledLibraryReset _) => true | _ => false end.

Definition is_local_error (s : state) : bool :=
  match s with
  | Closed (CError e) | Closed (ErrorAfterEndStream e) => error_is_local e
  | Closed (ScheduledLibraryReset _) => true
  | _ => false
  end.

Definition is_remote_reset (s : state) : bool :=
  match s with
  | Closed (CError (EReset _ _ Remote)) | Closed (ErrorAfterEndStream (EReset _ _ Remote)) => true
  | _ => false
  end.

Definition is_reset (s : state) : bool :=
  match s with
  | Closed EndStream => false
  | Closed _ => true
  | _ => false
  end.

Definition is_send_streaming (s : state) : bool :=
  match s with Open Streaming _ | HalfClosedRemote Streaming => true | _ => false end.

Definition is_recv_headers (s : state) : bool :=
  match s with
  | Idle | Open _ AwaitingHeaders | HalfClosedLocal AwaitingHeaders | ReservedRemote => true
  | _ => false
  end.

Definition is_recv_streaming (s : state) : bool :=
  match s with Open _ Streaming | HalfClosedLocal Streaming => true | _ => false end.

Definition ensure_recv_open (s : state) : res :=
  match s with
  | Closed (CError e) => RProtoErr e
  | Closed (ScheduledLibraryReset r) => RProtoErr (library_go_away r)
  | Closed EndStream | Closed (ErrorAfterEndStream _) | HalfClosedRemote _ | ReservedLocal => RBool false
  | _ => RBool true
  end.

Definition ensure_reason (mode : poll_reset) (s : state) : res :=
  match s with
  | Closed (CError (EReset _ r _)) | Closed (ErrorAfterEndStream (EReset _ r _))
  | Closed (CError (EGoAway _ r _)) | Closed (ErrorAfterEndStream (EGoAway _ r _))
  | Closed (ScheduledLibraryReset r) => RReason (Some r)
  | Closed (CError e) | Closed (ErrorAfterEndStream e) => RProtoErr e
  | Open Streaming _ | HalfClosedRemote Streaming =>
    match mode with
    | PRAwaitingHeaders => RUserErr PollResetAfterSendResponse
    | PRStreaming => RReason None
    end
  | _ => RReason None
  end.

(* ---- transitions ---- *)

Definition send_open (eos : bool) (s : state) : state * res :=
  match s with
  | Idle =>
    (if eos then HalfClosedLocal AwaitingHeaders else Open Streaming AwaitingHeaders, RUnit)
  | Open AwaitingHeaders remote =>
    (if eos then HalfClosedLocal remote else Open Streaming remote, RUnit)
  | HalfClosedRemote AwaitingHeaders | ReservedLocal =>
    (if eos then Closed EndStream else HalfClosedRemote Streaming, RUnit)
  | _ => (s, RUserErr UnexpectedFrameType)
  end.

(* eos = frame.is_end_stream(), info = frame.is_informational() *)
Definition recv_open (eos info : bool) (s : state) : state * res :=
  match s with
  | Idle =>
    (if eos then HalfClosedRemote AwaitingHeaders
     else Open AwaitingHeaders (if info then AwaitingHeaders else Streaming), RBool true)
  | ReservedRemote =>
    (if eos then Closed EndStream
     else if info then ReservedRemote
     else HalfClosedLocal Streaming, RBool true)
  | Open local AwaitingHeaders =>
    (if eos then HalfClosedRemote local
     else Open local (if info then AwaitingHeaders else Streaming), RBool false)
  | HalfClosedLocal AwaitingHeaders =>
    (if eos then Closed EndStream
     else if info then HalfClosedLocal AwaitingHeaders
     else HalfClosedLocal Streaming, RBool false)
  | _ => (s, RProtoErr (library_go_away PROTOCOL_ERROR))
  end.

Definition reserve_remote (s : state) : state * res :=
  match s with
  | Idle => (ReservedRemote, RUnit)
  | _ => (s, RProtoErr (library_go_away PROTOCOL_ERROR))
  end.

Definition reserve_local (s : state) : state * res :=
  match s with
  | Idle => (ReservedLocal, RUnit)
  | _ => (s, RUserErr UnexpectedFrameType)
  end.

Definition recv_close (s : state) : state * res :=
  match s with
  | Open local _ => (HalfClosedRemote local, RUnit)
  | HalfClosedLocal _ => (Closed EndStream, RUnit)
  | _ => (s, RProtoErr (library_go_away PROTOCOL_ERROR))
  end.

Definition recv_reset (sid reason : N) (queued : bool) (s : state) : state * res :=
  let recv_end_stream := is_recv_end_stream s in
  match s, queued with
  | Closed (ScheduledLibraryReset _), false =>
    (* a reset that is only scheduled has not been sent: the peer's reset takes its place (fix 036e89b of /repo) *)
    let error := remote_reset sid reason in
    (Closed (if recv_end_stream then ErrorAfterEndStream error else CError error), RUnit)
  | Closed _, false => (s, RUnit)
  | _, _ =>
    let error := remote_reset sid reason in
    (Closed (if recv_end_stream then ErrorAfterEndStream error else CError error), RUnit)
  end.

Definition handle_error (e : perror) (s : state) : state * res :=
  match s with
  | Closed (ScheduledLibraryReset _) => (Closed (CError e), RUnit)  (* the unsent reset gives way to the connection error *)
  | Closed _ => (s, RUnit)
  | HalfClosedRemote _ => (Closed (ErrorAfterEndStream e), RUnit)   (* the peer's message was complete *)
  | _ => (Closed (CError e), RUnit)
  end.

Definition recv_eof (s : state) : state * res :=
  match s with
  | Closed _ => (s, RUnit)
  | HalfClosedRemote _ => (Closed (ErrorAfterEndStream eof_error), RUnit)
  | _ => (Closed (CError eof_error), RUnit)
  end.

Definition send_close (s : state) : state * res :=
  match s with
  | Open _ remote => (HalfClosedLocal remote, RUnit)
  | HalfClosedRemote _ => (Closed EndStream, RUnit)
  | _ => (s, RPanic)
  end.

Definition set_reset (sid reason : N) (i : initiator) (s : state) : state * res :=
  (Closed (CError (EReset sid reason i)), RUnit).

(* dbg = debug assertions compiled in: debug_assert!(!self.is_closed()) *)
Definition set_scheduled_reset (dbg : bool) (reason : N) (s : state) : state * res :=
  if dbg && is_closed s then (s, RPanic)
  else (Closed (ScheduledLibraryReset reason), RUnit).

(* ---- all mutating methods as one labelled step ---- *)

Inductive op :=
| OSendOpen (eos : bool)
| ORecvOpen (eos info : bool)
| OReserveRemote
| OReserveLocal
| ORecvClose
| ORecvReset (sid reason : N) (queued : bool)
| OHandleError (e : perror)
| ORecvEof
| OSendClose
| OSetReset (sid reason : N) (i : initiator)
| OSetScheduledReset (reason : N).

Definition step (dbg : bool) (s : state) (o : op) : state * res :=
  match o with
  | OSendOpen eos => send_open eos s
  | ORecvOpen eos info => recv_open eos info s
  | OReserveRemote => reserve_remote s
  | OReserveLocal => reserve_local s
  | ORecvClose => recv_close s
  | ORecvReset sid r q => recv_reset sid r q s
  | OHandleError e => handle_error e s
  | ORecvEof => recv_eof s
  | OSendClose => send_close s
  | OSetReset sid r i => set_reset sid r i s
  | OSetScheduledReset r => set_scheduled_reset dbg r s
  end.

Fixpoint run (dbg : bool) (s : state) (os : list op) : state :=
  match os with
  | [] => s
  | o :: os' => run dbg (fst (step dbg s o)) os'
  end.

Inductive query :=
| QGetScheduledReset | QIsScheduledReset | QIsLocalError | QIsRemoteReset | QIsReset
| QIsSendStreaming | QIsRecvHeaders | QIsRecvStreaming | QIsRecvEndStream | QIsClosed
| QIsSendClosed | QIsIdle | QEnsureRecvOpen | QEnsureReason (mode : poll_reset).

Definition ask (s : state) (q : query) : res :=
  match q with
  | QGetScheduledReset => RReason (get_scheduled_reset s)
  | QIsScheduledReset => RBool (is_scheduled_reset s)
  | QIsLocalError => RBool (is_local_error s)
  | QIsRemoteReset => RBool (is_remote_reset s)
  | QIsReset => RBool (is_reset s)
  | QIsSendStreaming => RBool (is_send_streaming s)
  | QIsRecvHeaders => RBool (is_recv_headers s)
  | QIsRecvStreaming => RBool (is_recv_streaming s)
  | QIsRecvEndStream => RBool (is_recv_end_stream s)
  | QIsClosed => RBool (is_closed s)
  | QIsSendClosed => RBool (is_send_closed s)
  | QIsIdle => RBool (is_idle s)
  | QEnsureRecvOpen => ensure_recv_open s
  | QEnsureReason mode => ensure_reason mode s
  end.

(* ---------------------------------------------------------------------------------------------
   Correspondence: the harness (harness/src/bin/streamstate.rs) records, for a state built from
   `State::default()` by a path of method calls, either one further call with the state and the
   result it produced, or the answers of all queries.  The check replays the path in the model and
   compares structurally. *)

Definition initiator_eqb (a b : initiator) : bool :=
  match a, b with
  | User, User | Library, Library | Remote, Remote => true
  | _, _ => false
  end.

Definition opt_bytes_eqb (a b : option (list N)) : bool :=
  match a, b with
  | None, None => true
  | Some x, Some y => list_N_eqb x y
  | _, _ => false
  end.

Definition perror_eqb (a b : perror) : bool :=
  match a, b with
  | EReset s r i, EReset s' r' i' => (s =? s') && (r =? r') && initiator_eqb i i'
  | EGoAway d r i, EGoAway d' r' i' => list_N_eqb d d' && (r =? r') && initiator_eqb i i'
  | EIo k m, EIo k' m' => (k =? k') && opt_bytes_eqb m m'
  | _, _ => false
  end.

Definition peer_eqb (a b : peer) : bool :=
  match a, b with
  | AwaitingHeaders, AwaitingHeaders | Streaming, Streaming => true
  | _, _ => false
  end.

Definition cause_eqb (a b : cause) : bool :=
  match a, b with
  | EndStream, EndStream => true
  | CError e, CError e' => perror_eqb e e'
  | ErrorAfterEndStream e, ErrorAfterEndStream e' => perror_eqb e e'
  | ScheduledLibraryReset r, ScheduledLibraryReset r' => r =? r'
  | _, _ => false
  end.

Definition state_eqb (a b : state) : bool :=
  match a, b with
  | Idle, Idle | ReservedLocal, ReservedLocal | ReservedRemote, ReservedRemote => true
  | Open l r, Open l' r' => peer_eqb l l' && peer_eqb r r'
  | HalfClosedLocal p, HalfClosedLocal p' => peer_eqb p p'
  | HalfClosedRemote p, HalfClosedRemote p' => peer_eqb p p'
  | Closed c, Closed c' => cause_eqb c c'
  | _, _ => false
  end.

Definition user_error_eqb (a b : user_error) : bool :=
  match a, b with
  | UnexpectedFrameType, UnexpectedFrameType => true
  | PollResetAfterSendResponse, PollResetAfterSendResponse => true
  | _, _ => false
  end.

Definition opt_N_eqb (a b : option N) : bool :=
  match a, b with
  | None, None => true
  | Some x, Some y => x =? y
  | _, _ => false
  end.

Definition res_eqb (a b : res) : bool :=
  match a, b with
  | RUnit, RUnit => true
  | RBool x, RBool y => Bool.eqb x y
  | RReason x, RReason y => opt_N_eqb x y
  | RUserErr x, RUserErr y => user_error_eqb x y
  | RProtoErr x, RProtoErr y => perror_eqb x y
  | RPanic, RPanic => true
  | _, _ => false
  end.

Inductive expect :=
| XTrans (from : state) (o : op) (to : state) (r : res)   (* observed pre-state, call, post-state, result *)
| XQueries (st : state) (qs : list (query * res)).         (* observed state and query answers *)

(* a case: (debug assertions on?, path from State::default(), observation) *)
Definition check_state_case (c : bool * list op * expect) : bool :=
  let '(dbg, path, x) := c in
  let s := run dbg Idle path in
  match x with
  | XTrans from o to r =>
    state_eqb s from &&
    (let '(s', r') := step dbg s o in state_eqb s' to && res_eqb r' r)
  | XQueries st qs =>
    state_eqb s st && forallb (fun qr => res_eqb (ask s (fst qr)) (snd qr)) qs
  end.

(* diagnosis of a failing case: what the model computes *)
Definition diag_state_case (c : bool * list op * expect) : state * option (state * res) :=
  let '(dbg, path, x) := c in
  let s := run dbg Idle path in
  match x with
  | XTrans _ o _ _ => (s, Some (step dbg s o))
  | XQueries _ _ => (s, None)
  end.
