(* The concrete wire codec of property C01: the instance of DataPath's abstract [wcodec] built from the
   models of h2's own layers.  Definitions only (proofs: Proofs/FrameSeqProofs.v, Proofs/WireCodecProofs.v).

   Sending side   (src/proto/streams/prioritize.rs hands a frame to Codec::buffer; src/frame/headers.rs
                   Headers::encode / PushPromise::encode call hpack::Encoder::encode, then
                   EncodingHeaderBlock::encode and, from FramedWrite, Continuation::encode):
       stream-layer frame --(Model/HpackEnc.v enc_encode)--> header block --(Model/FrameCodec.v encode:
       HEADERS / PUSH_PROMISE + CONTINUATION*, DATA, RST_STREAM)--> octets
   Receiving side (src/codec/framed_read.rs FramedRead::poll_next: LengthDelimitedCodec, decode_frame,
                   Partial / CONTINUATION reassembly; hpack::Decoder::decode):
       octets --(Model/ReadBuf.v ld_decode + decode_frame, one call of poll_next)--> frame value with its
       reassembled block --(Model/HpackDec.v decode, Huffman decoder Model/Huffman.v)--> stream-layer frame

   [poll_next] is FramedRead::poll_next itself: the loop of Model/ReadBuf.v [pump] returns to its caller
   after the FIRST frame (Ok(Some(frame))) instead of being re-entered until Pending; Proofs/FrameSeqProofs.v
   [drain_poll] shows that [pump] is exactly the iteration of [poll_next].

   What the wire does not carry: DataPath's [hkind] (final head / interim head / trailers) is decided by
   the receiving stream's state (recv.rs), not by the codec.  The decoder here yields [HkHead] for every
   HEADERS frame; the theorems compare modulo [norm_frame]. *)
From H2V Require Import Base.Tac Base.Bytes Gen.FrameConsts Ref.Rfc9113Frame.
From H2V Require Import Model.FrameCodec Model.ReadBuf Model.Huffman Model.HpackInt Model.HpackEnc Model.HpackDec.
From H2V Require Import Model.StreamState Model.DataPath.
Local Open Scope N_scope.

(* ------------------------------------------------------------------------------------------- *)
(* FramedRead::poll_next, one call: (state afterwards, None = Pending | Some event) *)

Fixpoint poll_next {HS} (ops : hpack_ops HS) (fuel : nat) (st : rstate HS) : rstate HS * option (event HS) :=
  match fuel with
  | O => (set_core st (r_buf st) (r_ld st) (r_partial st) (r_hs st) true, Some EvOutOfFuel)
  | S fuel' =>
      if r_dead st then (st, None) else
      match ld_decode (r_max_frame st) (r_ld st) (r_buf st) with
      | LdNeed s => (set_core st (r_buf st) s (r_partial st) (r_hs st) false, None)
      | LdError =>
          (set_core st (r_buf st) (r_ld st) (r_partial st) (r_hs st) true,
           Some (EvError (PEGoAway [] reason_FRAME_SIZE_ERROR)))
      | LdOut bytes rest =>
          let '(pt, hs, d) := decode_frame ops (r_max_hls st) (r_max_cont st) (r_partial st) (r_hs st) bytes in
          match d with
          | DNone => poll_next ops fuel' (set_core st rest LdHead pt hs false)
          | DEvent e => (set_core st rest LdHead pt hs false, Some e)
          | DStop e => (set_core st rest LdHead pt hs true, Some e)
          end
      end
  end.

(* every round that continues has consumed a complete frame (>= 9 octets): this fuel is enough *)
Definition poll {HS} (ops : hpack_ops HS) (st : rstate HS) : rstate HS * option (event HS) :=
  poll_next ops (S (length (r_buf st))) st.

(* ------------------------------------------------------------------------------------------- *)
(* parameters of a connection direction *)

Record wparams := mkWP {
  wp_smax : N;                          (* the sender's max_frame_size (peer's SETTINGS_MAX_FRAME_SIZE) *)
  wp_rmax : N;                          (* the receiver's max_frame_size *)
  wp_hls : N;                           (* the receiver's max_header_list_size (CONTINUATION-flood limit) *)
  wp_sens : list N -> list N -> bool    (* HeaderValue::is_sensitive of a submitted field: any function *)
}.

Definition to_field_in (sens : list N -> list N -> bool) (f : list N * list N) : field_in :=
  FI (Some (fst f)) (snd f) (sens (fst f) (snd f)).

Definition hblock_in (p : wparams) (h : fields) : list field_in := map (to_field_in (wp_sens p)) h.

(* the frame value Codec::buffer is handed for a stream-layer frame whose header block is [block] *)
Definition wire_frame_of (sid : N) (f : sframe) (block : list N) : frame :=
  match f with
  | DataPath.FData pl eos => FrameCodec.FData sid (if eos then data_END_STREAM else 0) None pl
  | DataPath.FReset code => FrameCodec.FReset sid code
  | DataPath.FHeaders _ _ eos =>
      FrameCodec.FHeaders sid (headers_END_HEADERS + (if eos then headers_END_STREAM else 0)) None block
  | DataPath.FPush pr _ => FrameCodec.FPushPromise sid headers_END_HEADERS pr block
  end.

Definition sframe_fields (f : sframe) : option fields :=
  match f with
  | DataPath.FHeaders _ h _ => Some h
  | DataPath.FPush _ h => Some h
  | _ => None
  end.

(* HPACK part of the sending side: the block for [f] and the encoder afterwards; None = the encoder
   model fails (excluded by the side conditions of the theorems) *)
Definition h2_block (p : wparams) (es : enc_state) (f : sframe) : option (list N * enc_state) :=
  match sframe_fields f with
  | None => Some ([], es)
  | Some h =>
      match enc_encode es (hblock_in p h) with
      | HpackEnc.EOk (es', block) => Some (block, es')
      | EFail _ => None
      end
  end.

(* totalised with ([], es): no octets, state unchanged *)
Definition h2_enc (p : wparams) (es : enc_state) (x : N * sframe) : bytes * enc_state :=
  match h2_block p es (snd x) with
  | None => ([], es)
  | Some (block, es') =>
      match encode (wp_smax p) (wire_frame_of (fst x) (snd x) block) with
      | FrameCodec.EOk bs => (bs, es')
      | _ => ([], es)
      end
  end.

(* the reader in front of a connection's octets: nothing buffered, no block open *)
Definition reader_on (p : wparams) (bs : list N) : rstate (list N) :=
  set_core (rinit [] (wp_rmax p) (wp_hls p)) bs LdHead None [] false.

(* one frame off the front of [bs]: poll_next with raw blocks, then hpack::Decoder::decode on the
   reassembled block.  None = Pending (need more octets) -- or anything that is not one of the four
   stream-layer frames of DataPath, or a refusal (never on what [h2_enc] wrote: Proofs/WireCodecProofs.v) *)
Definition h2_dec (p : wparams) (ds : decoder) (bs : bytes) : option ((N * sframe) * bytes * decoder) :=
  match poll hp_raw (reader_on p bs) with
  | (st', Some (EvFrame (FrameCodec.FData sid fl _ data))) =>
      Some ((sid, DataPath.FData data (has_bit fl data_END_STREAM)), r_buf st', ds)
  | (st', Some (EvFrame (FrameCodec.FReset sid code))) =>
      Some ((sid, DataPath.FReset code), r_buf st', ds)
  | (st', Some (EvHeaders (FrameCodec.FHeaders sid fl _ _) block)) =>
      let r := decode huff_decode_opt ds block in
      match r_verdict r with
      | VOk => Some ((sid, DataPath.FHeaders HkHead (r_fields r) (has_bit fl headers_END_STREAM)), r_buf st', r_dec r)
      | _ => None
      end
  | (st', Some (EvHeaders (FrameCodec.FPushPromise sid _ pr _) block)) =>
      let r := decode huff_decode_opt ds block in
      match r_verdict r with
      | VOk => Some ((sid, DataPath.FPush pr (r_fields r)), r_buf st', r_dec r)
      | _ => None
      end
  | _ => None
  end.

Definition h2_wcodec (p : wparams) : wcodec (N * sframe) enc_state decoder :=
  mkWC (N * sframe) enc_state decoder (h2_enc p) (h2_dec p).

(* what the wire preserves of a stream-layer frame: everything but the kind tag of a HEADERS frame *)
Definition norm_frame (f : sframe) : sframe :=
  match f with
  | DataPath.FHeaders _ h e => DataPath.FHeaders HkHead h e
  | _ => f
  end.
Definition norm_wire (x : N * sframe) : N * sframe := (fst x, norm_frame (snd x)).

Definition norm_atom (a : atom) : atom :=
  match a with
  | AHead _ h => AHead HkHead h
  | _ => a
  end.
