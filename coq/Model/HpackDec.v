(* Model of the HPACK decoder of h2: src/hpack/decoder.rs (Decoder, Table, Representation,
   StringMarker, take/consume) and src/hpack/header.rs (Header::new, Header::len,
   Name::into_entry), branch by branch, including errors and oddities.  Definitions only.

   Representation choices
   * A header is a pair (name octets, value octets).  h2's `Header` enum has one variant per
     pseudo header; the variant is a function of the name ([kind_of]) because a
     `Header::Field` name never starts with ':' (HeaderName::from_lowercase rejects it).
   * The Huffman string decoder is the explicit argument [hd] (None = InvalidHuffmanCode);
     `huffman::decode` is modelled in Model/Huffman.v by the Huffman work package.
   * The buffer: `Cursor<&mut BytesMut>`.  `take` *splits consumed octets off the underlying
     BytesMut*; what persists between two calls of `decode` (framed_read.rs keeps the BytesMut
     in `Partial.buf` and appends the next CONTINUATION payload) is the content of the
     BytesMut, not the cursor.  Every function below that can fail therefore returns, with
     the error, the content of the BytesMut at that moment ([lft]).  Raw (non-Huffman)
     strings are consumed with `take` *before* `Header::new`/`into_entry` validate, Huffman
     strings only advance the cursor: the four cases are spelled out in [decode_literal].
   * The callback `f` of `Decoder::decode` always continues.  (`HeaderBlock::load` in
     src/frame/headers.rs breaks out when the header list is way too large; that error kills
     the connection and is outside this model.)
   * `usize`: sizes are N.  `self.size -= last.len()` cannot underflow when the size field is
     the sum of the entry sizes (invariant [wf] in Proofs/HpackDecProofs.v); `consolidate`'s
     panic!() is the distinct outcome [VPanic] and is proved unreachable under [wf].
   * [quirk] is a ghost component of results: it records *why* InvalidMaxDynamicSize arose
     (h2's error class conflates "size update larger than the ceiling" with "size update after
     a header field").  It influences nothing and is ignored by the correspondence check; the
     chunking theorem uses it to state exactly when split feeding differs (known finding
     KF-C11-1).  (Until h2 commit a9c11d7 an empty literal name answered NeedMore after its
     strings had been consumed, a second such case; it is a plain InvalidUtf8 now.) *)
From Coq Require Import String.
From H2V Require Import Base.Tac Base.Bytes Gen.StaticTable Model.HttpTokens Model.HpackInt.
Local Open Scope N_scope.

Notation field := (list N * list N)%type (only parsing).

Definition field_eqb (a b : field) : bool :=
  list_N_eqb (fst a) (fst b) && list_N_eqb (snd a) (snd b).

Fixpoint fields_eqb (a b : list field) : bool :=
  match a, b with
  | [], [] => true
  | x :: a', y :: b' => field_eqb x y && fields_eqb a' b'
  | _, _ => false
  end.

Definition lenN {A} (l : list A) : N := N.of_nat (length l).

Fixpoint nth_N {A} (l : list A) (n : N) : option A :=
  match l with
  | [] => None
  | x :: l' => if n =? 0 then Some x else nth_N l' (n - 1)
  end.

Fixpoint assoc_N {A} (k : N) (l : list (N * A)) : option A :=
  match l with
  | [] => None
  | (k', v) :: l' => if k =? k' then Some v else assoc_N k l'
  end.

(* first n octets and the rest; None when fewer than n are present *)
Fixpoint split_n (n : N) (l : list N) : option (list N * list N) :=
  if n =? 0 then Some ([], l)
  else match l with
       | [] => None
       | x :: l' => match split_n (n - 1) l' with
                    | Some (a, b) => Some (x :: a, b)
                    | None => None
                    end
       end.

(* ===================== src/hpack/header.rs ===================== *)

Inductive hkind := KField | KAuthority | KMethod | KScheme | KPath | KProtocol | KStatus.

Definition n_authority : list N := bstr ":authority".
Definition n_method : list N := bstr ":method".
Definition n_scheme : list N := bstr ":scheme".
Definition n_path : list N := bstr ":path".
Definition n_protocol : list N := bstr ":protocol".
Definition n_status : list N := bstr ":status".

(* which variant of `Header` carries this name *)
Definition kind_of (name : list N) : hkind :=
  if list_N_eqb name n_authority then KAuthority
  else if list_N_eqb name n_method then KMethod
  else if list_N_eqb name n_scheme then KScheme
  else if list_N_eqb name n_path then KPath
  else if list_N_eqb name n_protocol then KProtocol
  else if list_N_eqb name n_status then KStatus
  else KField.

Inductive hres := HOk (f : field) | HErr (e : dec_err).

Definition guard (ok : bool) (e : dec_err) (f : field) : hres := if ok then HOk f else HErr e.

(* Header::new(name, value) *)
Definition header_new (name value : list N) : hres :=
  match name with
  | [] => HErr InvalidUtf8                                           (* name.is_empty() *)
  | c :: rest =>
    if c =? 58 then                                                   (* name[0] == b':' *)
      if list_N_eqb rest (bstr "authority") then guard (utf8_ok value) InvalidUtf8 (name, value)
      else if list_N_eqb rest (bstr "method") then guard (method_ok value) InvalidUtf8 (name, value)
      else if list_N_eqb rest (bstr "scheme") then guard (utf8_ok value) InvalidUtf8 (name, value)
      else if list_N_eqb rest (bstr "path") then guard (utf8_ok value) InvalidUtf8 (name, value)
      else if list_N_eqb rest (bstr "protocol") then guard (utf8_ok value) InvalidUtf8 (name, value)
      else if list_N_eqb rest (bstr "status") then
        guard (status_ok value) InvalidUtf8 (name, value)             (* `?` on InvalidStatusCode -> InvalidUtf8 *)
      else HErr InvalidPseudoheader
    else
      if name_ok name then guard (value_ok value) InvalidUtf8 (name, value)
      else HErr InvalidUtf8
  end.

(* entry.name().into_entry(value), [name] being the name of a table entry *)
Definition into_entry (name value : list N) : hres :=
  match kind_of name with
  | KField => guard (value_ok value) InvalidUtf8 (name, value)
  | KAuthority => guard (utf8_ok value) InvalidUtf8 (name, value)
  | KMethod => guard (method_ok value) InvalidUtf8 (name, value)
  | KScheme => guard (utf8_ok value) InvalidUtf8 (name, value)
  | KPath => guard (utf8_ok value) InvalidUtf8 (name, value)
  | KProtocol => guard (utf8_ok value) InvalidUtf8 (name, value)
  | KStatus => guard (status_ok value) InvalidStatusCode (name, value)
  end.

(* Header::len *)
Definition hlen (f : field) : N :=
  match kind_of (fst f) with
  | KField => 32 + lenN (fst f) + lenN (snd f)
  | KAuthority => 32 + 10 + lenN (snd f)
  | KMethod => 32 + 7 + lenN (snd f)
  | KScheme => 32 + 7 + lenN (snd f)
  | KPath => 32 + 5 + lenN (snd f)
  | KProtocol => 32 + 9 + lenN (snd f)
  | KStatus => 32 + 7 + 3
  end.

(* ===================== decoder.rs: Table ===================== *)

Record table := mk_table {
  t_entries : list field;      (* VecDeque<Header>, front (newest) first *)
  t_size : N;
  t_max : N
}.

Definition table_new (max_size : N) : table := mk_table [] 0 max_size.

(* get_static(idx); None = unreachable!() *)
Definition get_static (idx : N) : option field := assoc_N idx static_get.

Inductive tres := TOk (f : field) | TErr (e : dec_err) | TPanic.

(* Table::get *)
Definition table_get (t : table) (index : N) : tres :=
  if index =? 0 then TErr InvalidTableIndex
  else if index <=? get_static_last then
    match get_static index with Some f => TOk f | None => TPanic end
  else
    match nth_N (t_entries t) (index - get_dyn_base) with
    | Some e => TOk e
    | None => TErr InvalidTableIndex
    end.

(* Table::reserve on the entries oldest first (pop_back = head of the reversed deque):
     while self.size + size > self.max_size {
         match self.entries.pop_back() { Some(last) => self.size -= last.len(), None => return }
     } *)
Fixpoint reserve_back (oldest_first : list field) (cur need max : N) : list field * N :=
  if cur + need <=? max then (oldest_first, cur)
  else match oldest_first with
       | [] => ([], cur)
       | last :: more => reserve_back more (cur - hlen last) need max
       end.

Definition table_reserve (t : table) (size : N) : table :=
  let '(r, s) := reserve_back (rev (t_entries t)) (t_size t) size (t_max t) in
  mk_table (rev r) s (t_max t).

(* Table::insert *)
Definition table_insert (t : table) (entry : field) : table :=
  let len := hlen entry in
  let t1 := table_reserve t len in
  if t_size t1 + len <=? t_max t1
  then mk_table (entry :: t_entries t1) (t_size t1 + len) (t_max t1)
  else t1.

(* Table::consolidate; None = panic!("Size of table != 0, but no headers lft!") *)
Fixpoint consolidate_back (oldest_first : list field) (cur max : N) : option (list field * N) :=
  if cur <=? max then Some (oldest_first, cur)
  else match oldest_first with
       | [] => None
       | last :: more => consolidate_back more (cur - hlen last) max
       end.

(* Table::set_max_size *)
Definition table_set_max_size (t : table) (size : N) : option table :=
  match consolidate_back (rev (t_entries t)) (t_size t) size with
  | Some (r, s) => Some (mk_table (rev r) s size)
  | None => None
  end.

(* ===================== decoder.rs: Decoder ===================== *)

Record decoder := mk_decoder {
  d_queued : option N;         (* max_size_update *)
  d_last_max : N;              (* last_max_update *)
  d_table : table
}.

Definition decoder_new (size : N) : decoder := mk_decoder None size (table_new size).

Definition queue_size_update (d : decoder) (size : N) : decoder :=
  let size' := match d_queued d with Some v => N.max v size | None => size end in
  mk_decoder (Some size') (d_last_max d) (d_table d).

Definition with_table (d : decoder) (t : table) : decoder :=
  mk_decoder (d_queued d) (d_last_max d) t.

Inductive repr :=
| Indexed | LiteralWithIndexing | LiteralWithoutIndexing | LiteralNeverIndexed | SizeUpdate.

(* Representation::load *)
Definition repr_load (byte : N) : repr + dec_err :=
  if N.land byte 128 =? 128 then inl Indexed
  else if N.land byte 64 =? 64 then inl LiteralWithIndexing
  else if N.land byte 240 =? 0 then inl LiteralWithoutIndexing
  else if N.land byte 240 =? 16 then inl LiteralNeverIndexed
  else if N.land byte 224 =? 32 then inl SizeUpdate
  else inr InvalidRepresentation.

(* try_decode_string: (huffman flag, decoded string) and the octets after the string.
   Errors here never consume anything. *)
Definition try_decode_string (hd : list N -> option (list N)) (bs : list N)
  : rd (bool * list N) :=
  match bs with
  | [] => RErr (NeedMore UnexpectedEndOfStream)
  | hdr :: _ =>
    let huff := N.land hdr 128 =? 128 in
    match decode_int 7 bs with
    | RErr e => RErr e
    | ROk len rest =>
      match split_n len rest with
      | None => RErr (NeedMore StringUnderflow)              (* len > buf.remaining() *)
      | Some (raw, rest') =>
        if huff then
          match hd raw with
          | Some s => ROk (true, s) rest'
          | None => RErr InvalidHuffmanCode
          end
        else ROk (false, raw) rest'
      end
    end
  end.

Inductive quirk := QNone | QMisplacedUpdate.

(* result of one representation that yields a header: on error, [lft] is the content of the
   underlying BytesMut (what a later call of decode would see first) *)
Inductive lres :=
| LOk (f : field) (rest : list N)
| LErr (e : dec_err) (lft : list N) (q : quirk)
| LPanic.

(* decode_literal; [bs] is the whole representation (cursor at 0) *)
Definition decode_literal (hd : list N -> option (list N)) (t : table) (bs : list N)
  (index : bool) : lres :=
  let prefix := if index then 6 else 4 in
  match decode_int prefix bs with
  | RErr e => LErr e bs QNone
  | ROk table_idx rest0 =>
    if table_idx =? 0 then
      match try_decode_string hd rest0 with
      | RErr e => LErr e bs QNone
      | ROk (name_huff, name) rest1 =>
        match try_decode_string hd rest1 with
        | RErr e => LErr e bs QNone
        | ROk (value_huff, value) rest2 =>
          (* name_marker.consume / value_marker.consume: a raw string is `take`n (split off the
             BytesMut together with everything before it), a Huffman string only advances *)
          match header_new name value with
          | HOk f => LOk f rest2
          | HErr e =>
            let lft := if value_huff then (if name_huff then bs else rest1) else rest2 in
            LErr e lft QNone
          end
        end
      end
    else
      match table_get t table_idx with
      | TPanic => LPanic
      | TErr e => LErr e bs QNone
      | TOk e =>
        match try_decode_string hd rest0 with
        | RErr err => LErr err bs QNone
        | ROk (value_huff, value) rest1 =>
          match into_entry (fst e) value with
          | HOk f => LOk f rest1
          | HErr err => LErr err (if value_huff then bs else rest1) QNone
          end
        end
      end
  end.

Inductive step_res :=
| SField (f : field) (d : decoder) (rest : list N)     (* header emitted, consume(src) done *)
| SUpdate (d : decoder) (rest : list N)                (* size update processed, consumed *)
| SErr (e : dec_err) (lft : list N) (q : quirk)
| SPanic.

(* one iteration of the `while let Some(ty) = peek_u8(src)` loop; bs = ty :: _ *)
Definition decode_step (hd : list N -> option (list N)) (can_resize : bool) (d : decoder)
  (ty : N) (bs : list N) : step_res :=
  match repr_load ty with
  | inr e => SErr e bs QNone
  | inl Indexed =>
    match decode_int 7 bs with                                  (* decode_indexed *)
    | RErr e => SErr e bs QNone
    | ROk index rest =>
      match table_get (d_table d) index with
      | TOk f => SField f d rest
      | TErr e => SErr e bs QNone
      | TPanic => SPanic
      end
    end
  | inl LiteralWithIndexing =>
    match decode_literal hd (d_table d) bs true with
    | LOk f rest => SField f (with_table d (table_insert (d_table d) f)) rest
    | LErr e lft q => SErr e lft q
    | LPanic => SPanic
    end
  | inl LiteralWithoutIndexing | inl LiteralNeverIndexed =>
    match decode_literal hd (d_table d) bs false with
    | LOk f rest => SField f d rest
    | LErr e lft q => SErr e lft q
    | LPanic => SPanic
    end
  | inl SizeUpdate =>
    if negb can_resize then SErr InvalidMaxDynamicSize bs QMisplacedUpdate
    else
      match decode_int 5 bs with                                (* process_size_update *)
      | RErr e => SErr e bs QNone
      | ROk new_size rest =>
        if d_last_max d <? new_size then SErr InvalidMaxDynamicSize bs QNone
        else match table_set_max_size (d_table d) new_size with
             | Some t' => SUpdate (with_table d t') rest
             | None => SPanic
             end
      end
  end.

Inductive verdict := VOk | VErr (e : dec_err) | VPanic | VFuel.

Record dresult := mk_dresult {
  r_fields : list field;       (* headers handed to the callback, in order *)
  r_verdict : verdict;
  r_dec : decoder;             (* decoder afterwards *)
  r_left : list N;             (* content of the BytesMut afterwards *)
  r_quirk : quirk              (* ghost *)
}.

Definition prepend (fs : list field) (r : dresult) : dresult :=
  mk_dresult (fs ++ r_fields r) (r_verdict r) (r_dec r) (r_left r) (r_quirk r).

(* the loop of Decoder::decode.  Every iteration consumes at least one octet, fuel
   S (length bs) is never exhausted (Proofs: decode_no_fuel); VFuel is a distinct verdict. *)
Fixpoint decode_loop (hd : list N -> option (list N)) (fuel : nat) (can_resize : bool)
  (d : decoder) (bs : list N) : dresult :=
  match bs with
  | [] => mk_dresult [] VOk d [] QNone
  | ty :: _ =>
    match fuel with
    | O => mk_dresult [] VFuel d bs QNone
    | S fuel' =>
      match decode_step hd can_resize d ty bs with
      | SField f d' rest => prepend [f] (decode_loop hd fuel' false d' rest)
      | SUpdate d' rest => decode_loop hd fuel' can_resize d' rest
      | SErr e lft q => mk_dresult [] (VErr e) d lft q
      | SPanic => mk_dresult [] VPanic d bs QNone
      end
    end
  end.

(* `if let Some(size) = self.max_size_update.take() { self.last_max_update = size; }` *)
Definition take_queued (d : decoder) : decoder :=
  match d_queued d with
  | Some size => mk_decoder None size (d_table d)
  | None => d
  end.

(* Decoder::decode on a BytesMut holding [bs]; `can_resize` starts out true on EVERY call *)
Definition decode (hd : list N -> option (list N)) (d : decoder) (bs : list N) : dresult :=
  decode_loop hd (S (length bs)) true (take_queued d) bs.

(* A header block delivered as HEADERS/PUSH_PROMISE + CONTINUATION fragments
   (src/codec/framed_read.rs: `Partial.buf`; src/frame/headers.rs: HeaderBlock::load).
   Every fragment but the last (END_HEADERS) tolerates Ok and Err(NeedMore(_)): the BytesMut
   keeps what `take` lft, the next payload is appended and `decode` is called again. *)
Fixpoint decode_chunks_from (hd : list N -> option (list N)) (d : decoder) (carry : list N)
  (frags : list (list N)) : dresult :=
  match frags with
  | [] => decode hd d carry
  | f :: more =>
    let r := decode hd d (carry ++ f) in
    match more with
    | [] => r
    | _ :: _ =>
      match r_verdict r with
      | VOk => prepend (r_fields r) (decode_chunks_from hd (r_dec r) (r_left r) more)
      | VErr (NeedMore _) => prepend (r_fields r) (decode_chunks_from hd (r_dec r) (r_left r) more)
      | _ => r
      end
    end
  end.

Definition decode_chunks (hd : list N -> option (list N)) (d : decoder)
  (frags : list (list N)) : dresult :=
  decode_chunks_from hd d [] frags.

(* ===================== correspondence check ===================== *)

(* [hd] as a table of recorded results of `huffman::decode` (raw octets, result); a string that
   was not recorded decodes to a non-octet so that the case cannot pass by accident *)
Fixpoint hd_of_table (tbl : list (list N * option (list N))) (raw : list N) : option (list N) :=
  match tbl with
  | [] => Some [100000]
  | (k, r) :: tbl' => if list_N_eqb k raw then r else hd_of_table tbl' raw
  end.

Definition verdict_eqb (a b : verdict) : bool :=
  match a, b with
  | VOk, VOk => true
  | VErr x, VErr y => dec_err_eqb x y
  | VPanic, VPanic => true
  | _, _ => false
  end.

(* what the harness records after a block: headers emitted, verdict, BytesMut content,
   table (entries newest first -- None when the harness did not record them for this block --,
   size, max_size) *)
Definition block_obs : Type :=
  (list field * verdict * list N * (option (list field) * N * N))%type.

(* queued size updates (in order), fragments, observation *)
Definition block_rec : Type := (list N * list (list N) * block_obs)%type.

Definition obs_eqb (r : dresult) (o : block_obs) : bool :=
  let '(fs, v, lft, (entries, size, max)) := o in
  fields_eqb (r_fields r) fs && verdict_eqb (r_verdict r) v && list_N_eqb (r_left r) lft &&
  match entries with Some es => fields_eqb (t_entries (d_table (r_dec r))) es | None => true end &&
  (t_size (d_table (r_dec r)) =? size) && (t_max (d_table (r_dec r)) =? max).

Definition run_block (hd : list N -> option (list N)) (d : decoder) (b : block_rec) : dresult :=
  let '(queued, frags, _) := b in
  decode_chunks hd (fold_left queue_size_update queued d) frags.

Fixpoint run_history (hd : list N -> option (list N)) (d : decoder) (blocks : list block_rec)
  : bool :=
  match blocks with
  | [] => true
  | b :: more =>
    let r := run_block hd d b in
    obs_eqb r (snd b) && run_history hd (r_dec r) more
  end.

(* case = (Huffman records, initial table size, history) *)
Definition check_hpack_dec
  (c : list (list N * option (list N)) * N * list block_rec) : bool :=
  let '(huff, size, blocks) := c in
  run_history (hd_of_table huff) (decoder_new size) blocks.
