(* Abstract model of threads acquiring non-reentrant mutexes (std::sync::Mutex).

   Self-contained: nothing of h2 is modelled here except the *shape* of its critical sections.
   Locks are small natural numbers ordered by `<`; in the intended instance 0 = the `inner` mutex
   of proto/streams/streams.rs and 1 = the `send_buffer` mutex.

   A thread is the list of locks it holds plus the straight-line program it still has to run.
   The only action that can block is `Acquire`: `Work` stands for any local step that terminates
   without waiting on another thread (that no such waiting happens while a mutex is held is a
   premise established elsewhere, from an inventory of the source).  A thread whose `todo` is
   empty has finished.  Definitions only; the proofs are in Proofs/LocksProofs.v. *)
From H2V Require Import Base.Tac.

(* a notation, not a definition: keeps `lia` and rewriting insensitive to the alias *)
Notation lock := nat (only parsing).

Inductive action := Acquire (l : lock) | Release (l : lock) | Work.

Record thread := { held : list lock; todo : list action }.

Definition config := list thread.

(* ---------- who holds what ---------- *)

Definition holdsb (hs : list lock) (l : lock) : bool := existsb (Nat.eqb l) hs.

Definition drop_lock (l : lock) (hs : list lock) : list lock :=
  filter (fun h => negb (h =? l)) hs.

(* every held lock of every thread, with multiplicity *)
Definition all_held (cfg : config) : list lock := flat_map held cfg.

Definition owned (cfg : config) (l : lock) : bool := holdsb (all_held cfg) l.

Definition owner (cfg : config) (l : lock) : Prop := exists t, In t cfg /\ In l (held t).

(* ---------- operational semantics ---------- *)

(* the next action of thread t in configuration cfg; None = finished or blocked.
   Acquire is refused when ANY thread holds l, t itself included (non-reentrant). *)
Definition step_thread (cfg : config) (t : thread) : option thread :=
  match todo t with
  | [] => None
  | Acquire l :: k =>
      if owned cfg l then None else Some {| held := l :: held t; todo := k |}
  | Release l :: k =>
      if holdsb (held t) l then Some {| held := drop_lock l (held t); todo := k |} else None
  | Work :: k => Some {| held := held t; todo := k |}
  end.

Fixpoint set_nth {A : Type} (i : nat) (x : A) (l : list A) {struct l} : list A :=
  match l with
  | [] => []
  | y :: r => match i with O => x :: r | S j => y :: set_nth j x r end
  end.

(* thread number i performs its next action *)
Definition step (cfg : config) (i : nat) : option config :=
  match nth_error cfg i with
  | None => None
  | Some t =>
      match step_thread cfg t with
      | None => None
      | Some t' => Some (set_nth i t' cfg)
      end
  end.

Inductive reachable (c0 : config) : config -> Prop :=
| reach_refl : reachable c0 c0
| reach_step : forall c i c', reachable c0 c -> step c i = Some c' -> reachable c0 c'.

(* run a schedule (list of thread numbers); None if some scheduled thread could not move *)
Fixpoint run (cfg : config) (sched : list nat) : option config :=
  match sched with
  | [] => Some cfg
  | i :: r => match step cfg i with None => None | Some c => run c r end
  end.

Definition finished (cfg : config) : Prop := forall t, In t cfg -> todo t = [].

Definition finishedb (cfg : config) : bool :=
  forallb (fun t => match todo t with [] => true | _ => false end) cfg.

(* deadlock: somebody still has something to do and nobody can move *)
Definition stuck (cfg : config) : Prop :=
  (exists t, In t cfg /\ todo t <> []) /\ forall i, step cfg i = None.

(* ---------- the lock-order discipline ---------- *)

(* symbolic execution of a program p from the held set hs: every Acquire l happens while every
   held lock is strictly smaller than l, every Release releases a held lock, nothing is held at
   the end. *)
Fixpoint ordered_from (hs : list lock) (p : list action) : bool :=
  match p with
  | [] => match hs with [] => true | _ :: _ => false end
  | Acquire l :: k => forallb (fun h => h <? l) hs && ordered_from (l :: hs) k
  | Release l :: k => holdsb hs l && ordered_from (drop_lock l hs) k
  | Work :: k => ordered_from hs k
  end.

Definition well_ordered (t : thread) : bool := ordered_from (held t) (todo t).

(* NoDup (all_held cfg) says both that no held list has a duplicate and that no lock is held by
   two threads (two positions of cfg): see wf_held_nodup, wf_exclusive in the proofs. *)
Definition wf (cfg : config) : Prop :=
  (forall t, In t cfg -> well_ordered t = true) /\ NoDup (all_held cfg).

Fixpoint nodupb (l : list lock) : bool :=
  match l with
  | [] => true
  | x :: r => negb (holdsb r x) && nodupb r
  end.

Definition wfb (cfg : config) : bool := forallb well_ordered cfg && nodupb (all_held cfg).

(* ---------- the two-lock discipline of h2 ---------- *)

Fixpoint skip_work (p : list action) : list action :=
  match p with
  | Work :: k => skip_work k
  | _ => p
  end.

(* "Work* then exactly [Release l]" *)
Definition closes (l : lock) (p : list action) : bool :=
  match skip_work p with
  | [Release l'] => l' =? l
  | _ => false
  end.

(* A section is, with Work* = any number of Work (possibly none) at every "." :
     . Acquire 0 . Release 0                                   (inner alone)
     . Acquire 0 . Acquire 1 . Release 1 . Release 0           (send_buffer inside inner)
     . Acquire 1 . Release 1                                   (send_buffer alone)
     .                                                          (lock-free work)
   No Work after the final Release of a section: it is the start of the next section. *)
Definition section_ok (s : list action) : bool :=
  match skip_work s with
  | [] => true
  | Acquire 0 :: k =>
      closes 0 k ||
      match skip_work k with
      | Acquire 1 :: k1 =>
          match skip_work k1 with
          | Release 1 :: k2 => closes 0 k2
          | _ => false
          end
      | _ => false
      end
  | Acquire 1 :: k => closes 1 k
  | _ => false
  end.

Definition program_ok (sections : list (list action)) : bool := forallb section_ok sections.

(* a thread that starts with no lock and runs the sections one after the other *)
Definition h2_thread (sections : list (list action)) : thread :=
  {| held := []; todo := concat sections |}.
