(* Executable model of the send path of h2's codec, src/codec/framed_write.rs:
     Encoder::{buffer, has_capacity, unset_frame, is_empty}, FramedWrite::{poll_ready, flush},
     Next::{Data, Continuation}, the chain threshold, max_frame_size enforcement,
   run against a scripted transport (each poll_write / poll_write_vectored consumes one item).

   Header blocks are opaque: the block of FHeaders / FPushPromise is the HPACK encoding h2
   produced (hpack::Encoder is outside this model).  `last_data_frame` is not modelled (it does
   not influence what is written).

   The capacity of the write buffer (BytesMut) decides `has_capacity`; its growth policy is the
   one of bytes 1.x / alloc::RawVec (double, or exactly what is needed if that is more), modelled
   in [put_direct] / [put_limited] -- this part mirrors a dependency, not h2, and is only used for
   has_capacity, never for the bytes written. *)
From H2V Require Import Base.Tac Base.Bytes Gen.FrameConsts Ref.Rfc9113Frame Model.FrameCodec.
Local Open Scope N_scope.

Inductive next :=
| NData (sid flags : N) (payload : list N)     (* Next::Data(frame): payload not yet written *)
| NCont (sid : N) (rest : list N).             (* Next::Continuation: block not yet framed *)

Record wstate := {
  w_buf : list N;        (* buf.get_ref(): everything encoded since the last unset_frame *)
  w_pos : N;             (* buf.position(): how much of it the transport has taken *)
  w_cap : N;             (* buf.get_ref().capacity() *)
  w_next : option next;
  w_max : N;             (* max_frame_size (the peer's SETTINGS_MAX_FRAME_SIZE) *)
  w_chain : N;           (* chain_threshold *)
  w_minbuf : N;          (* min_buffer_capacity *)
  w_vectored : bool }.   (* inner.is_write_vectored(), fixed at construction *)

(* FramedWrite::new followed by set_max_frame_size(max) *)
Definition winit (vectored : bool) (max : N) : wstate :=
  let chain := if vectored then CHAIN_THRESHOLD else CHAIN_THRESHOLD_WITHOUT_VECTORED_IO in
  {| w_buf := []; w_pos := 0; w_cap := DEFAULT_BUFFER_CAPACITY; w_next := None; w_max := max;
     w_chain := chain; w_minbuf := chain + MIN_BUFFER_CAPACITY_EXTRA; w_vectored := vectored |}.

Definition set_w (st : wstate) (buf : list N) (pos cap : N) (nx : option next) : wstate :=
  {| w_buf := buf; w_pos := pos; w_cap := cap; w_next := nx; w_max := w_max st;
     w_chain := w_chain st; w_minbuf := w_minbuf st; w_vectored := w_vectored st |}.

(* ---------------------------------------------------------------------------------------- *)
(* BytesMut capacity (bytes crate): extend_from_slice -> reserve(cnt) *)
Definition put_direct (cap len cnt : N) : N :=
  if cnt <=? cap - len then cap else N.max (N.max (2 * cap) (len + cnt)) 8.

Fixpoint puts_direct (cap len : N) (pieces : list N) : N :=
  match pieces with
  | [] => cap
  | c :: ps => puts_direct (put_direct cap len c) (len + c) ps
  end.

(* through bytes::buf::Limit the default BufMut::put_slice loop runs: chunk_mut() reserves 64
   when the buffer is full, the spare capacity is filled, and so on *)
Fixpoint put_limited (fuel : nat) (cap len cnt : N) : N :=
  match fuel with
  | O => cap
  | S fuel' =>
      if cnt =? 0 then cap else
      let cap1 := if cap =? len then N.max (N.max (2 * cap) (len + 64)) 8 else cap in
      let n := N.min cnt (cap1 - len) in
      put_limited fuel' cap1 (len + n) (cnt - n)
  end.

(* ---------------------------------------------------------------------------------------- *)
(* Encoder *)

Definition is_none {A} (o : option A) : bool := match o with None => true | Some _ => false end.

Definition has_capacity (st : wstate) : bool :=
  is_none (w_next st) && (w_minbuf st <=? w_cap st - lenN (w_buf st)).

(* Encoder::is_empty *)
Definition is_empty (st : wstate) : bool :=
  match w_next st with
  | Some (NData _ _ payload) => lenN payload =? 0
  | _ => lenN (w_buf st) <=? w_pos st
  end.

Inductive bres :=
| BOk (st : wstate)
| BPayloadTooBig              (* Err(UserError::PayloadTooBig) *)
| BPanic.                     (* assert!(has_capacity()), unimplemented!(), panics of the encoders *)

Definition head_pieces : list N := [3; 1; 1; 4].
Definition nz (n : N) : list N := if n =? 0 then [] else [n].

(* a frame encoded straight into the BytesMut *)
Definition append_direct (st : wstate) (bytes : list N) (pieces : list N) (nx : option next) : bres :=
  BOk (set_w st (w_buf st ++ bytes) (w_pos st) (puts_direct (w_cap st) (lenN (w_buf st)) pieces) nx).

(* a frame encoded through limited_write_buf! *)
Definition append_limited (st : wstate) (r : res (list N * option (list N))) (sid : N) : bres :=
  match r with
  | Ok (bytes, cont) =>
      BOk (set_w st (w_buf st ++ bytes) (w_pos st)
                 (put_limited 200 (w_cap st) (lenN (w_buf st)) (lenN bytes))
                 (option_map (NCont sid) cont))
  | Err _ => BPanic
  | Panic => BPanic
  end.

(* Encoder::buffer *)
Definition buffer (st : wstate) (item : frame) : bres :=
  if negb (has_capacity st) then BPanic else
  match item with
  | FData sid flags _ data =>
      let len := lenN data in
      if w_max st <? len then BPayloadTooBig else
      if w_chain st <=? len then
        let buf1 := w_buf st ++ head_encode kind_data flags sid len in
        let cap1 := puts_direct (w_cap st) (lenN (w_buf st)) head_pieces in
        if lenN buf1 <? w_chain st then
          (* self.buf.get_ref().remaining() < chain_threshold: copy a bit of the payload *)
          let extra_bytes := w_chain st - (lenN buf1 - w_pos st) in
          let part := takeN extra_bytes data in
          BOk (set_w st (buf1 ++ part) (w_pos st) (puts_direct cap1 (lenN buf1) (nz (lenN part)))
                     (Some (NData sid flags (dropN extra_bytes data))))
        else BOk (set_w st buf1 (w_pos st) cap1 (Some (NData sid flags data)))
      else
        append_direct st (data_encode sid flags data) (head_pieces ++ nz len) None
  | FHeaders sid flags _ block => append_limited st (headers_encode (w_max st) sid flags block) sid
  | FPushPromise sid flags promised block =>
      append_limited st (push_promise_encode (w_max st) sid flags promised block) sid
  | FSettings s =>
      append_direct st (settings_encode s)
                    (head_pieces ++ flat_map (fun _ => [2; 4]) (settings_pairs s)) None
  | FGoAway last code debug =>
      append_direct st (go_away_encode last code debug) (head_pieces ++ [4; 4] ++ nz (lenN debug)) None
  | FPing ack payload => append_direct st (ping_encode ack payload) (head_pieces ++ [lenN payload]) None
  | FWindowUpdate sid inc => append_direct st (window_update_encode sid inc) (head_pieces ++ [4]) None
  | FReset sid code => append_direct st (reset_encode sid code) (head_pieces ++ [4]) None
  | FPriority _ _ => BPanic
  end.

(* Encoder::unset_frame *)
Inductive ures := UBreak (st : wstate) | UContinue (st : wstate) | UPanic.

Definition unset_frame (st : wstate) : ures :=
  match w_next st with
  | Some (NData _ _ _) => UBreak (set_w st [] 0 (w_cap st) None)
  | Some (NCont sid rest) =>
      match continuation_encode (w_max st) sid rest with
      | Ok (bytes, cont) =>
          UContinue (set_w st bytes 0 (put_limited 200 (w_cap st) 0 (lenN bytes)) (option_map (NCont sid) cont))
      | _ => UPanic
      end
  | None => UBreak (set_w st [] 0 (w_cap st) None)
  end.

(* ---------------------------------------------------------------------------------------- *)
(* the transport, scripted: one item per poll_write{,_vectored} call *)
Inductive titem :=
| TAccept (k : N)        (* Ready(Ok(min(k, offered))) *)
| TPending               (* Pending *)
| TZero                  (* Ready(Ok(0)) *)
| TError.                (* Ready(Err(_)) *)

Definition buf_rest (st : wstate) : list N := dropN (w_pos st) (w_buf st).

(* what poll_write_buf offers to the transport in one call *)
Definition offered (st : wstate) : list N :=
  match w_next st with
  | Some (NData _ _ payload) =>
      if w_vectored st then buf_rest st ++ payload              (* chunks_vectored of the Chain *)
      else if lenN (buf_rest st) =? 0 then payload else buf_rest st   (* Chain::chunk *)
  | _ => buf_rest st
  end.

(* Buf::advance(n) on the Chain / the Cursor *)
Definition advance (st : wstate) (n : N) : wstate :=
  let in_buf := N.min n (lenN (buf_rest st)) in
  match w_next st with
  | Some (NData sid flags payload) =>
      set_w st (w_buf st) (w_pos st + in_buf) (w_cap st) (Some (NData sid flags (dropN (n - in_buf) payload)))
  | nx => set_w st (w_buf st) (w_pos st + in_buf) (w_cap st) nx
  end.

Inductive fres :=
| FReady              (* Poll::Ready(Ok(())) *)
| FPending            (* Poll::Pending *)
| FWriteZero          (* Err(WriteZero) *)
| FIoError            (* Err(_) of the transport *)
| FOutOfScript        (* the script ended: the transport stays Pending for ever *)
| FDiverge            (* a freshly encoded CONTINUATION left the buffer empty: cannot happen *)
| FPanic.

(* between two writes: `while !is_empty` fell through, unset_frame decides *)
Inductive settled := SDone (st : wstate) | SBusy (st : wstate) | SDiverge | SPanic.

Definition settle (st : wstate) : settled :=
  if is_empty st then
    match unset_frame st with
    | UBreak st' => SDone st'
    | UContinue st' => if is_empty st' then SDiverge else SBusy st'
    | UPanic => SPanic
    end
  else SBusy st.

(* FramedWrite::flush; returns the state, the accepted writes (one list per call that accepted
   something), the outcome and the unused script *)
Fixpoint flush (st : wstate) (script : list titem) : wstate * list (list N) * fres * list titem :=
  match settle st with
  | SDone st' => (st', [], FReady, script)
  | SDiverge => (st, [], FDiverge, script)
  | SPanic => (st, [], FPanic, script)
  | SBusy st1 =>
      match script with
      | [] => (st1, [], FOutOfScript, [])
      | TPending :: script' => (st1, [], FPending, script')
      | TError :: script' => (st1, [], FIoError, script')
      | TZero :: script' => (st1, [], FWriteZero, script')
      | TAccept k :: script' =>
          let off := offered st1 in
          let n := N.min k (lenN off) in
          if n =? 0 then (st1, [], FWriteZero, script')
          else
            let '(st2, ws, r, rest) := flush (advance st1 n) script' in
            (st2, takeN n off :: ws, r, rest)
      end
  end.

(* FramedWrite::poll_ready *)
Definition poll_ready (st : wstate) (script : list titem) : wstate * list (list N) * fres * list titem :=
  if has_capacity st then (st, [], FReady, script)
  else
    let '(st1, ws, r, rest) := flush st script in
    match r with
    | FReady => (st1, ws, (if has_capacity st1 then FReady else FPending), rest)
    | _ => (st1, ws, r, rest)
    end.

(* ---------------------------------------------------------------------------------------- *)
(* a caller: a sequence of poll_ready / buffer / flush calls (what proto::Connection does, in
   any order it likes) *)
Inductive op := OpPollReady | OpBuffer (f : frame) | OpFlush.

Inductive obs :=
| ObPoll (r : fres)
| ObFlush (r : fres)
| ObBuffered
| ObPayloadTooBig
| ObPanic.

Definition fres_fatal (r : fres) : bool :=
  match r with FReady => false | FPending => false | _ => true end.

(* stops at the first error / panic / end of script *)
Fixpoint run (ops : list op) (st : wstate) (script : list titem)
  : wstate * list (list N) * list obs :=
  match ops with
  | [] => (st, [], [])
  | OpBuffer f :: ops' =>
      match buffer st f with
      | BOk st' => let '(st2, ws, os) := run ops' st' script in (st2, ws, ObBuffered :: os)
      | BPayloadTooBig => let '(st2, ws, os) := run ops' st script in (st2, ws, ObPayloadTooBig :: os)
      | BPanic => (st, [], [ObPanic])
      end
  | OpPollReady :: ops' =>
      let '(st1, ws1, r, script') := poll_ready st script in
      if fres_fatal r then (st1, ws1, [ObPoll r])
      else let '(st2, ws2, os) := run ops' st1 script' in (st2, ws1 ++ ws2, ObPoll r :: os)
  | OpFlush :: ops' =>
      let '(st1, ws1, r, script') := flush st script in
      if fres_fatal r then (st1, ws1, [ObFlush r])
      else let '(st2, ws2, os) := run ops' st1 script' in (st2, ws1 ++ ws2, ObFlush r :: os)
  end.

(* frames a run buffered successfully, in order (a frame refused with PayloadTooBig or hit by a
   panic is not among them) *)
Fixpoint buffered_frames (ops : list op) (os : list obs) : list frame :=
  match ops, os with
  | OpBuffer f :: ops', ObBuffered :: os' => f :: buffered_frames ops' os'
  | _ :: ops', _ :: os' => buffered_frames ops' os'
  | _, _ => []
  end.

(* everything the encoder still owes the transport *)
Definition pending (st : wstate) : enc_result :=
  match w_next st with
  | Some (NData _ _ payload) => EOk (buf_rest st ++ payload)
  | Some (NCont sid rest) =>
      match continuations_encode (S (length rest)) (w_max st) sid rest with
      | EOk more => EOk (buf_rest st ++ more)
      | e => e
      end
  | None => EOk (buf_rest st)
  end.

Fixpoint encode_all (max : N) (fs : list frame) : enc_result :=
  match fs with
  | [] => EOk []
  | f :: fs' =>
      match encode max f, encode_all max fs' with
      | EOk a, EOk b => EOk (a ++ b)
      | EOk _, e => e
      | e, _ => e
      end
  end.

(* ---------------------------------------------------------------------------------------- *)
(* cutting the emitted octets back into frames with the reference grammar: every frame's
   declared payload length against the limit (used by C12_send_limit and by the oracle) *)
Fixpoint payload_lengths (fuel : nat) (bs : list N) : option (list N) :=
  match fuel with
  | O => None
  | S fuel' =>
      match bs with
      | [] => Some []
      | _ =>
          match declared_length bs with
          | None => None
          | Some len =>
              if 9 + len <=? olen bs then
                option_map (cons len) (payload_lengths fuel' (drop (9 + len) bs))
              else None
          end
      end
  end.

Definition all_payloads_le (max : N) (bs : list N) : bool :=
  match payload_lengths (S (length bs)) bs with
  | Some ls => forallb (fun l => l <=? max) ls
  | None => false
  end.

(* ---------------------------------------------------------------------------------------- *)
(* correspondence with the implementation (modes serialize / writechunk) *)

Fixpoint lists_eqb (a b : list (list N)) : bool :=
  match a, b with
  | [], [] => true
  | x :: a', y :: b' => list_N_eqb x y && lists_eqb a' b'
  | _, _ => false
  end.

Definition fres_code (r : fres) : N :=
  match r with
  | FReady => 0 | FPending => 1 | FWriteZero => 2 | FIoError => 3 | FOutOfScript => 4
  | FDiverge => 5 | FPanic => 6
  end.

(* implementation observations are rendered as numbers: 0..6 = poll_ready outcome (fres_code),
   10..16 = flush outcome + 10, 20 buffered, 21 PayloadTooBig, 22 panic *)
Definition obs_code (o : obs) : N :=
  match o with
  | ObPoll r => fres_code r
  | ObFlush r => 10 + fres_code r
  | ObBuffered => 20
  | ObPayloadTooBig => 21
  | ObPanic => 22
  end.

(* case: (vectored, max_frame_size, ops, script, implementation observations, implementation writes) *)
Definition check_write (c : bool * N * list op * list titem * list N * list (list N)) : bool :=
  let '(vectored, max, ops, script, iobs, iwrites) := c in
  let '(_, ws, os) := run ops (winit vectored max) script in
  list_N_eqb (map obs_code os) iobs && lists_eqb ws iwrites.

(* the boolean form of the write half of C12 on an implementation trace: the bytes the transport
   accepted are a prefix of the reference serialisation of the frames that were buffered; equal
   when the run ended flushed; every frame within the limit *)
Fixpoint is_prefix (a b : list N) : bool :=
  match a, b with
  | [], _ => true
  | x :: a', y :: b' => (x =? y) && is_prefix a' b'
  | _, _ => false
  end.

(* ---------------------------------------------------------------------------------------- *)
(* ORACLES for the send side: only the reference grammar is applied to what the implementation
   wrote. *)

(* one frame through Codec over a transport that accepts everything *)
Definition oracle_serialize (c : N * frame * option (list N)) : bool :=
  let '(max, f, impl) := c in
  match impl with
  | Some bs =>
      match rfc_decode_stream max bs with
      | Some [w] =>
          all_payloads_le max bs &&
          match w, wire_value_of f with
          | WData s e p d, WData s' e' p' d' => (s =? s') && Bool.eqb e e' && opt_N_eqb p p' && list_N_eqb d d'
          | WHeaders s e h p b, WHeaders s' e' h' p' b' =>
              (s =? s') && Bool.eqb e e' && Bool.eqb h h' && list_N_eqb b b'
              && match p, p' with None, None => true | _, _ => false end
          | WPushPromise s h pr b, WPushPromise s' h' pr' b' =>
              (s =? s') && Bool.eqb h h' && (pr =? pr') && list_N_eqb b b'
          | WSettings a ps, WSettings a' ps' =>
              Bool.eqb a a' && list_N_eqb (flat_map (fun p => [fst p; snd p]) ps) (flat_map (fun p => [fst p; snd p]) ps')
          | WPing a o, WPing a' o' => Bool.eqb a a' && list_N_eqb o o'
          | WGoAway l c d, WGoAway l' c' d' => (l =? l') && (c =? c') && list_N_eqb d d'
          | WWindowUpdate s i, WWindowUpdate s' i' => (s =? s') && (i =? i')
          | WRstStream s c, WRstStream s' c' => (s =? s') && (c =? c')
          | _, _ => false
          end
      | _ => false
      end
  | None =>
      (* a refusal is legitimate only for a DATA payload above the limit *)
      match f with FData _ _ _ data => max <? lenN data | _ => false end
  end.

Definition wire_eqb (w w' : wire_frame) : bool :=
  match w, w' with
  | WData s e p d, WData s' e' p' d' => (s =? s') && Bool.eqb e e' && opt_N_eqb p p' && list_N_eqb d d'
  | WHeaders s e h p b, WHeaders s' e' h' p' b' =>
      (s =? s') && Bool.eqb e e' && Bool.eqb h h' && list_N_eqb b b'
      && match p, p' with None, None => true | _, _ => false end
  | WPushPromise s h pr b, WPushPromise s' h' pr' b' =>
      (s =? s') && Bool.eqb h h' && (pr =? pr') && list_N_eqb b b'
  | WSettings a ps, WSettings a' ps' =>
      Bool.eqb a a' && list_N_eqb (flat_map (fun p => [fst p; snd p]) ps) (flat_map (fun p => [fst p; snd p]) ps')
  | WPing a o, WPing a' o' => Bool.eqb a a' && list_N_eqb o o'
  | WGoAway l c d, WGoAway l' c' d' => (l =? l') && (c =? c') && list_N_eqb d d'
  | WWindowUpdate s i, WWindowUpdate s' i' => (s =? s') && (i =? i')
  | WRstStream s c, WRstStream s' c' => (s =? s') && (c =? c')
  | _, _ => false
  end.

(* the complete logical frames at the front of a frame sequence (a trailing open block is dropped);
   None when the CONTINUATION discipline is broken *)
Fixpoint reassemble_prefix (cur : option open_block) (ws : list wire_frame) : option (list wire_frame) :=
  match ws with
  | [] => Some []
  | w :: ws' =>
      match cur with
      | Some o =>
          match w with
          | WContinuation s eh frag =>
              if s =? open_stream o then
                if eh then option_map (cons (open_close (open_extend o frag))) (reassemble_prefix None ws')
                else reassemble_prefix (Some (open_extend o frag)) ws'
              else None
          | _ => None
          end
      | None =>
          match w with
          | WContinuation _ _ _ => None
          | WHeaders s es false p frag => reassemble_prefix (Some (OpenHeaders s es p frag)) ws'
          | WPushPromise s false pr frag => reassemble_prefix (Some (OpenPush s pr frag)) ws'
          | WUnknown _ _ _ _ => None
          | _ => option_map (cons w) (reassemble_prefix None ws')
          end
      end
  end.

Fixpoint wires_prefix (a b : list wire_frame) : bool :=
  match a, b with
  | [], _ => true
  | x :: a', y :: b' => wire_eqb x y && wires_prefix a' b'
  | _, _ => false
  end.

Fixpoint expected_wires (ops : list op) (iobs : list N) : list wire_frame :=
  match ops, iobs with
  | OpBuffer f :: ops', o :: iobs' =>
      if o =? 20 then wire_value_of f :: expected_wires ops' iobs' else expected_wires ops' iobs'
  | _ :: ops', _ :: iobs' => expected_wires ops' iobs'
  | _, _ => []
  end.

Fixpoint last_N (l : list N) (d : N) : N :=
  match l with [] => d | [x] => x | _ :: l' => last_N l' d end.

(* case: (vectored, max, ops, script, implementation observations, implementation writes) *)
Definition oracle_write (c : bool * N * list op * list titem * list N * list (list N)) : bool :=
  let '(_, max, ops, _, iobs, iwrites) := c in
  let bytes := concat iwrites in
  let (frames, tail) := rfc_frames bytes in
  let expected := expected_wires ops iobs in
  match rfc_parse_all max frames with
  | None => false                                            (* something unparsable was written *)
  | Some ws =>
      forallb (fun fr => match declared_length fr with Some l => l <=? max | None => false end) frames
      && match reassemble_prefix None ws with
         | None => false
         | Some logical =>
             wires_prefix logical expected
             && (if last_N iobs 0 =? 10                      (* the run ended with a flush that returned Ready *)
                 then (lenN tail =? 0) && (N.of_nat (length logical) =? N.of_nat (length expected))
                 else true)
         end
  end.
