(* Model of h2's receive-side flow control: src/proto/streams/recv.rs (recv_data with all its
   exits, ignore_data, consume_connection_window, release_connection_capacity, release_capacity,
   release_closed_capacity, clear_recv_buffer, set_target_connection_window, apply_local_settings,
   send_connection_window_update, send_stream_window_updates), the capacity hand-back of
   Inner::recv_data in streams.rs for stream errors, and flow_control.rs (unclaimed_capacity with
   its 1/2 threshold, checked i32 arithmetic).

   Receive-side FlowControl fields:  window_size = the window the peer believes it has;
   available = window_size + capacity the application released that was not yet advertised.

   Labels are whole entries into the mechanism (one received DATA frame, one API call, one
   WINDOW_UPDATE emission ...).  Unmodelled state enters as observed inputs: which exit a DATA frame
   took where that depends on content-length / stream-state checks, whether a stream is still
   receive-streaming when its queued WINDOW_UPDATE is popped, how many buffered bytes a dropped
   handle had.  Outcomes as in Model/SendFlow.v. *)
From H2V Require Import Base.Tac.
Local Open Scope Z_scope.

Definition RMAXW : Z := 2147483647.
Definition RMINW : Z := -2147483648.
Definition RDEFAULT : Z := 65535.

Record rstream := mkR {
  r_id : N;
  r_win : Z;          (* recv_flow.window_size *)
  r_avail : Z;        (* recv_flow.available *)
  r_infl : Z;         (* in_flight_recv_data (u32) *)
  r_pend : bool;      (* is_pending_window_update *)
  r_isrecv : bool;    (* is_recv: the application still holds the receive handle *)
  r_base : Z;         (* ghost: the window size configured for this record (init at creation + acknowledged deltas) *)
  r_done : bool;      (* ghost: observed no longer receive-streaming (no further WINDOW_UPDATE is owed) *)
  r_unl : bool        (* ghost: skipped by a settings iteration, i.e. no longer linked in the store *)
}.

Record rstate := mkK {
  k_win : Z;          (* recv.flow.window_size *)
  k_avail : Z;        (* recv.flow.available *)
  k_infl : Z;         (* recv.in_flight_data *)
  k_init : Z;         (* recv.init_window_sz *)
  k_target : Z;       (* ghost: configured connection window (65535 or the last set_target) *)
  k_strs : list rstream
}.

Inductive rout :=
| RWU (key : N) (inc : Z)     (* WINDOW_UPDATE handed to the codec; key 0 = connection *)
| RRes (v : Z)                (* API result: 0 ok, -3 error *)
| RConnErr
| RStreamErr (key : N).

Inductive routcome :=
| ROk (st : rstate) (outs : list rout)
| RStuck (n : N)
| RPanic (n : N).

(* which exit a DATA frame took inside Recv::recv_data / Inner::recv_data *)
Inductive dkind :=
| DIgnore        (* locally reset stream: ignore_data *)
| DProtoErr      (* not receive-streaming: connection error before any accounting *)
| DStreamErr     (* a stream error after the connection window was charged (stream window overrun,
                    content-length over/underflow): Inner::recv_data hands the capacity back *)
| DConnErr       (* a connection error after the connection window was charged (bad close transition) *)
| DNoRecv        (* receive handle dropped: connection capacity returned at once, stream untouched *)
| DCharged.      (* normal: stream charged, padding auto-released *)

Inductive rlabel :=
| RNew (key : N) (init : Z)
| RRemove (key : N)
| RDataUnknown (sz : Z)                      (* DATA for a forgotten / beyond-GOAWAY stream: ignore_data *)
| RData (key : N) (k : dkind) (sz : Z) (payload : Z) (isrecv : bool)
| RRelease (key : N) (cap : Z)
| RClear (key : N) (isrecv : bool) (to_release : Z)
| RReleaseClosed (key : N)
| RSetTarget (target : Z)
| RApplySettings (new_init : Z) (touched : list N)
| RConnWU
| RStreamWUPop (key : N) (streaming : bool).

Definition in_i32r (z : Z) : bool := (RMINW <=? z) && (z <=? RMAXW).
Definition ras_size (w : Z) : Z := Z.max 0 w.

(* flow_control.rs: unclaimed_capacity (i32 division truncates toward zero) *)
Definition unclaimed (win avail : Z) : option Z :=
  if avail <=? win then None
  else let u := avail - win in
       if u <? Z.quot win 2 then None else Some u.

Fixpoint rfind (key : N) (l : list rstream) : option rstream :=
  match l with
  | [] => None
  | s :: l' => if N.eqb (r_id s) key then Some s else rfind key l'
  end.

Fixpoint rupd (s : rstream) (l : list rstream) : list rstream :=
  match l with
  | [] => []
  | x :: l' => if N.eqb (r_id x) (r_id s) then s :: l' else x :: rupd s l'
  end.

Fixpoint rdel (key : N) (l : list rstream) : list rstream :=
  match l with
  | [] => []
  | x :: l' => if N.eqb (r_id x) key then l' else x :: rdel key l'
  end.

Definition kset_strs (st : rstate) (l : list rstream) : rstate :=
  mkK (k_win st) (k_avail st) (k_infl st) (k_init st) (k_target st) l.
Definition kput (st : rstate) (s : rstream) : rstate := kset_strs st (rupd s (k_strs st)).
Definition kset_flow (st : rstate) (w a i : Z) : rstate :=
  mkK w a i (k_init st) (k_target st) (k_strs st).

(* recv.rs: consume_connection_window *)
Definition consume_conn (st : rstate) (sz : Z) : routcome :=
  if ras_size (k_win st) <? sz then ROk st [RConnErr]
  else if negb (in_i32r (k_win st - sz)) || negb (in_i32r (k_avail st - sz)) then ROk st [RConnErr]
  else ROk (kset_flow st (k_win st - sz) (k_avail st - sz) (k_infl st + sz)) [].

(* recv.rs: release_connection_capacity *)
Definition release_conn (st : rstate) (cap : Z) : routcome :=
  if k_infl st <? cap then RPanic 1                       (* in_flight_data -= capacity: u32 underflow *)
  else if negb (in_i32r (k_avail st + cap)) then RPanic 2 (* debug_assert!(_res.is_ok()) *)
  else ROk (kset_flow st (k_win st) (k_avail st + cap) (k_infl st - cap)) [].

Definition rbind (r : routcome) (f : rstate -> list rout -> routcome) : routcome :=
  match r with ROk st o => f st o | RStuck n => RStuck n | RPanic n => RPanic n end.

Definition rhas_conn_err (o : list rout) : bool :=
  existsb (fun x => match x with RConnErr => true | _ => false end) o.

(* continue with [f] unless the first part reported a connection error *)
Definition rthen (r : routcome) (f : rstate -> routcome) : routcome :=
  rbind r (fun st o => if rhas_conn_err o then ROk st o
                       else match f st with ROk st' o' => ROk st' (o ++ o') | x => x end).

(* recv.rs: release_capacity (also used for the padding auto-release) *)
Definition release_stream (st : rstate) (key : N) (cap : Z) : routcome :=
  match rfind key (k_strs st) with
  | None => RStuck 1
  | Some s =>
    if r_infl s <? cap then ROk st [RRes (-3)]
    else rthen (release_conn st cap) (fun st1 =>
      if negb (in_i32r (r_avail s + cap)) then RPanic 3
      else
      let a := r_avail s + cap in
      let pend := match unclaimed (r_win s) a with Some _ => true | None => r_pend s end in
      ROk (kput st1 (mkR (r_id s) (r_win s) a (r_infl s - cap) pend (r_isrecv s) (r_base s) (r_done s) (r_unl s))) [])
  end.

Fixpoint settings_streams (st : rstate) (delta : Z) (touched : list N) : routcome :=
  match touched with
  | [] => ROk st []
  | key :: t' =>
    match rfind key (k_strs st) with
    | None => RStuck 2
    | Some s =>
      if r_unl s then RStuck 3 else
      let w := r_win s + delta in
      let a := r_avail s + delta in
      if negb (in_i32r w) || negb (in_i32r a) || (RMAXW <? w) then ROk st [RConnErr]
      else
      (* decrease: the stream is queued when released capacity is now due (the fix of the window
         stall); increase: nothing is queued *)
      let pend := if delta <? 0 then match unclaimed w a with Some _ => true | None => r_pend s end
                  else r_pend s in
      settings_streams (kput st (mkR (r_id s) w a (r_infl s) pend (r_isrecv s) (r_base s + delta) (r_done s) (r_unl s))) delta t'
    end
  end.

Fixpoint mem_key (k : N) (l : list N) : bool :=
  match l with [] => false | x :: l' => N.eqb x k || mem_key k l' end.

Fixpoint nodup_keysr (l : list N) : bool :=
  match l with [] => true | x :: l' => negb (mem_key x l') && nodup_keysr l' end.

Definition mark_done (touched : list N) (l : list rstream) : list rstream :=
  map (fun s => if mem_key (r_id s) touched then s
                else mkR (r_id s) (r_win s) (r_avail s) (r_infl s) (r_pend s) (r_isrecv s) (r_base s) (r_done s) true) l.

Definition rstep (st : rstate) (l : rlabel) : routcome :=
  match l with
  | RNew key init =>
    match rfind key (k_strs st) with
    | Some _ => RStuck 10
    | None =>
      if negb ((init =? k_init st) || (init =? 0)) then RStuck 11
      else ROk (kset_strs st (mkR key init init 0 false true init false false :: k_strs st)) []
    end
  | RRemove key =>
    match rfind key (k_strs st) with
    | None => RStuck 12
    | Some s => if r_infl s =? 0 then ROk (kset_strs st (rdel key (k_strs st))) [] else RStuck 13
    end
  | RDataUnknown sz =>
    rthen (consume_conn st sz) (fun st1 => release_conn st1 sz)
  | RData key k sz payload isrecv =>
    match rfind key (k_strs st) with
    | None => RStuck 14
    | Some s =>
      match k with
      | DIgnore => rthen (consume_conn st sz) (fun st1 => release_conn st1 sz)
      | DProtoErr => ROk st [RConnErr]
      | DStreamErr =>
        rthen (consume_conn st sz) (fun st1 =>
          match release_conn st1 sz with ROk st2 o => ROk st2 (o ++ [RStreamErr key]) | x => x end)
      | DConnErr => rthen (consume_conn st sz) (fun st1 => ROk st1 [RConnErr])
      | DNoRecv =>
        if isrecv then RStuck 15 else
        rthen (consume_conn st sz) (fun st1 =>
          if ras_size (r_win s) <? sz then RStuck 16      (* that would have been a stream error *)
          else release_conn st1 sz)
      | DCharged =>
        if negb isrecv then RStuck 17 else
        if negb (r_isrecv s) then RStuck 27 else              (* is_recv is only ever cleared (streams.rs clear_recv_buffer): a
                                                                 record whose handle was dropped is never charged again *)
        rthen (consume_conn st sz) (fun st1 =>
          if ras_size (r_win s) <? sz then RStuck 18
          else if negb (in_i32r (r_win s - sz)) || negb (in_i32r (r_avail s - sz)) then ROk st1 [RConnErr]
          else
          let st2 := kput st1 (mkR (r_id s) (r_win s - sz) (r_avail s - sz) (r_infl s + sz)
                                   (r_pend s) isrecv (r_base s) (r_done s) (r_unl s)) in
          let pad := sz - payload in
          if 0 <? pad then
            match release_stream st2 key pad with
            | ROk st3 [] => ROk st3 []
            | ROk _ _ => RPanic 4                         (* debug_assert!(_res.is_ok()) on the padding release *)
            | x => x
            end
          else ROk st2 [])
      end
    end
  | RRelease key cap => release_stream st key cap
  | RClear key isrecv to_release =>
    match rfind key (k_strs st) with
    | None => RStuck 19
    | Some s =>
      if isrecv then RStuck 26                            (* OpaqueStreamRef::clear_recv_buffer clears is_recv first *)
      else if r_infl s <? to_release then RStuck 20       (* the code takes min(.., in_flight_recv_data) *)
      else
      let s' := mkR (r_id s) (r_win s) (r_avail s) (r_infl s - to_release) (r_pend s) isrecv (r_base s) (r_done s) (r_unl s) in
      if 0 <? to_release then release_conn (kput st s') to_release
      else ROk (kput st s') []
    end
  | RReleaseClosed key =>
    match rfind key (k_strs st) with
    | None => RStuck 21
    | Some s =>
      let s' := mkR (r_id s) (r_win s) (r_avail s) 0 (r_pend s) (r_isrecv s) (r_base s) true (r_unl s) in
      if r_infl s =? 0 then ROk (kput st s') []
      else release_conn (kput st s') (r_infl s)
    end
  | RSetTarget target =>
    let current := k_avail st + k_infl st in
    if negb (in_i32r current) then ROk st [RRes (-3)]
    else if current <? 0 then RPanic 5                    (* checked_size: assert!(self.0 >= 0) *)
    else
    let a := if current <? target then k_avail st + (target - current) else k_avail st - (current - target) in
    if negb (in_i32r a) then ROk st [RRes (-3)]
    else ROk (mkK (k_win st) a (k_infl st) (k_init st) target (k_strs st)) []
  | RApplySettings new_init touched =>
    if negb (nodup_keysr touched) then RStuck 22 else
    let delta := new_init - k_init st in
    let st0 := mkK (k_win st) (k_avail st) (k_infl st) new_init (k_target st) (k_strs st) in
    if delta =? 0 then (match touched with [] => ROk st0 [] | _ => RStuck 23 end)
    else match settings_streams st0 delta touched with
         | ROk st1 o =>
           if rhas_conn_err o then ROk st1 o
           else ROk (kset_strs st1 (mark_done touched (k_strs st1))) o
         | x => x
         end
  | RConnWU =>
    match unclaimed (k_win st) (k_avail st) with
    | None => RStuck 24                                    (* no WINDOW_UPDATE is emitted then *)
    | Some incr =>
      if negb (in_i32r (k_win st + incr)) || (RMAXW <? k_win st + incr) then RPanic 6   (* expect("unexpected flow control state") *)
      else ROk (kset_flow st (k_win st + incr) (k_avail st) (k_infl st)) [RWU 0 incr]
    end
  | RStreamWUPop key streaming =>
    match rfind key (k_strs st) with
    | None => RStuck 25
    | Some s =>
      if negb streaming then
        ROk (kput st (mkR (r_id s) (r_win s) (r_avail s) (r_infl s) false (r_isrecv s) (r_base s) true (r_unl s))) []
      else
      match unclaimed (r_win s) (r_avail s) with
      | None => ROk (kput st (mkR (r_id s) (r_win s) (r_avail s) (r_infl s) false (r_isrecv s) (r_base s) (r_done s) (r_unl s))) []
      | Some incr =>
        if negb (in_i32r (r_win s + incr)) || (RMAXW <? r_win s + incr) then RPanic 7
        else ROk (kput st (mkR (r_id s) (r_win s + incr) (r_avail s) (r_infl s) false (r_isrecv s) (r_base s) (r_done s) (r_unl s)))
                 [RWU key incr]
      end
    end
  end.

Definition rinit_state : rstate := mkK RDEFAULT RDEFAULT 0 RDEFAULT RDEFAULT [].

Fixpoint rrun (st : rstate) (ls : list rlabel) : option (rstate * list (list rout)) + (N * routcome) :=
  match ls with
  | [] => inl (Some (st, []))
  | l :: ls' =>
    match rstep st l with
    | ROk st1 o =>
      match rrun st1 ls' with
      | inl (Some (st2, os)) => inl (Some (st2, o :: os))
      | inl None => inl None
      | inr (k, r) => inr (N.succ k, r)
      end
    | r => inr (0%N, r)
    end
  end.

(* ---------------------------------------------------------------------------------------------
   Correspondence *)

Definition rout_eqb (a b : rout) : bool :=
  match a, b with
  | RWU k i, RWU k' i' => N.eqb k k' && (i =? i')
  | RRes v, RRes v' => v =? v'
  | RConnErr, RConnErr => true
  | RStreamErr k, RStreamErr k' => N.eqb k k'
  | _, _ => false
  end.

Fixpoint routs_eqb (a b : list rout) : bool :=
  match a, b with
  | [], [] => true
  | x :: a', y :: b' => rout_eqb x y && routs_eqb a' b'
  | _, _ => false
  end.

(* observed pre-state: stream (key, win, avail, in_flight, pending), connection (win, avail, in_flight, init);
   observed outputs restricted to WINDOW_UPDATE emissions and API results when given *)
Record rexpect := mkRE {
  re_s : option (N * (Z * Z * Z * bool));
  re_c : option (Z * Z * Z * Z);
  re_outs : option (list rout)
}.

Definition rcheck_pre (st : rstate) (e : rexpect) : bool :=
  (match re_s e with
   | None => true
   | Some (key, (w, a, i, p)) =>
     match rfind key (k_strs st) with
     | None => false
     | Some s => (r_win s =? w) && (r_avail s =? a) && (r_infl s =? i) && Bool.eqb (r_pend s) p
     end
   end) &&
  (match re_c e with
   | None => true
   | Some (w, a, i, n) => (k_win st =? w) && (k_avail st =? a) && (k_infl st =? i) && (k_init st =? n)
   end).

Fixpoint rcheck_run (st : rstate) (i : N) (ls : list (rlabel * rexpect)) : N :=
  match ls with
  | [] => 0%N
  | (l, e) :: ls' =>
    if negb (rcheck_pre st e) then (10 * (i + 1) + 1)%N
    else match rstep st l with
         | ROk st1 o =>
           match re_outs e with
           | Some eo => if routs_eqb o eo then rcheck_run st1 (i + 1) ls' else (10 * (i + 1) + 2)%N
           | None => rcheck_run st1 (i + 1) ls'
           end
         | RStuck _ => (10 * (i + 1) + 3)%N
         | RPanic _ => (10 * (i + 1) + 4)%N
         end
  end.

Fixpoint rrun_state (st : rstate) (ls : list (rlabel * rexpect)) : option rstate :=
  match ls with
  | [] => Some st
  | (l, _) :: ls' => match rstep st l with ROk st1 _ => rrun_state st1 ls' | _ => None end
  end.

Definition rfinal_ok (st : rstate) (fin : option ((Z * Z * Z * Z) * list (N * (Z * Z * Z * bool)))) : bool :=
  match fin with
  | None => true
  | Some (c, ss) =>
    rcheck_pre st (mkRE None (Some c) None) &&
    forallb (fun x => rcheck_pre st (mkRE (Some x) None None)) ss &&
    (N.of_nat (length ss) =? N.of_nat (length (k_strs st)))%N
  end.

Definition check_recvflow (c : list (rlabel * rexpect) * option ((Z * Z * Z * Z) * list (N * (Z * Z * Z * bool)))) : bool :=
  let '(ls, fin) := c in
  (rcheck_run rinit_state 0 ls =? 0)%N &&
  match rrun_state rinit_state ls with Some st => rfinal_ok st fin | None => false end.

Definition diag_recvflow (c : list (rlabel * rexpect) * option ((Z * Z * Z * Z) * list (N * (Z * Z * Z * bool)))) : N :=
  rcheck_run rinit_state 0 (fst c).
