(* Model of the connection control plane of h2:

     src/proto/settings.rs    Settings { local: ToSend|WaitingAck|Synced, remote: Option, has_received_remote_initial_settings }
     src/proto/ping_pong.rs   PingPong { pending_ping, pending_pong, user_pings } and the lock-free user-ping cell
     src/proto/go_away.rs     GoAway { close_now, going_away, is_user_initiated, pending }
     src/proto/connection.rs  State::{Open,Closing,Closed}, error, poll / poll2 / handle_poll2_result / handle_go_away /
                              go_away* / recv_frame / take_error / go_away_gracefully / maybe_close_connection_if_no_streams
   and of the three stream-layer numbers GOAWAY needs (Recv::last_processed_id, Recv::max_stream_id, Send::max_stream_id).

   Labels are the hooked calls in the granularity the code executes them.  Where the code calls `dst.poll_ready(cx)?` the
   result is an observed input (`codec`): Ready, NotReady (Poll::Pending) or IoErr (the `?` fires).  What the unmodelled
   stream layer answers (errors of apply_*_settings, whether a HEADERS frame raised last_processed_id, has_streams, ...) is an
   observed input as well; theorems quantify over all of them.

   `SStuck` = a label that the control flow of Connection::poll / poll2 makes impossible in that state (poll2 calls, in this
   order, poll_go_away; send_pending_pong; send_pending_ping; settings.poll_send; [send_pending_refusal]; poll_next+recv_frame,
   and leaves the loop as soon as one of them is not ready): the guards are state predicates, the lock-step correspondence
   checks on every run that the implementation never takes a Stuck label, and Proofs/ControlProofs.v (poll2_order) proves
   that the guards are exactly what the preceding calls of the same loop iteration establish.
   `SPanic` = an assert!/assert_eq!/debug_assert_eq! of the code fires.

   Numbers: N.  Stream ids < 2^31, reasons < 2^32, PING payloads are the 8 octets read big-endian. *)
From H2V Require Import Base.Tac Base.Bytes.
Local Open Scope N_scope.

Definition MAX_ID : N := 2147483647.       (* StreamId::MAX = u32::MAX >> 1 *)
Definition NO_ERROR : N := 0.
Definition PROTOCOL_ERROR : N := 1.

Definition be8 (l : list N) : N := fold_left (fun a b => a * 256 + b) l 0.
(* frame/ping.rs: SHUTDOWN_PAYLOAD, USER_PAYLOAD (the correspondence re-reads them from the source on every run) *)
Definition PING_SHUTDOWN : N := be8 [11; 123; 162; 240; 139; 155; 254; 84].
Definition PING_USER : N := be8 [59; 124; 219; 122; 11; 135; 22; 180].

(* the parameters of a SETTINGS frame (frame::Settings), None = absent *)
Record sparams := mkSP {
  sp_hts : option N; sp_push : option N; sp_mcs : option N; sp_iws : option N;
  sp_mfs : option N; sp_mhls : option N; sp_ecp : option N
}.

Inductive local := LToSend (p : sparams) | LWaitingAck (p : sparams) | LSynced.
Inductive ucell := UEmpty | UPendingPing | UPendingPong | UReceivedPong | UClosed.
Inductive initiator := IUser | ILibrary | IRemote.
Inductive cstate := COpen | CClosing (r : N) (i : initiator) | CClosed (r : N) (i : initiator).
Definition gframe := (N * N * list N)%type.       (* GOAWAY: last_stream_id, reason, debug data *)

Record st := mkS {
  s_local : local; s_remote : option sparams; s_initial : bool;                         (* settings.rs *)
  p_ping : option (N * bool); p_pong : option N; p_user : option ucell;                (* ping_pong.rs: (payload, sent) *)
  g_close_now : bool; g_going : option (N * N); g_user : bool; g_pending : option gframe;   (* go_away.rs *)
  c_state : cstate; c_error : option gframe;                                            (* connection.rs *)
  r_last : N; r_max : N; s_max : N          (* Recv::last_processed_id, Recv::max_stream_id, Send::max_stream_id *)
}.

Definition set_settings (s : st) (l : local) (r : option sparams) (i : bool) : st :=
  mkS l r i (p_ping s) (p_pong s) (p_user s) (g_close_now s) (g_going s) (g_user s) (g_pending s) (c_state s) (c_error s)
      (r_last s) (r_max s) (s_max s).
Definition set_ping (s : st) (pi : option (N * bool)) (po : option N) (u : option ucell) : st :=
  mkS (s_local s) (s_remote s) (s_initial s) pi po u (g_close_now s) (g_going s) (g_user s) (g_pending s) (c_state s) (c_error s)
      (r_last s) (r_max s) (s_max s).
Definition set_ga (s : st) (cn : bool) (g : option (N * N)) (u : bool) (p : option gframe) : st :=
  mkS (s_local s) (s_remote s) (s_initial s) (p_ping s) (p_pong s) (p_user s) cn g u p (c_state s) (c_error s)
      (r_last s) (r_max s) (s_max s).
Definition set_conn (s : st) (c : cstate) (e : option gframe) : st :=
  mkS (s_local s) (s_remote s) (s_initial s) (p_ping s) (p_pong s) (p_user s) (g_close_now s) (g_going s) (g_user s) (g_pending s) c e
      (r_last s) (r_max s) (s_max s).
Definition set_ids (s : st) (rl rm sm : N) : st :=
  mkS (s_local s) (s_remote s) (s_initial s) (p_ping s) (p_pong s) (p_user s) (g_close_now s) (g_going s) (g_user s) (g_pending s)
      (c_state s) (c_error s) rl rm sm.

(* Connection::new: the initial local SETTINGS were written by the handshake *)
Definition init (p0 : sparams) : st :=
  mkS (LWaitingAck p0) None false None None None false None false None COpen None 0 MAX_ID MAX_ID.

(* ---------------------------------------------------------------------------------------------- observed inputs, outputs *)

Inductive codec := Ready | NotReady | IoErr.

(* the value poll2 hands to handle_poll2_result *)
Inductive p2res :=
| ROk
| RGoAway (reason : N) (debug : list N) (i : initiator)      (* Err(Error::GoAway) *)
| RReset (i : initiator) (ga : option (N * list N))           (* Err(Error::Reset(_, _, i)); if streams.send_reset is reached: did it
                                                                 fail with GoAway { reason, debug_data }? *)
| RIo (empty_eof : bool) (is_server : bool).                  (* Err(Error::Io): is_buffer_empty && kind == UnexpectedEof; is_server *)

Inductive wframe :=
| WSettingsAck | WSettings (p : sparams) | WPing (ack : bool) (payload : N) | WGoAway (last reason : N) (debug : list N).

Inductive waker := WPingTask | WPongTask.
Inductive apires := AOk | ANone | APingOk | APending | APong | AErrSettingsPending | AErrPingPending | AErrBrokenPipe.
Inductive connres := CROk | CRGoAway (debug : list N) (reason : N) (i : initiator) | CRIo.

Inductive out :=
| OFrame (f : wframe)                          (* dst.buffer(frame) *)
| OApplyRemote (p : sparams) (is_initial : bool)   (* streams.apply_remote_settings Ok + codec send-side updates *)
| OApplyRemoteFailed
| OApplyLocal (p : sparams)                    (* codec receive-side updates + streams.apply_local_settings Ok *)
| OApplyLocalFailed
| OLostPong (payload : N)                      (* pending_pong.take() followed by an I/O error of poll_ready *)
| OProcessed (id : N)                          (* Recv::recv_headers raised last_processed_id to id *)
| ORecvMax (id : N)                            (* streams.send_go_away(id): Recv::max_stream_id := id *)
| OStreamsError                                (* streams.handle_error(..): every stream is failed *)
| OStreamsGoAway (last reason : N) (debug : list N)   (* streams.recv_go_away Ok: local streams above `last` fail with `reason` *)
| OSendReset                                   (* streams.send_reset(id, reason) Ok *)
| ORecvEof                                     (* streams.recv_eof *)
| OWake (w : waker) | OReg (w : waker)
| OUserAck                                     (* the user-ping cell went PENDING_PONG -> RECEIVED_PONG *)
| OApi (r : apires)
| OConnResult (r : connres).                   (* what Connection::poll returns *)

(* how the enclosing function continues after the label *)
Inductive flow :=
| FNext        (* falls through to the next call of the same function / loop iteration *)
| FPending     (* poll2 (or poll) returns Poll::Pending *)
| FRaiseIo     (* poll2 returns Err(Error::Io): next is LResult (RIo ..) *)
| FLoop        (* handle_poll2_result ran; back to the top of Connection::poll's loop *)
| FReturn.     (* Connection::poll returns Ready *)

Inductive outcome := SOk (s : st) (o : list out) (f : flow) | SStuck (n : N) | SPanic (n : N).

Inductive inframe :=
| InSettings (p : sparams)                     (* SETTINGS without ACK *)
| InSettingsAck (apply_err : option N)         (* SETTINGS ACK; if streams.apply_local_settings is reached: Ok, or the reason of the
                                                  Error::library_go_away it returned (its only kind of error) *)
| InPing (ack : bool) (payload : N)
| InGoAway (last reason : N) (debug : list N)
| InHeaders (id : N) (raised : bool)           (* streams.recv_headers; raised: last_processed_id was raised to id *)
| InOther                                      (* DATA, RST_STREAM, PUSH_PROMISE, WINDOW_UPDATE, PRIORITY *)
| InEof.                                       (* poll_next returned None *)

Inductive label :=
(* application-facing API *)
| LSendSettings (p : sparams)                  (* Settings::send_settings (set_initial_window_size, enable_connect_protocol) *)
| LGraceful                                    (* server Connection::go_away_gracefully *)
| LAbrupt (reason : N)                         (* go_away_from_user *)
| LTakeUserPings | LUserSendPing | LUserPollPong
| LDropConn                                    (* Drop for UserPingsRx *)
(* Connection::poll *)
| LMaybeClose                                  (* client: maybe_close_connection_if_no_streams with no streams or references left *)
| LIdle (has_streams : bool)                   (* poll2 returned Pending and streams.poll_complete is ready *)
| LShutdown (c : codec)                        (* State::Closing: codec.shutdown *)
| LTakeError                                   (* State::Closed: take_error *)
(* poll2 *)
| LPollGoAway (c : codec)
| LPollPong (c : codec)
| LPollPing (c : codec)
| LSettingsAck (c : codec) (apply_err : option N)        (* first half of Settings::poll_send; apply_err: what
                                                            streams.apply_remote_settings returned (None = Ok, Some reason = library_go_away) *)
| LSettingsLocal (c : codec)                             (* second half of Settings::poll_send *)
| LRecv (f : inframe)                          (* poll_next returned a frame (or None); recv_frame *)
| LResult (r : p2res).                         (* handle_poll2_result on an error raised by unmodelled code *)

(* ---------------------------------------------------------------------------------------------- go_away.rs *)

Definition opt_pair_eqb (a : option (N * N)) (l r : N) : bool :=
  match a with Some (l', r') => (l' =? l) && (r' =? r) | None => false end.

(* GoAway::go_away *)
Definition ga_go_away (s : st) (f : gframe) : st + N :=
  let '(l, r, _) := f in
  match g_going s with
  | Some (gl, _) =>
    if l <=? gl then inl (set_ga s (g_close_now s) (Some (l, r)) (g_user s) (Some f))
    else inr 3                                 (* assert!(f.last_stream_id() <= going_away.last_processed_id) *)
  | None => inl (set_ga s (g_close_now s) (Some (l, r)) (g_user s) (Some f))
  end.

(* GoAway::go_away_now *)
Definition ga_go_away_now (s : st) (f : gframe) : st + N :=
  let '(l, r, _) := f in
  let s1 := set_ga s true (g_going s) (g_user s) (g_pending s) in
  if opt_pair_eqb (g_going s) l r then inl s1 else ga_go_away s1 f.

Definition should_close_now (s : st) : bool :=
  match g_pending s with None => g_close_now s | Some _ => false end.

Definition should_close_on_idle (s : st) : bool :=
  negb (g_close_now s) && match g_going s with Some (l, _) => negb (l =? MAX_ID) | None => false end.

(* DynConnection::go_away(id, e): streams.send_go_away(id) = Recv::go_away, then GoAway::go_away *)
Definition conn_go_away (s : st) (id e : N) : st + N :=
  if r_max s <? id then inr 1                  (* assert!(self.max_stream_id >= last_processed_id) in Recv::go_away *)
  else ga_go_away (set_ids s (r_last s) id (s_max s)) (id, e, []).

(* ---------------------------------------------------------------------------------------------- handle_poll2_result *)

Definition lift (r : st + N) (o : list out) (f : flow) : outcome :=
  match r with inl s => SOk s o f | inr n => SPanic n end.

(* DynConnection::handle_go_away *)
Definition handle_go_away (s : st) (o : list out) (reason : N) (debug : list N) (i : initiator) : outcome :=
  if match g_going s with Some (_, r) => r =? reason | None => false end
  then SOk (set_conn s (CClosing reason i) (c_error s)) o FLoop
  else lift (ga_go_away_now s (r_last s, reason, debug)) (o ++ [OStreamsError]) FLoop.

Definition error_is_no_error (s : st) : bool :=
  match c_error s with Some (_, r, _) => r =? NO_ERROR | None => false end.

Definition handle_result (s : st) (o : list out) (r : p2res) : outcome :=
  match r with
  | ROk => SOk (set_conn s (CClosing NO_ERROR ILibrary) (c_error s)) o FLoop
  | RGoAway reason debug i => handle_go_away s o reason debug i
  | RReset IRemote _ | RReset IUser _ => SOk s o FLoop     (* initiator != Library: already applied, nothing is sent; the
                                                              debug_assert_eq!(initiator, Library) behind it cannot fire *)
  | RReset ILibrary None => SOk s (o ++ [OSendReset]) FLoop
  | RReset ILibrary (Some (reason, debug)) => handle_go_away s o reason debug ILibrary
  | RIo empty_eof is_server =>
    if empty_eof && (is_server || error_is_no_error s)
    then SOk (set_conn s (CClosed NO_ERROR ILibrary) (c_error s)) (o ++ [OStreamsError]) FLoop
    else SOk s (o ++ [OStreamsError; OConnResult CRIo]) FReturn
  end.

(* ---------------------------------------------------------------------------------------------- guards *)

Definition is_open (s : st) : bool := match c_state s with COpen => true | _ => false end.

(* poll2 reaches poll_ready only after poll_go_away returned Ready(None) *)
Definition in_poll_ready (s : st) : bool :=
  is_open s && match g_pending s with None => true | Some _ => false end && negb (g_close_now s).

(* poll2 reaches poll_next only after every call of poll_ready returned Ready *)
Definition can_recv (s : st) : bool :=
  in_poll_ready s &&
  match p_pong s with None => true | Some _ => false end &&
  match p_ping s with Some (_, false) => false | _ => true end &&
  match s_remote s with None => true | Some _ => false end &&
  match s_local s with LToSend _ => false | _ => true end.

(* ---------------------------------------------------------------------------------------------- the steps *)

(* poll2 after poll_go_away returned Ready(Some(Ok(reason))) *)
Definition after_go_away (s : st) (o : list out) (reason : N) : outcome :=
  if should_close_now s then
    if g_user s then handle_result s o ROk
    else handle_result s o (RGoAway reason [] ILibrary)
  else if reason =? NO_ERROR then SOk s o FNext
  else SPanic 4.                               (* debug_assert_eq!(reason, Reason::NO_ERROR) *)

Definition user_receive_pong (u : option ucell) (payload : N) : option ucell * list out :=
  match u with
  | Some UPendingPong => if payload =? PING_USER then (Some UReceivedPong, [OUserAck; OWake WPongTask]) else (u, [])
  | _ => (u, [])
  end.

Definition recv_frame (s : st) (f : inframe) : outcome :=
  match f with
  | InSettings p =>
    match s_remote s with
    | Some _ => SPanic 5                       (* assert!(self.remote.is_none()) *)
    | None => SOk (set_settings s (s_local s) (Some p) (s_initial s)) [] FNext
    end
  | InSettingsAck apply_err =>
    match s_local s with
    | LWaitingAck p =>
      match apply_err with
      | None => SOk (set_settings s LSynced (s_remote s) (s_initial s)) [OApplyLocal p] FNext
      | Some r => handle_result s [OApplyLocalFailed] (RGoAway r [] ILibrary)
      end
    | LToSend _ | LSynced => handle_result s [] (RGoAway PROTOCOL_ERROR [] ILibrary)
    end
  | InPing ack payload =>
    match p_pong s with
    | Some _ => SPanic 6                       (* assert!(self.pending_pong.is_none()) *)
    | None =>
      if ack then
        let user_path :=
          let '(u, o) := user_receive_pong (p_user s) payload in
          SOk (set_ping s (p_ping s) None u) o FNext in
        match p_ping s with
        | Some (pl, _) =>
          if pl =? payload then
            if negb (pl =? PING_SHUTDOWN) then SPanic 7      (* assert_eq!(pending.payload, Ping::SHUTDOWN) *)
            else
              let s1 := set_ping s None None (p_user s) in
              match g_going s1 with
              | None => SPanic 8               (* assert!(self.go_away.is_going_away()) *)
              | Some _ => lift (conn_go_away s1 (r_last s1) NO_ERROR) [ORecvMax (r_last s1)] FNext
              end
          else user_path
        | None => user_path
        end
      else SOk (set_ping s (p_ping s) (Some payload) (p_user s)) [] FNext
    end
  | InGoAway last reason debug =>
    if s_max s <? last then handle_result s [] (RGoAway PROTOCOL_ERROR [] ILibrary)
    else SOk (set_conn (set_ids s (r_last s) (r_max s) last) (c_state s) (Some (last, reason, debug)))
             [OStreamsGoAway last reason debug] FNext
  | InHeaders id raised =>
    if raised then
      if r_max s <? id then SStuck 11          (* Inner::recv_headers ignores ids above max_stream_id *)
      else if id <=? r_last s then SStuck 12
      else SOk (set_ids s id (r_max s) (s_max s)) [OProcessed id] FNext
    else SOk s [] FNext
  | InOther => SOk s [] FNext
  | InEof => handle_result s [ORecvEof] ROk
  end.

Definition cstep (s : st) (l : label) : outcome :=
  match l with
  | LSendSettings p =>
    match s_local s with
    | LSynced => SOk (set_settings s (LToSend p) (s_remote s) (s_initial s)) [OApi AOk] FNext
    | _ => SOk s [OApi AErrSettingsPending] FNext
    end
  | LGraceful =>
    match g_going s with
    | Some _ => SOk s [] FNext
    | None =>
      match conn_go_away s MAX_ID NO_ERROR with
      | inr n => SPanic n
      | inl s1 =>
        match p_ping s1 with
        | Some _ => SPanic 2                   (* assert!(self.pending_ping.is_none()) in ping_shutdown *)
        | None => SOk (set_ping s1 (Some (PING_SHUTDOWN, false)) (p_pong s1) (p_user s1)) [ORecvMax MAX_ID] FNext
        end
      end
    end
  | LAbrupt reason =>
    lift (ga_go_away_now (set_ga s (g_close_now s) (g_going s) true (g_pending s)) (r_last s, reason, [])) [OStreamsError] FNext
  | LTakeUserPings =>
    match p_user s with
    | Some _ => SOk s [OApi ANone] FNext
    | None => SOk (set_ping s (p_ping s) (p_pong s) (Some UEmpty)) [OApi AOk] FNext
    end
  | LUserSendPing =>
    match p_user s with
    | None => SStuck 20
    | Some UEmpty => SOk (set_ping s (p_ping s) (p_pong s) (Some UPendingPing)) [OWake WPingTask; OApi APingOk] FNext
    | Some UClosed => SOk s [OApi AErrBrokenPipe] FNext
    | Some _ => SOk s [OApi AErrPingPending] FNext
    end
  | LUserPollPong =>
    match p_user s with
    | None => SStuck 21
    | Some UReceivedPong => SOk (set_ping s (p_ping s) (p_pong s) (Some UEmpty)) [OReg WPongTask; OApi APong] FNext
    | Some UClosed => SOk s [OReg WPongTask; OApi AErrBrokenPipe] FNext
    | Some _ => SOk s [OReg WPongTask; OApi APending] FNext
    end
  | LDropConn =>
    match p_user s with
    | None => SOk s [] FNext
    | Some _ => SOk (set_ping s (p_ping s) (p_pong s) (Some UClosed)) [OWake WPongTask] FNext
    end
  | LMaybeClose => lift (ga_go_away_now s (r_last s, NO_ERROR, [])) [] FNext
  | LIdle has_streams =>
    if negb (is_open s) then SStuck 30
    else if (match c_error s with Some _ => true | None => false end || should_close_on_idle s) && negb has_streams
    then lift (ga_go_away_now s (r_last s, NO_ERROR, [])) [] FNext
    else SOk s [] FPending
  | LShutdown c =>
    match c_state s with
    | CClosing r i =>
      match c with
      | Ready => SOk (set_conn s (CClosed r i) (c_error s)) [] FNext
      | NotReady => SOk s [] FPending
      | IoErr => SOk s [OConnResult CRIo] FReturn
      end
    | _ => SStuck 31
    end
  | LTakeError =>
    match c_state s with
    | CClosed ours i =>
      let '(debug, theirs) := match c_error s with Some (_, r, d) => (d, r) | None => ([], NO_ERROR) end in
      let res := if theirs =? NO_ERROR then (if ours =? NO_ERROR then CROk else CRGoAway [] ours i)
                 else CRGoAway debug theirs IRemote in
      SOk (set_conn s (c_state s) None) [OConnResult res] FReturn
    | _ => SStuck 32
    end
  | LPollGoAway c =>
    if negb (is_open s) then SStuck 33
    else match g_pending s with
         | Some (l, r, d) =>
           match c with
           | NotReady => SOk s [] FPending
           | IoErr => SOk (set_ga s (g_close_now s) (g_going s) (g_user s) None) [] FRaiseIo
           | Ready => after_go_away (set_ga s (g_close_now s) (g_going s) (g_user s) None) [OFrame (WGoAway l r d)] r
           end
         | None =>
           if g_close_now s then
             match g_going s with
             | Some (_, r) => after_go_away s [] r
             | None => SOk s [] FNext
             end
           else SOk s [] FNext
         end
  | LPollPong c =>
    if negb (in_poll_ready s) then SStuck 34
    else match p_pong s with
         | None => SOk s [] FNext
         | Some pl =>
           match c with
           | NotReady => SOk s [] FPending
           | IoErr => SOk (set_ping s (p_ping s) None (p_user s)) [OLostPong pl] FRaiseIo
           | Ready => SOk (set_ping s (p_ping s) None (p_user s)) [OFrame (WPing true pl)] FNext
           end
         end
  | LPollPing c =>
    if negb (in_poll_ready s) then SStuck 35
    else match p_ping s with
         | Some (pl, false) =>
           match c with
           | NotReady => SOk s [] FPending
           | IoErr => SOk s [] FRaiseIo
           | Ready => SOk (set_ping s (Some (pl, true)) (p_pong s) (p_user s)) [OFrame (WPing false pl)] FNext
           end
         | Some (_, true) => SOk s [] FNext
         | None =>
           match p_user s with
           | None => SOk s [] FNext
           | Some UPendingPing =>
             match c with
             | NotReady => SOk s [] FPending
             | IoErr => SOk s [] FRaiseIo
             | Ready => SOk (set_ping s None (p_pong s) (Some UPendingPong)) [OFrame (WPing false PING_USER)] FNext
             end
           | Some _ => SOk s [OReg WPingTask] FNext
           end
         end
  | LSettingsAck c apply_err =>
    if negb (in_poll_ready s) then SStuck 36
    else match s_remote s with
         | None => SOk s [] FNext
         | Some p =>
           match c with
           | NotReady => SOk s [] FPending
           | IoErr => SOk s [] FRaiseIo
           | Ready =>
             let is_initial := negb (s_initial s) in
             match apply_err with
             | None => SOk (set_settings s (s_local s) None true) [OFrame WSettingsAck; OApplyRemote p is_initial] FNext
             | Some r => handle_result (set_settings s (s_local s) (s_remote s) true) [OFrame WSettingsAck; OApplyRemoteFailed]
                                       (RGoAway r [] ILibrary)
             end
           end
         end
  | LSettingsLocal c =>
    if negb (in_poll_ready s) then SStuck 37
    else match s_remote s with
         | Some _ => SStuck 38
         | None =>
           match s_local s with
           | LToSend p =>
             match c with
             | NotReady => SOk s [] FPending
             | IoErr => SOk s [] FRaiseIo
             | Ready => SOk (set_settings s (LWaitingAck p) None (s_initial s)) [OFrame (WSettings p)] FNext
             end
           | _ => SOk s [] FNext
           end
         end
  | LRecv f => if negb (can_recv s) then SStuck 39 else recv_frame s f
  | LResult r => if negb (is_open s) then SStuck 40 else handle_result s [] r
  end.

Fixpoint crun (s : st) (ls : list label) : (st * list (label * list out * flow)) + (N * outcome) :=
  match ls with
  | [] => inl (s, [])
  | l :: ls' =>
    match cstep s l with
    | SOk s1 o f =>
      match crun s1 ls' with
      | inl (s2, tr) => inl (s2, (l, o, f) :: tr)
      | inr (k, r) => inr (N.succ k, r)
      end
    | r => inr (0, r)
    end
  end.

(* ----------------------------------------------------------------------------------------------
   The user-ping cell at the granularity of its atomic operations (ping_pong.rs: one AtomicUsize, compare_exchange from both
   sides).  The connection side reads the cell (load) in send_pending_ping and, if it saw PENDING_PING, writes PENDING_PONG
   (store) after buffering the frame -- two separate atomic operations; `f_mid` is the connection task's program counter
   between them.  The connection task is sequential: while f_mid, its only next operation on the cell is FStore. *)

Record fcell := mkF { f_cell : ucell; f_mid : bool }.

Inductive fop :=
| FLoad                    (* connection: state.load() == PENDING_PING ? *)
| FStore                   (* connection: state.store(PENDING_PONG) *)
| FAbandon                 (* connection: poll_ready was not ready / failed after the load: no store *)
| FReceivePong             (* connection: compare_exchange(PENDING_PONG -> RECEIVED_PONG) *)
| FDrop                    (* connection: store(CLOSED) *)
| FUserSend                (* user: compare_exchange(EMPTY -> PENDING_PING) *)
| FUserPoll.               (* user: compare_exchange(RECEIVED_PONG -> EMPTY) *)

Definition ucell_eqb (a b : ucell) : bool :=
  match a, b with
  | UEmpty, UEmpty | UPendingPing, UPendingPing | UPendingPong, UPendingPong
  | UReceivedPong, UReceivedPong | UClosed, UClosed => true
  | _, _ => false
  end.

Definition cas (c cur new : ucell) : ucell := if ucell_eqb c cur then new else c.

(* result: new cell, or None = the connection task cannot perform this operation at its program point *)
Definition fstep (f : fcell) (o : fop) : option fcell :=
  match o with
  | FLoad => if f_mid f then None else Some (mkF (f_cell f) (ucell_eqb (f_cell f) UPendingPing))
  | FStore => if f_mid f then Some (mkF UPendingPong false) else None
  | FAbandon => if f_mid f then Some (mkF (f_cell f) false) else None
  | FReceivePong => if f_mid f then None else Some (mkF (cas (f_cell f) UPendingPong UReceivedPong) false)
  | FDrop => if f_mid f then None else Some (mkF UClosed false)
  | FUserSend => Some (mkF (cas (f_cell f) UEmpty UPendingPing) (f_mid f))
  | FUserPoll => Some (mkF (cas (f_cell f) UReceivedPong UEmpty) (f_mid f))
  end.

Fixpoint frun (f : fcell) (os : list fop) : option fcell :=
  match os with
  | [] => Some f
  | o :: os' => match fstep f o with Some f1 => frun f1 os' | None => None end
  end.

(* ---------------------------------------------------------------------------------------------- correspondence *)

Definition optN_eqb (a b : option N) : bool :=
  match a, b with Some x, Some y => x =? y | None, None => true | _, _ => false end.

Definition sparams_eqb (a b : sparams) : bool :=
  optN_eqb (sp_hts a) (sp_hts b) && optN_eqb (sp_push a) (sp_push b) && optN_eqb (sp_mcs a) (sp_mcs b) &&
  optN_eqb (sp_iws a) (sp_iws b) && optN_eqb (sp_mfs a) (sp_mfs b) && optN_eqb (sp_mhls a) (sp_mhls b) &&
  optN_eqb (sp_ecp a) (sp_ecp b).

Definition opt_sparams_eqb (a b : option sparams) : bool :=
  match a, b with Some x, Some y => sparams_eqb x y | None, None => true | _, _ => false end.

Fixpoint listN_eqb (a b : list N) : bool :=
  match a, b with
  | [], [] => true
  | x :: a', y :: b' => (x =? y) && listN_eqb a' b'
  | _, _ => false
  end.

Definition initiator_eqb (a b : initiator) : bool :=
  match a, b with IUser, IUser | ILibrary, ILibrary | IRemote, IRemote => true | _, _ => false end.

Definition cstate_eqb (a b : cstate) : bool :=
  match a, b with
  | COpen, COpen => true
  | CClosing r i, CClosing r' i' | CClosed r i, CClosed r' i' => (r =? r') && initiator_eqb i i'
  | _, _ => false
  end.

Definition local_tag (l : local) : N := match l with LToSend _ => 0 | LWaitingAck _ => 1 | LSynced => 2 end.
Definition local_params (l : local) : option sparams := match l with LToSend p | LWaitingAck p => Some p | LSynced => None end.

Definition opt_ucell_eqb (a b : option ucell) : bool :=
  match a, b with Some x, Some y => ucell_eqb x y | None, None => true | _, _ => false end.

Definition opt_ping_eqb (a b : option (N * bool)) : bool :=
  match a, b with Some (x, s), Some (y, t) => (x =? y) && Bool.eqb s t | None, None => true | _, _ => false end.

Definition opt_NN_eqb (a b : option (N * N)) : bool :=
  match a, b with Some (x, y), Some (x', y') => (x =? x') && (y =? y') | None, None => true | _, _ => false end.

Definition gframe_lr (f : option gframe) : option (N * N) := match f with Some (l, r, _) => Some (l, r) | None => None end.
Definition gframe_debug (f : option gframe) : list N := match f with Some (_, _, d) => d | None => [] end.

(* observed pre-state: what the hook at the entry of the labelled call recorded *)
Inductive pre :=
| PSettings (tag : N) (remote initial : bool)
| PLocalParams (p : option sparams)
| PRemoteParams (p : option sparams)
| PPing (ping : option (N * bool)) (pong : option N) (user : option ucell)
| PGoAway (close_now : bool) (going : option (N * N)) (user : bool) (pending : option (N * N))
| PPendingDebug (d : list N)
| PConn (c : cstate)
| PError (e : option (N * N))
| PErrorDebug (d : list N)
| PIds (last rmax smax : N)
| PLast (last : N)
| PUser (u : option ucell).

Definition check_pre1 (s : st) (p : pre) : bool :=
  match p with
  | PSettings tag remote initial =>
    (local_tag (s_local s) =? tag) && Bool.eqb (match s_remote s with Some _ => true | None => false end) remote &&
    Bool.eqb (s_initial s) initial
  | PLocalParams p => opt_sparams_eqb (local_params (s_local s)) p
  | PRemoteParams p => opt_sparams_eqb (s_remote s) p
  | PPing pi po u => opt_ping_eqb (p_ping s) pi && optN_eqb (p_pong s) po && opt_ucell_eqb (p_user s) u
  | PGoAway cn g u pe =>
    Bool.eqb (g_close_now s) cn && opt_NN_eqb (g_going s) g && Bool.eqb (g_user s) u && opt_NN_eqb (gframe_lr (g_pending s)) pe
  | PPendingDebug d => listN_eqb (gframe_debug (g_pending s)) d
  | PConn c => cstate_eqb (c_state s) c
  | PError e => opt_NN_eqb (gframe_lr (c_error s)) e
  | PErrorDebug d => listN_eqb (gframe_debug (c_error s)) d
  | PIds a b c => (r_last s =? a) && (r_max s =? b) && (s_max s =? c)
  | PLast a => r_last s =? a
  | PUser u => opt_ucell_eqb (p_user s) u
  end.

Definition p2res_eqb (a b : p2res) : bool :=
  match a, b with
  | ROk, ROk => true
  | RGoAway r d i, RGoAway r' d' i' => (r =? r') && listN_eqb d d' && initiator_eqb i i'
  | RReset i None, RReset i' None => initiator_eqb i i'
  | RReset i (Some (r, d)), RReset i' (Some (r', d')) => initiator_eqb i i' && (r =? r') && listN_eqb d d'
  | RIo a1 a2, RIo b1 b2 => Bool.eqb a1 b1 && Bool.eqb a2 b2
  | _, _ => false
  end.

Definition wframe_eqb (a b : wframe) : bool :=
  match a, b with
  | WSettingsAck, WSettingsAck => true
  | WSettings p, WSettings q => sparams_eqb p q
  | WPing a1 p1, WPing a2 p2 => Bool.eqb a1 a2 && (p1 =? p2)
  | WGoAway l r d, WGoAway l' r' d' => (l =? l') && (r =? r') && listN_eqb d d'
  | _, _ => false
  end.

Definition waker_eqb (a b : waker) : bool :=
  match a, b with WPingTask, WPingTask | WPongTask, WPongTask => true | _, _ => false end.

Definition apires_eqb (a b : apires) : bool :=
  match a, b with
  | AOk, AOk | ANone, ANone | APingOk, APingOk | APending, APending | APong, APong | AErrSettingsPending, AErrSettingsPending
  | AErrPingPending, AErrPingPending | AErrBrokenPipe, AErrBrokenPipe => true
  | _, _ => false
  end.

Definition connres_eqb (a b : connres) : bool :=
  match a, b with
  | CROk, CROk | CRIo, CRIo => true
  | CRGoAway d r i, CRGoAway d' r' i' => listN_eqb d d' && (r =? r') && initiator_eqb i i'
  | _, _ => false
  end.

Definition out_eqb (a b : out) : bool :=
  match a, b with
  | OFrame f, OFrame g => wframe_eqb f g
  | OApplyRemote p i, OApplyRemote q j => sparams_eqb p q && Bool.eqb i j
  | OApplyRemoteFailed, OApplyRemoteFailed | OApplyLocalFailed, OApplyLocalFailed | OStreamsError, OStreamsError
  | OSendReset, OSendReset | ORecvEof, ORecvEof => true
  | OApplyLocal p, OApplyLocal q => sparams_eqb p q
  | OLostPong p, OLostPong q | OProcessed p, OProcessed q | ORecvMax p, ORecvMax q => p =? q
  | OStreamsGoAway l r d, OStreamsGoAway l' r' d' => (l =? l') && (r =? r') && listN_eqb d d'
  | OWake w, OWake v | OReg w, OReg v => waker_eqb w v
  | OApi r, OApi q => apires_eqb r q
  | OConnResult r, OConnResult q => connres_eqb r q
  | _, _ => false
  end.

Fixpoint outs_eqb (a b : list out) : bool :=
  match a, b with
  | [], [] => true
  | x :: a', y :: b' => out_eqb x y && outs_eqb a' b'
  | _, _ => false
  end.

Definition flow_eqb (a b : flow) : bool :=
  match a, b with
  | FNext, FNext | FPending, FPending | FRaiseIo, FRaiseIo | FLoop, FLoop | FReturn, FReturn => true
  | _, _ => false
  end.

(* which outputs the hooks can observe (the others are filtered out of the model's outputs before comparing) *)
Definition observable (o : out) : bool :=
  match o with
  | OStreamsError | OSendReset | ORecvEof | OStreamsGoAway _ _ _ | OLostPong _ | OWake _ | OUserAck | OReg WPongTask => false
  | _ => true
  end.

Record expect := mkE {
  e_pre : list pre;
  e_outs : option (list out);
  e_flow : option flow;
  e_post : list pre          (* observations made after the labelled call, before the next one *)
}.

Fixpoint check_run (s : st) (i : N) (ls : list (label * expect)) : N :=
  match ls with
  | [] => 0
  | (l, e) :: ls' =>
    if negb (forallb (check_pre1 s) (e_pre e)) then 10 * (i + 1) + 1
    else match cstep s l with
         | SOk s1 o f =>
           if negb (match e_outs e with Some eo => outs_eqb (filter observable o) eo | None => true end) then 10 * (i + 1) + 2
           else if negb (match e_flow e with Some ef => flow_eqb f ef | None => true end) then 10 * (i + 1) + 5
           else if negb (forallb (check_pre1 s1) (e_post e)) then 10 * (i + 1) + 6
           else check_run s1 (i + 1) ls'
         | SStuck _ => 10 * (i + 1) + 3
         | SPanic _ => 10 * (i + 1) + 4
         end
  end.

(* one iteration of the poll2 loop in which nothing is pending (by far the most frequent one), written compactly: the five
   calls, all observations made during the iteration checked at its start, no output except possibly the registration of the
   ping_task waker *)
Definition QI (obs : list pre) (reg : bool) : list (label * expect) :=
  [ (LPollGoAway Ready, mkE obs (Some []) (Some FNext) []);
    (LPollPong Ready, mkE [] (Some []) (Some FNext) []);
    (LPollPing Ready, mkE [] (Some (if reg then [OReg WPingTask] else [])) (Some FNext) []);
    (LSettingsAck Ready None, mkE [] (Some []) (Some FNext) []);
    (LSettingsLocal Ready, mkE [] (Some []) (Some FNext) []) ].

(* a case: (initial local SETTINGS, PING SHUTDOWN payload, PING USER payload as read from the source), segments of labels *)
Definition diag_control (c : (sparams * N * N) * list (list (label * expect))) : N :=
  let '((p0, shut, user), segs) := c in
  if negb ((shut =? PING_SHUTDOWN) && (user =? PING_USER)) then 7
  else check_run (init p0) 0 (concat segs).

Definition check_control (c : (sparams * N * N) * list (list (label * expect))) : bool := diag_control c =? 0.
