(* Executable model of /repo/src/hpack/huffman/mod.rs ([decode], [encode]) as written, over the
   tables regenerated from /repo/src/hpack/huffman/table.rs (Gen/HuffTables.v).
   Definitions only; proofs are in Proofs/HuffmanProofs.v.

   Conventions of this model
   * bytes are N < 256, `usize`/`u32`/`u64` variables are unbounded N with an explicit
     [mod 2^32] / [mod 2^64] exactly where the Rust code truncates (`acc << 8` on u32,
     `bits <<= 8` on u64, `as u8`);
   * `buf.put_u8(x)` appends x to the output; the model returns the bytes put, in order
     (the bytes put by the rest of the run are consed after the ones put first);
   * outcomes that the Rust code does not have as values are distinct results, so that no
     theorem can hold because of them:
       [HPanic] : DECODE_TABLE / ENCODE_TABLE index out of range, or `bits -= used` underflowing
                  (a panic in builds with overflow checks; garbage otherwise);
       [HLoop]  : the model's fuel ran out.  The fuel of both `while` loops is the number of
                  pending bits [bits] at loop entry: every iteration with [used >= 1] consumes at
                  least one pending bit, so the fuel only runs out for a table with a leaf entry
                  whose bit count is 0 -- for which the Rust loop would not terminate either.
     The proofs show that neither happens for the tables in /repo.
   * an entry of DECODE_TABLE is taken apart with the same bit operations as the Rust code
     ([N.land], [N.shiftr] with the constants of mod.rs regenerated into Gen/HuffTables.v);
     these are only ever evaluated on the 3840 concrete entries.  Expressions on the
     accumulators (not a finite domain) use div/mod/pow:  x >> k  =  x / 2^k,
     (x << k) on uN  =  (x * 2^k) mod 2^N,  x as u8  =  x mod 256,  and
     acc & padding == padding  with  padding = 2^bits - 1  is  [N.land] as written (the proofs use
     [N.land_ones]). *)
From H2V Require Import Base.Tac Base.Bytes.
From H2V Require Import Gen.HuffTables.
Local Open Scope N_scope.

(* ---------------------------------------------------------------------------------------- *)
(* decode *)

Inductive hres : Type :=
| HOk (out : list N)     (* Ok(buf.split()) *)
| HErr                   (* Err(DecoderError::InvalidHuffmanCode) *)
| HPanic                 (* index out of bounds / arithmetic underflow *)
| HLoop.                 (* fuel exhausted (non-termination of the Rust loop) *)

(* DECODE_TABLE[table * TABLE_WIDTH + index] ; None = index out of bounds *)
Definition dec_entry (table index : N) : option N :=
  nth_error dec_table (N.to_nat (table * huff_TABLE_WIDTH + index)).

(* entry & BRANCH != 0 *)
Definition entry_is_branch (entry : N) : bool := negb (N.land entry huff_BRANCH =? 0).
(* ((entry & TABLE_INDEX_MASK) >> 8) as usize *)
Definition entry_table (entry : N) : N := N.shiftr (N.land entry huff_TABLE_INDEX_MASK) 8.
(* (entry >> 8) as usize *)
Definition entry_used (entry : N) : N := N.shiftr entry 8.
(* entry as u8 *)
Definition entry_sym (entry : N) : N := entry mod 256.

(* state after the inner `while bits >= 8` of one byte *)
Inductive inner_res : Type :=
| IState (table bits : N) (put : list N)   (* loop left normally; bytes put meanwhile *)
| IErr
| IPanic
| ILoop.

Definition inner_put (b : N) (r : inner_res) : inner_res :=
  match r with
  | IState t bits put => IState t bits (b :: put)
  | other => other
  end.

(*  while bits >= 8 {
        let index = (acc >> (bits - 8)) as u8 as usize;
        let entry = DECODE_TABLE[table * TABLE_WIDTH + index];
        if entry & BRANCH == 0 { buf.put_u8(entry as u8); table = 0; bits -= (entry >> 8) as usize; }
        else { table = ((entry & TABLE_INDEX_MASK) >> 8) as usize;
               if table == 0 { return Err(InvalidHuffmanCode); }
               bits -= 8; } }                                                               *)
Fixpoint dec_inner (fuel : nat) (table acc bits : N) : inner_res :=
  if bits <? 8 then IState table bits [] else
  match fuel with
  | O => ILoop
  | S fuel' =>
      let index := (acc / 2 ^ (bits - 8)) mod 256 in
      match dec_entry table index with
      | None => IPanic
      | Some entry =>
          if negb (entry_is_branch entry) then
            let used := entry_used entry in
            if bits <? used then IPanic
            else inner_put (entry_sym entry) (dec_inner fuel' 0 acc (bits - used))
          else
            let table' := entry_table entry in
            if table' =? 0 then IErr
            else dec_inner fuel' table' acc (bits - 8)
      end
  end.

Definition hres_put (put : list N) (r : hres) : hres :=
  match r with
  | HOk out => HOk (put ++ out)
  | other => other
  end.

(*  while bits > 0 {
        let padding = (1u32 << bits) - 1;
        if table == 0 && acc & padding == padding { break; }
        let index = (acc << (8 - bits)) as u8 as usize;
        let entry = DECODE_TABLE[table * TABLE_WIDTH + index];
        if entry & BRANCH != 0 { return Err(..); }
        let used = (entry >> 8) as usize;
        if used > bits { return Err(..); }
        buf.put_u8(entry as u8); table = 0; bits -= used; }
    if table == 0 { Ok(buf.split()) } else { Err(..) }                                      *)
Definition dec_end (table : N) : hres := if table =? 0 then HOk [] else HErr.

Fixpoint dec_finish (fuel : nat) (table acc bits : N) : hres :=
  if bits =? 0 then dec_end table else
  match fuel with
  | O => HLoop
  | S fuel' =>
      if 8 <=? bits then HPanic else        (* debug_assert!(bits < 8) *)
      let padding := 2 ^ bits - 1 in
      if (table =? 0) && (N.land acc padding =? padding) then dec_end table
      else
        let index := ((acc * 2 ^ (8 - bits)) mod 2 ^ 32) mod 256 in
        match dec_entry table index with
        | None => HPanic
        | Some entry =>
            if entry_is_branch entry then HErr
            else
              let used := entry_used entry in
              if bits <? used then HErr
              else hres_put [entry_sym entry] (dec_finish fuel' 0 acc (bits - used))
        end
  end.

(*  for &byte in src { acc = (acc << 8) | byte as u32; bits += 8; while bits >= 8 {..} }       *)
Fixpoint dec_bytes (table acc bits : N) (src : list N) : hres :=
  match src with
  | [] => dec_finish (N.to_nat bits) table acc bits
  | byte :: src' =>
      let acc := N.lor ((acc * 256) mod 2 ^ 32) byte in
      let bits := bits + 8 in
      match dec_inner (N.to_nat bits) table acc bits with
      | IState table' bits' put => hres_put put (dec_bytes table' acc bits' src')
      | IErr => HErr
      | IPanic => HPanic
      | ILoop => HLoop
      end
  end.

(* pub fn decode(src, buf) : table = 0, acc = 0u32, bits = 0 *)
Definition huff_decode (src : list N) : hres := dec_bytes 0 0 0 src.

(* the view for callers that only distinguish Ok / not Ok (use together with
   [huff_decode_never_panics] of Proofs/HuffmanProofs.v) *)
Definition huff_decode_opt (src : list N) : option (list N) :=
  match huff_decode src with
  | HOk out => Some out
  | _ => None
  end.

(* ---------------------------------------------------------------------------------------- *)
(* encode *)

(* state after the flush loop: bytes put, bits, bits_left ; None = fuel exhausted *)
(*  while bits_left <= 32 { dst.put_u8((bits >> 32) as u8); bits <<= 8; bits_left += 8; }   *)
Fixpoint enc_flush (fuel : nat) (bits bits_left : N) : option (list N * N * N) :=
  if 32 <? bits_left then Some ([], bits, bits_left) else
  match fuel with
  | O => None
  | S fuel' =>
      match enc_flush fuel' ((bits * 256) mod 2 ^ 64) (bits_left + 8) with
      | Some (put, bits', left') => Some ((bits / 2 ^ 32) mod 256 :: put, bits', left')
      | None => None
      end
  end.

Definition flush_fuel : nat := 6.

(*  for &b in src {
        let (nbits, code) = ENCODE_TABLE[b as usize];
        bits |= code << (bits_left - nbits);
        bits_left -= nbits;
        while bits_left <= 32 {..} }
    if bits_left != 40 { bits |= (1 << bits_left) - 1; dst.put_u8((bits >> 32) as u8); }
    None = ENCODE_TABLE index out of bounds, `bits_left - nbits` underflow, a shift by 64 or
    more (panics with overflow checks), or fuel.                                             *)
Fixpoint enc_loop (bits bits_left : N) (src : list N) : option (list N) :=
  match src with
  | [] =>
      if bits_left =? 40 then Some []
      else if 64 <=? bits_left then None
      else Some [(N.lor bits (2 ^ bits_left - 1) / 2 ^ 32) mod 256]
  | b :: src' =>
      match nth_error enc_table (N.to_nat b) with
      | None => None
      | Some (nbits, code) =>
          if bits_left <? nbits then None else
          if 64 <=? bits_left - nbits then None else
          let bits := N.lor bits ((code * 2 ^ (bits_left - nbits)) mod 2 ^ 64) in
          let bits_left := bits_left - nbits in
          match enc_flush flush_fuel bits bits_left with
          | None => None
          | Some (put, bits', left') =>
              match enc_loop bits' left' src' with
              | Some rest => Some (put ++ rest)
              | None => None
              end
          end
      end
  end.

(* pub fn encode(src, dst) : bits = 0u64, bits_left = 40 ; None = panic / non-termination *)
Definition huff_encode_opt (src : list N) : option (list N) := enc_loop 0 40 src.

(* the bytes appended to dst ([] in the impossible case, see [huff_encode_total]) *)
Definition huff_encode (src : list N) : list N :=
  match huff_encode_opt src with
  | Some out => out
  | None => []
  end.

(* ---------------------------------------------------------------------------------------- *)
(* correspondence checks: (input, what the implementation answered) *)

(* decode: None = the implementation returned Err *)
Definition check_huff_dec (c : list N * option (list N)) : bool :=
  match huff_decode (fst c), snd c with
  | HOk out, Some out' => list_N_eqb out out'
  | HErr, None => true
  | _, _ => false
  end.

Definition check_huff_enc (c : list N * list N) : bool :=
  match huff_encode_opt (fst c) with
  | Some out => list_N_eqb out (snd c)
  | None => false
  end.
