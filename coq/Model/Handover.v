(* Model of the hand-over of a partly written DATA frame between the connection task and the codec across the
   points where the connection task does NOT hold the stream-state lock (property C20).

     src/proto/streams/streams.rs     Streams::poll_complete: poll_ready (unlocked) / lock: Inner::buffer_pending, register
                                      the task / unlock / flush (unlocked) / lock: Inner::reclaim_written_frame
     src/proto/streams/prioritize.rs  Prioritize { in_flight_data_frame: Nothing | DataFrame(key) | Drop }, buffer_pending,
                                      reclaim_frame, reclaim_frame_inner, push_back_frame, clear_queue, the DATA arm of pop_frame
     src/codec/framed_write.rs        Encoder { next: Option<Next::Data|Continuation>, last_data_frame }, buffer (DATA arm),
                                      flush / unset_frame, take_last_data_frame, has_capacity
     src/proto/streams/store.rs       Key { index (slab slot), stream_id }: compared by both; Store::resolve panics on a key
                                      whose slot is vacant or holds a record with another stream id

   A *label* is one lock-atomic section (a whole `buffer_pending` call, a whole `reclaim_written_frame` call, one handle
   operation or frame reception that sends data / clears a queue / inserts or releases a record) or one step of the codec
   made while the lock is NOT held (bytes of the chained DATA payload written, CONTINUATION frames flushed).  Every list of
   labels is an interleaving of the connection task's sections with operations of other threads at exactly the
   granularity at which they can interleave (premise A of C20, discharged by Gen/LockInventory.v); the theorems of
   Proofs/HandoverProofs.v quantify over ALL label lists.

   What the model does not carry (scheduling queues, windows, stream states) enters as observed inputs: which stream
   pop_frame chose, how many bytes it took (`len`, decided by the windows: Model/SendFlow.v), whether a non-DATA frame left a
   CONTINUATION behind.  Stuck = guard on unmodelled state / code-level guard (`has_send_capacity`, `is_released`), checked
   by the lock-step; Panic = an assert / unwrap / dangling-key panic of the Rust code. *)
From H2V Require Import Base.Tac.
Local Open Scope Z_scope.

Definition key := (N * N)%type.          (* (slab slot, stream id) *)
Definition key_eqb (a b : key) : bool := N.eqb (fst a) (fst b) && N.eqb (snd a) (snd b).

Record hstream := mkH {
  h_key : key;
  h_queue : list Z;     (* remaining sizes of the DATA frames in stream.pending_send *)
  h_buf : Z;            (* stream.buffered_send_data *)
  h_sub : Z;            (* ghost: bytes accepted by send_data so far *)
  h_chg : Z;            (* ghost: bytes taken by pop_frame (charged to the windows and handed to the codec) *)
  h_drop : Z            (* ghost: bytes discarded by clear_queue *)
}.

Inductive inflight := FNothing | FData (k : key) | FDrop.

(* the DATA frame the codec holds: CNext = Encoder.next = Some(Next::Data): `rem` bytes of the Take still unwritten, `tail`
   bytes of the user's buffer beyond the Take; CLast = Encoder.last_data_frame = Some: the Take is exhausted *)
Inductive codec := CEmpty | CNext (k : key) (rem tail : Z) | CLast (k : key) (tail : Z).

Record hstate := mkHS {
  hs_streams : list hstream;
  hs_fl : inflight;             (* prioritize.in_flight_data_frame *)
  hs_codec : codec;
  hs_cont : bool;               (* Encoder.next = Some(Next::Continuation) *)
  hs_cleared : bool;            (* ghost: the queue of the stream owning the codec's DATA frame was cleared since it was staged *)
  hs_thr : Z                    (* Encoder.chain_threshold *)
}.

Inductive out :=
| ORequeue (k : key) (tail : Z)      (* push_back_frame: the unwritten tail is back at the FRONT of k's queue *)
| ODiscard (k : key) (tail : Z)      (* InFlightData::Drop: the tail is dropped with the frame *)
| ODone (k : key)                    (* the frame was written completely *)
| OStaged (k : key) (len : Z) (chained : bool).

Inductive outcome := Ok (st : hstate) (outs : list out) | Stuck (n : N) | Panic (n : N).

Inductive item :=
| IData (k : key) (sz len : Z)       (* pop_frame, DATA arm: the head frame of k has sz bytes, len of them are taken *)
| IOther (cont : bool)               (* any other frame; cont = a CONTINUATION stays in Encoder.next *)
| IClear (k : key)                   (* clear_queue inside pop_frame (scheduled reset) *)
| IRemove (k : key).                 (* transition_after inside pop_frame releases the record *)

Inductive label :=
| HNew (k : key)                     (* store.insert *)
| HRemove (k : key)                  (* a record is released (counts.transition_after -> store.remove) *)
| HSendData (k : key) (sz : Z)       (* prioritize.send_data accepted and queued a DATA frame *)
| HClear (k : key)                   (* prioritize.clear_queue (send_reset, recv_reset, handle_error, recv_eof, ...) *)
| HBufferPending (items : list item) (* Inner::buffer_pending: first locked section of poll_complete *)
| HReclaimWritten                    (* Inner::reclaim_written_frame: second locked section of poll_complete *)
| HWrite (n : Z)                     (* unlocked: the transport accepted n more bytes of the chained DATA payload *)
| HFlushCont.                        (* unlocked: the pending CONTINUATION frames were written *)

Fixpoint find_h (k : key) (l : list hstream) : option hstream :=
  match l with
  | [] => None
  | s :: l' => if key_eqb (h_key s) k then Some s else find_h k l'
  end.

Fixpoint upd_h (s : hstream) (l : list hstream) : list hstream :=
  match l with
  | [] => []
  | x :: l' => if key_eqb (h_key x) (h_key s) then s :: l' else x :: upd_h s l'
  end.

Fixpoint del_h (k : key) (l : list hstream) : list hstream :=
  match l with
  | [] => []
  | x :: l' => if key_eqb (h_key x) k then l' else x :: del_h k l'
  end.

Definition slot_free (slot : N) (l : list hstream) : bool := forallb (fun s => negb (N.eqb (fst (h_key s)) slot)) l.

Definition set_streams (st : hstate) (l : list hstream) : hstate :=
  mkHS l (hs_fl st) (hs_codec st) (hs_cont st) (hs_cleared st) (hs_thr st).
Definition set_flight (st : hstate) (f : inflight) (c : codec) (cl : bool) : hstate :=
  mkHS (hs_streams st) f c (hs_cont st) cl (hs_thr st).
Definition set_cont (st : hstate) (b : bool) : hstate :=
  mkHS (hs_streams st) (hs_fl st) (hs_codec st) b (hs_cleared st) (hs_thr st).

Definition codec_key (c : codec) : option key :=
  match c with CEmpty => None | CNext k _ _ | CLast k _ => Some k end.
Definition codec_tail (c : codec) : Z :=
  match c with CEmpty => 0 | CNext _ _ t | CLast _ t => t end.

(* framed_write.rs: Encoder::has_capacity, the part that depends on `next` (the buffer-space part is not modelled: a
   section that stops early is simply a shorter item list) *)
Definition has_capacity (st : hstate) : bool :=
  negb (hs_cont st) && match hs_codec st with CNext _ _ _ => false | _ => true end.

(* prioritize.rs: reclaim_frame + reclaim_frame_inner + push_back_frame *)
Definition reclaim (st : hstate) : outcome :=
  match hs_codec st with
  | CLast k tail =>                                     (* dst.take_last_data_frame() = Some(frame) *)
    match hs_fl st with
    | FNothing => Panic 1                               (* panic!("wasn't expecting a frame to reclaim") *)
    | FDrop => Ok (set_flight st FNothing CEmpty false) [ODiscard k tail]
    | FData k' =>
      if negb (key_eqb k' k) then Panic 2               (* debug_assert_eq!(k, key) *)
      else if 0 <? tail then                            (* frame.payload().has_remaining() *)
        match find_h k (hs_streams st) with
        | None => Panic 3                               (* store.resolve(key): dangling store key *)
        | Some s =>
          let s' := mkH (h_key s) (tail :: h_queue s) (h_buf s) (h_sub s) (h_chg s) (h_drop s) in
          Ok (set_flight (set_streams st (upd_h s' (hs_streams st))) FNothing CEmpty false) [ORequeue k tail]
        end
      else Ok (set_flight st FNothing CEmpty false) [ODone k]
    end
  | _ => Ok st []                                       (* take_last_data_frame() = None *)
  end.

(* prioritize.rs: clear_queue (the part that concerns the hand-over) *)
Definition clear (st : hstate) (k : key) : outcome :=
  match find_h k (hs_streams st) with
  | None => Stuck 1
  | Some s =>
    let s' := mkH (h_key s) [] 0 (h_sub s) (h_chg s) (h_drop s + h_buf s) in
    let fl' := match hs_fl st with
               | FData k' => if key_eqb k k' then FDrop else FData k'     (* stream.key() == key *)
               | f => f
               end in
    let cl' := match codec_key (hs_codec st) with
               | Some kc => if key_eqb k kc then true else hs_cleared st
               | None => hs_cleared st
               end in
    Ok (set_flight (set_streams st (upd_h s' (hs_streams st))) fl' (hs_codec st) cl') []
  end.

(* counts.rs transition_after -> store.rs remove: only a released record (is_closed: pending_send empty, nothing buffered) *)
Definition remove (st : hstate) (k : key) : outcome :=
  match find_h k (hs_streams st) with
  | None => Stuck 2
  | Some s =>
    match h_queue s with
    | [] => if h_buf s =? 0 then Ok (set_streams st (del_h k (hs_streams st))) [] else Stuck 3
    | _ => Stuck 3
    end
  end.

Definition bind (r : outcome) (f : hstate -> list out -> outcome) : outcome :=
  match r with Ok st o => f st o | Stuck n => Stuck n | Panic n => Panic n end.
Definition add_outs (pre : list out) (r : outcome) : outcome :=
  match r with Ok st o => Ok st (pre ++ o) | x => x end.

(* one iteration of the loop of Prioritize::buffer_pending that pops a frame *)
Definition do_item (st : hstate) (it : item) : outcome :=
  match it with
  | IClear k => clear st k
  | IRemove k => remove st k
  | IOther cont =>
    if negb (has_capacity st) then Stuck 4                       (* the loop had returned CodecFull *)
    else match hs_fl st with
         | FNothing => Ok (set_cont st cont) []
         | _ => Panic 4                                          (* debug_assert_eq!(in_flight_data_frame, Nothing) *)
         end
  | IData k sz len =>
    if negb (has_capacity st) then Stuck 4
    else match find_h k (hs_streams st) with
    | None => Stuck 5
    | Some s =>
      match h_queue s with
      | [] => Stuck 6
      | f :: q =>
        if negb (f =? sz) then Stuck 7
        else if (len <? 0) || (sz <? len) then Stuck 8
        else if h_buf s <? len then Panic 5                      (* stream.send_data: debug_assert!(buffered >= len) *)
        else match hs_fl st with
        | FNothing =>
          let s' := mkH (h_key s) q (h_buf s - len) (h_sub s) (h_chg s + len) (h_drop s) in
          let chained := hs_thr st <=? len in                    (* Encoder::buffer: len >= chain_threshold *)
          let c := if chained then CNext k len (sz - len) else CLast k (sz - len) in
          let st1 := set_flight (set_streams st (upd_h s' (hs_streams st))) (FData k) c false in
          add_outs [OStaged k len chained] (reclaim st1)         (* buffer(frame); self.reclaim_frame(..) *)
        | _ => Panic 4
        end
      end
    end
  end.

Fixpoint do_items (st : hstate) (outs : list out) (its : list item) : outcome :=
  match its with
  | [] => Ok st outs
  | it :: its' =>
    match do_item st it with
    | Ok st1 o1 => do_items st1 (outs ++ o1) its'
    | r => r
    end
  end.

Definition step (st : hstate) (l : label) : outcome :=
  match l with
  | HNew k =>
    if slot_free (fst k) (hs_streams st)
    then Ok (set_streams st (mkH k [] 0 0 0 0 :: hs_streams st)) []
    else Stuck 9              (* slab.insert gives a vacant slot (the stream id may repeat: an unlinked record keeps its slot) *)
  | HRemove k => remove st k
  | HSendData k sz =>
    match find_h k (hs_streams st) with
    | None => Stuck 10
    | Some s =>
      if sz <? 0 then Stuck 11
      else Ok (set_streams st (upd_h (mkH (h_key s) (h_queue s ++ [sz]) (h_buf s + sz) (h_sub s + sz) (h_chg s) (h_drop s))
                                     (hs_streams st))) []
    end
  | HClear k => clear st k
  | HBufferPending its => bind (reclaim st) (fun st1 o1 => do_items st1 o1 its)
  | HReclaimWritten => reclaim st
  | HWrite n =>
    match hs_codec st with
    | CNext k rem tail =>
      if (n <=? 0) || (rem <? n) then Stuck 12
      else if rem =? n then Ok (set_flight st (hs_fl st) (CLast k tail) (hs_cleared st)) []   (* unset_frame *)
      else Ok (set_flight st (hs_fl st) (CNext k (rem - n) tail) (hs_cleared st)) []
    | _ => Stuck 13
    end
  | HFlushCont => if hs_cont st then Ok (set_cont st false) [] else Stuck 14
  end.

Definition init_state (thr : Z) : hstate := mkHS [] FNothing CEmpty false false thr.

Fixpoint run (st : hstate) (ls : list label) : hstate * list (list out) + (N * outcome) :=
  match ls with
  | [] => inl (st, [])
  | l :: ls' =>
    match step st l with
    | Ok st1 o =>
      match run st1 ls' with
      | inl (st2, os) => inl (st2, o :: os)
      | inr (k, r) => inr (N.succ k, r)
      end
    | r => inr (0%N, r)
    end
  end.

(* the queue as Model/SendFlow.v sees it (`s_frames`: "remaining lengths of the queued DATA frames incl. the in-flight
   remainder"): the tail that is with the codec counts as the head of its owner's queue until it is reclaimed or dropped *)
Definition in_flight_tail (st : hstate) (k : key) : Z :=
  match hs_fl st with
  | FData k' => if key_eqb k k' then codec_tail (hs_codec st) else 0
  | _ => 0
  end.

Definition abs_queue (st : hstate) (s : hstream) : list Z :=
  (if 0 <? in_flight_tail st (h_key s) then [in_flight_tail st (h_key s)] else []) ++ h_queue s.

(* ---------------------------------------------------------------------------------------------------------------------
   Correspondence: replay a label list recorded from the implementation and compare observed pre-states and outputs. *)

Definition inflight_tag (f : inflight) : N := match f with FNothing => 0 | FData _ => 1 | FDrop => 2 end.

Definition out_eqb (a b : out) : bool :=
  match a, b with
  | ORequeue k t, ORequeue k' t' | ODiscard k t, ODiscard k' t' => key_eqb k k' && (t =? t')
  | ODone k, ODone k' => key_eqb k k'
  | OStaged k l c, OStaged k' l' c' => key_eqb k k' && (l =? l') && Bool.eqb c c'
  | _, _ => false
  end.

Fixpoint outs_eqb (a b : list out) : bool :=
  match a, b with
  | [], [] => true
  | x :: a', y :: b' => out_eqb x y && outs_eqb a' b'
  | _, _ => false
  end.

(* observed before a label: tag of in_flight_data_frame (with its key when it is DataFrame), and for a stream its
   buffered_send_data; observed after: the outputs *)
Record expect := mkHE {
  e_fl : option (N * option key);
  e_buf : option (key * Z);
  e_outs : option (list out)
}.

Definition check_pre (st : hstate) (e : expect) : bool :=
  (match e_fl e with
   | None => true
   | Some (tag, ok) =>
     (inflight_tag (hs_fl st) =? tag)%N &&
     match ok, hs_fl st with
     | Some k, FData k' => key_eqb k k'
     | Some _, _ => false
     | None, _ => true
     end
   end) &&
  (match e_buf e with
   | None => true
   | Some (k, b) => match find_h k (hs_streams st) with Some s => h_buf s =? b | None => false end
   end).

(* 0 = agreement; otherwise 10*(index+1) + reason (1 pre-state differs, 2 outputs differ, 3 model Stuck, 4 model Panic) *)
Fixpoint check_run (st : hstate) (i : N) (ls : list (label * expect)) : N :=
  match ls with
  | [] => 0%N
  | (l, e) :: ls' =>
    if negb (check_pre st e) then (10 * (i + 1) + 1)%N
    else match step st l with
         | Ok st1 o =>
           match e_outs e with
           | Some eo => if outs_eqb o eo then check_run st1 (i + 1) ls' else (10 * (i + 1) + 2)%N
           | None => check_run st1 (i + 1) ls'
           end
         | Stuck _ => (10 * (i + 1) + 3)%N
         | Panic _ => (10 * (i + 1) + 4)%N
         end
  end.

Fixpoint run_state (st : hstate) (ls : list (label * expect)) : option hstate :=
  match ls with
  | [] => Some st
  | (l, _) :: ls' => match step st l with Ok st1 _ => run_state st1 ls' | _ => None end
  end.

(* final snapshot: tag of in_flight_data_frame and (key, buffered_send_data, pending_send length) of every record *)
Definition final_ok (st : hstate) (fin : option (N * list (key * Z))) : bool :=
  match fin with
  | None => true
  | Some (tag, ss) =>
    (inflight_tag (hs_fl st) =? tag)%N &&
    forallb (fun x => check_pre st (mkHE None (Some x) None)) ss &&
    (N.of_nat (length ss) =? N.of_nat (length (hs_streams st)))%N
  end.

(* a case: chain threshold, labels with expectations, final snapshot *)
Definition check_handover (c : Z * list (label * expect) * option (N * list (key * Z))) : bool :=
  let '(thr, ls, fin) := c in
  (check_run (init_state thr) 0 ls =? 0)%N &&
  match run_state (init_state thr) ls with Some st => final_ok st fin | None => false end.

Definition diag_handover (c : Z * list (label * expect) * option (N * list (key * Z))) : N :=
  let '(thr, ls, fin) := c in check_run (init_state thr) 0 ls.

(* ---------------------------------------------------------------------------------------------------------------------
   Poisoned locks (std::sync::Mutex): a panic while a guard is alive poisons the mutex; `lock()` then returns Err.
   streams.rs consumes that Err in four ways (Gen/LockInventory.v, field a_poison):
     PUnwrap                  `.lock().unwrap()`: panics                                  (every handle / connection operation)
     PErr                     `.lock().map_err(|_| ())?`: returns an error                (DynStreams::recv_eof)
     PSkip                    `if let Ok(..) = .lock()`: does nothing                     (Streams::drop)
     PPanicUnlessPanicking    drop_stream_ref: returns silently iff thread::panicking()   (OpaqueStreamRef::drop)
   A panic raised while the thread is already unwinding aborts the process. *)

Inductive pmode := MUnwrap | MErr | MSkip | MPanicUnlessPanicking.
Inductive presult := RRuns | RError | RSkipped | RPanics | RAborts.

(* what an acquisition does, given whether the lock is poisoned and whether the thread is already unwinding *)
Definition acquire (m : pmode) (poisoned panicking : bool) : presult :=
  if negb poisoned then RRuns
  else match m with
       | MUnwrap => if panicking then RAborts else RPanics
       | MErr => RError
       | MSkip => RSkipped
       | MPanicUnlessPanicking => if panicking then RSkipped else RPanics
       end.

(* unwinding a stack frame runs the destructors of the handles it owns, in order; the first abort wins *)
Fixpoint unwind (ds : list pmode) (poisoned : bool) : presult :=
  match ds with
  | [] => RSkipped
  | m :: ds' => match acquire m poisoned true with RAborts => RAborts | _ => unwind ds' poisoned end
  end.
