(* Validation that `Header::new` / `Name::into_entry` (src/hpack/header.rs) delegate to the
   `http` crate (http 1.x) and to std:

     HeaderName::from_lowercase   -> name_ok      (HEADER_CHARS_H2 table, 1..=65535 octets)
     HeaderValue::from_bytes      -> value_ok     (b >= 32 && b != 127 || b == TAB)
     Method::from_bytes           -> method_ok    (non-empty, METHOD_CHARS table = RFC 9110 tchar)
     StatusCode::from_bytes       -> status_ok    (3 ASCII digits, first one 1..9)
     BytesStr::try_from, Protocol::try_from = std::str::from_utf8 -> utf8_ok

   MODELLED, NOT VERIFIED: these predicates are hand transcriptions of library code outside
   /repo (http crate, std).  They are tied to the running code only by the correspondence run
   (harness `hpackdec` generates names/values on both sides of every predicate), not by the
   translator and not by proof.  The theorems about the decoder are stated "modulo validation"
   and hold for whatever these predicates are. *)
From Coq Require Import String Ascii.
From H2V Require Import Base.Tac Base.Bytes.
Local Open Scope N_scope.

(* ASCII string literal -> byte string (names of the pseudo header fields) *)
Fixpoint bstr (s : string) : list N :=
  match s with
  | EmptyString => []
  | String c s' => N_of_ascii c :: bstr s'
  end.

Definition in_range (lo hi b : N) : bool := (lo <=? b) && (b <=? hi).

(* http::header::name::HEADER_CHARS_H2: non-zero entries.
   33..39 (bang, double quote, hash, dollar, percent, ampersand, quote), star, plus, minus, dot,
   0-9, caret, underscore, backquote, a-z, bar, tilde *)
Definition name_char_ok (b : N) : bool :=
  in_range 33 39 b || (b =? 42) || (b =? 43) || (b =? 45) || (b =? 46) ||
  in_range 48 57 b || in_range 94 122 b || (b =? 124) || (b =? 126).

Definition max_header_name_len : N := 65535.     (* http::header::MAX_HEADER_NAME_LEN *)

Definition name_ok (n : list N) : bool :=
  match n with
  | [] => false
  | _ :: _ => (N.of_nat (length n) <=? max_header_name_len) && forallb name_char_ok n
  end.

(* http::header::value::is_valid *)
Definition value_char_ok (b : N) : bool := ((32 <=? b) && negb (b =? 127) && (b <? 256)) || (b =? 9).
Definition value_ok (v : list N) : bool := forallb value_char_ok v.

(* http::method::extension::METHOD_CHARS: non-zero entries.
   bang, 35..39 (hash, dollar, percent, ampersand, quote), star, plus, minus, dot, 0-9, A-Z,
   caret, underscore, backquote, a-z, bar, tilde *)
Definition method_char_ok (b : N) : bool :=
  (b =? 33) || in_range 35 39 b || (b =? 42) || (b =? 43) || (b =? 45) || (b =? 46) ||
  in_range 48 57 b || in_range 65 90 b || in_range 94 122 b || (b =? 124) || (b =? 126).

Definition method_ok (v : list N) : bool :=
  match v with
  | [] => false
  | _ :: _ => forallb method_char_ok v
  end.

(* http::StatusCode::from_bytes: len == 3, a in 1..9, b, c in 0..9 *)
Definition status_ok (v : list N) : bool :=
  match v with
  | [a; b; c] => in_range 49 57 a && in_range 48 57 b && in_range 48 57 c
  | _ => false
  end.

(* std::str::from_utf8 (Unicode Table 3-7, well-formed UTF-8 byte sequences):
     00..7F
     C2..DF 80..BF
     E0     A0..BF 80..BF
     E1..EC 80..BF 80..BF
     ED     80..9F 80..BF
     EE..EF 80..BF 80..BF
     F0     90..BF 80..BF 80..BF
     F1..F3 80..BF 80..BF 80..BF
     F4     80..8F 80..BF 80..BF
   as a state machine: what the following octets have to be. *)
Inductive utf8_state :=
| U0                         (* at a character boundary *)
| U1                         (* one more 80..BF *)
| U2 (lo hi : N)             (* one in lo..hi, then one more 80..BF *)
| U3 (lo hi : N).            (* one in lo..hi, then two more 80..BF *)

Definition utf8_step (s : utf8_state) (b : N) : option utf8_state :=
  match s with
  | U0 =>
    if b <=? 127 then Some U0
    else if in_range 194 223 b then Some U1
    else if b =? 224 then Some (U2 160 191)
    else if in_range 225 236 b then Some (U2 128 191)
    else if b =? 237 then Some (U2 128 159)
    else if in_range 238 239 b then Some (U2 128 191)
    else if b =? 240 then Some (U3 144 191)
    else if in_range 241 243 b then Some (U3 128 191)
    else if b =? 244 then Some (U3 128 143)
    else None
  | U1 => if in_range 128 191 b then Some U0 else None
  | U2 lo hi => if in_range lo hi b then Some U1 else None
  | U3 lo hi => if in_range lo hi b then Some (U2 128 191) else None
  end.

Fixpoint utf8_run (s : utf8_state) (l : list N) : bool :=
  match l with
  | [] => match s with U0 => true | _ => false end
  | b :: l' => match utf8_step s b with
               | Some s' => utf8_run s' l'
               | None => false
               end
  end.

Definition utf8_ok (v : list N) : bool := utf8_run U0 v.
