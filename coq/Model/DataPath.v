(* Content-level model of h2's message data path (property C01).

   Send side — src/proto/streams/prioritize.rs: queue_frame, send_data (the queueing part; the window
   arithmetic is Model/SendFlow.v), buffer_pending = reclaim_frame; loop { has_send_capacity;
   pop_frame; dst.buffer; reclaim_frame }, the DATA arm of pop_frame (split at
   min(payload, max_frame_len, stream capacity), END_STREAM kept for the last piece only, the
   remainder stays INSIDE the codec behind a `Take` and comes back through reclaim_frame_inner),
   in_flight_data_frame (Nothing | DataFrame key | Drop), clear_queue; src/codec/framed_write.rs:
   the two slots that can hold a DATA frame (`next` while it is being written, `last_data_frame`
   once written; a small frame goes to `last_data_frame` directly and OVERWRITES it).

   Receive side — src/proto/streams/recv.rs: recv_headers / recv_data / recv_trailers /
   recv_push_promise pushing Events on Stream.pending_recv; poll_data / poll_trailers /
   poll_response / poll_informational / take_request popping them; is_end_stream.

   What the model does not carry enters a label as an observed input and every theorem quantifies
   over all its values: the stream chosen by the scheduler, max_frame_len, the stream's assigned
   capacity and window at the pop, `is_send_streaming`, and on the receive side the stream state
   (a value of Model/StreamState.v's `state`, so that ensure_recv_open is THE function proved about
   in Properties/StreamState.v).

   Outcomes as everywhere: Ok | Stuck n (guard on unmodelled state / caller discipline, checked by
   the lock-step) | Panic n (a Rust assert / panic would fire). *)
From H2V Require Import Base.Tac Base.Bytes Model.StreamState.
Local Open Scope N_scope.

Definition bytes := list N.
Definition fields := list (bytes * bytes).

Definition lenB (l : bytes) : N := N.of_nat (length l).
Definition takeB (n : N) (l : bytes) : bytes := firstn (N.to_nat n) l.
Definition dropB (n : N) (l : bytes) : bytes := skipn (N.to_nat n) l.

Definition MAXW : N := 2147483647.

(* ------------------------------------------------------------------------------------------- *)
(* frames as the stream layer sees them *)

Inductive hkind := HkHead | HkInfo | HkTrailers.      (* final head, interim 1xx head, trailers *)

Inductive sframe :=
| FHeaders (k : hkind) (h : fields) (eos : bool)
| FData (p : bytes) (eos : bool)
| FPush (promised : N) (h : fields)
| FReset (reason : N).

Definition is_data (f : sframe) : bool := match f with FData _ _ => true | _ => false end.
Definition is_reset (f : sframe) : bool := match f with FReset _ => true | _ => false end.
Definition frame_eos (f : sframe) : bool :=
  match f with FHeaders _ _ e => e | FData _ e => e | _ => false end.

(* ------------------------------------------------------------------------------------------- *)
(* send side *)

Record sstr := mkSS {
  ss_id : N;
  ss_q : list sframe;       (* Stream.pending_send *)
  ss_buf : N;               (* Stream.buffered_send_data *)
  ss_eos : bool;            (* an END_STREAM-carrying frame was submitted (state.send_close / send_open(eos)) *)
  ss_cleared : bool;        (* clear_queue ran *)
  ss_gone : bool            (* the record was removed from the store (kept here as a tombstone: a stream id
                               never carries a second message; streams.rs can re-insert a reset-only record) *)
}.

Inductive inflight := IfNothing | IfData (sid : N) | IfDrop.

(* a DATA frame held by the codec: what lies beyond the `Take` limit, and the saved end_of_stream *)
Record cframe := mkCF { cf_sid : N; cf_rest : bytes; cf_eos : bool }.

Record dstate := mkD {
  d_strs : list sstr;
  d_inflight : inflight;              (* Prioritize.in_flight_data_frame *)
  d_next : option cframe;             (* Encoder.next = Some(Next::Data(..)) *)
  d_last : option cframe;             (* Encoder.last_data_frame *)
  d_chain : N                         (* Encoder.chain_threshold (256 vectored / 1024) *)
}.

Inductive out :=
| OFrame (sid : N) (f : sframe)       (* handed to Codec::buffer, in this order *)
| ODropPush (sid : N) (promised : N) (h : fields)   (* PUSH_PROMISE whose promised stream is gone: dropped by pop_frame *)
| ORes (ok : bool).                   (* send_data's Result *)

Inductive outcome :=
| Ok (st : dstate) (outs : list out)
| Stuck (n : N)
| Panic (n : N).

Inductive label :=
| LNew (sid : N)                                        (* store.insert *)
| LRemove (sid : N)                                     (* store.remove (Stream::is_released) *)
| LSendData (sid : N) (streaming : bool) (p : bytes) (eos : bool)   (* Prioritize::send_data *)
| LQueue (sid : N) (f : sframe)                         (* queue_frame of a non-DATA frame *)
| LClear (sid : N)                                      (* clear_queue *)
| LReclaim                                              (* reclaim_frame *)
| LPop (sid : N) (max_len : N) (avail win : Z)          (* reclaim; has_send_capacity; pop_frame -> frame of sid; buffer *)
| LPopReset (sid : N) (reason : N)                      (* pop_frame, queue empty, scheduled reset -> RST_STREAM; buffer *)
| LPopDropPush (sid : N)                                (* pop_frame, PUSH_PROMISE of a vanished stream: dropped *)
| LFlushed.                                             (* unset_frame with Next::Data: next -> last_data_frame *)

Fixpoint find_s (sid : N) (l : list sstr) : option sstr :=
  match l with
  | [] => None
  | s :: l' => if N.eqb (ss_id s) sid then Some s else find_s sid l'
  end.

Fixpoint upd_s (s : sstr) (l : list sstr) : list sstr :=
  match l with
  | [] => []
  | x :: l' => if N.eqb (ss_id x) (ss_id s) then s :: l' else x :: upd_s s l'
  end.

Definition find_live (sid : N) (l : list sstr) : option sstr :=
  match find_s sid l with
  | Some s => if ss_gone s then None else Some s
  | None => None
  end.

Definition set_strs (st : dstate) (l : list sstr) : dstate :=
  mkD l (d_inflight st) (d_next st) (d_last st) (d_chain st).
Definition set_codec (st : dstate) (i : inflight) (nx ls : option cframe) : dstate :=
  mkD (d_strs st) i nx ls (d_chain st).
Definition put (st : dstate) (s : sstr) : dstate := set_strs st (upd_s s (d_strs st)).

Definition set_q (s : sstr) (q : list sframe) (b : N) : sstr :=
  mkSS (ss_id s) q b (ss_eos s) (ss_cleared s) (ss_gone s).
Definition set_gone (s : sstr) (g : bool) : sstr :=
  mkSS (ss_id s) (ss_q s) (ss_buf s) (ss_eos s) (ss_cleared s) g.

Definition is_nothing (i : inflight) : bool := match i with IfNothing => true | _ => false end.

Definition is_nil {A} (l : list A) : bool := match l with [] => true | _ => false end.

(* prioritize.rs: reclaim_frame + reclaim_frame_inner + push_back_frame *)
Definition reclaim (st : dstate) : outcome :=
  match d_last st with
  | None => Ok st []
  | Some cf =>
    match d_inflight st with
    | IfNothing => Panic 3                          (* panic!("wasn't expecting a frame to reclaim") *)
    | IfDrop => Ok (set_codec st IfNothing (d_next st) None) []
    | IfData k =>
      if negb (N.eqb k (cf_sid cf)) then Panic 4    (* debug_assert_eq!(k, key) *)
      else
      let st1 := set_codec st IfNothing (d_next st) None in
      if is_nil (cf_rest cf) then Ok st1 []
      else match find_live k (d_strs st1) with
           | None => Panic 5                        (* store.resolve(key): dangling store key *)
           | Some s => Ok (put st1 (set_q s (FData (cf_rest cf) (cf_eos cf) :: ss_q s) (ss_buf s))) []
           end
    end
  end.

(* framed_write.rs: Encoder::buffer for a DATA frame (payload length len already limited by Take) *)
Definition codec_buffer_data (st : dstate) (cf : cframe) (len : N) : dstate :=
  if d_chain st <=? len
  then set_codec st (IfData (cf_sid cf)) (Some cf) (d_last st)
  else set_codec st (IfData (cf_sid cf)) (d_next st) (Some cf).

Definition as_size (z : Z) : N := Z.to_N (Z.max 0 z).

(* the DATA arm of pop_frame followed by dst.buffer *)
Definition pop_data (st : dstate) (s : sstr) (p : bytes) (eos : bool) (q' : list sframe)
                    (max_len : N) (avail win : Z) : outcome :=
  let sz := lenB p in
  if (0 <? sz) && (avail <=? 0)%Z then Stuck 11        (* `continue`: no frame comes out of this stream *)
  else
  let len := N.min (N.min sz max_len) (as_size avail) in
  if (0 <? len) && (as_size win <? len) then Stuck 12  (* `continue` *)
  else if ss_buf s <? len then Panic 2                 (* stream.send_data: debug_assert!(buffered >= len) *)
  else if negb (is_nothing (d_inflight st)) then Panic 1   (* debug_assert_eq!(in_flight_data_frame, Nothing) *)
  else
  let piece := takeB len p in
  let rest := dropB len p in
  let eos_out := eos && (sz <=? len) in                (* set_end_stream(false) when remaining > len *)
  let s1 := set_q s q' (ss_buf s - len) in
  let st1 := codec_buffer_data (put st s1) (mkCF (ss_id s) rest eos) len in
  Ok st1 [OFrame (ss_id s) (FData piece eos_out)].

Definition send_done (s : sstr) : bool := ss_eos s || ss_cleared s.

Definition step (st : dstate) (l : label) : outcome :=
  match l with
  | LNew sid =>
    match find_s sid (d_strs st) with
    | Some s => if ss_gone s then Ok (put st (set_gone s false)) [] else Stuck 1
    | None => Ok (set_strs st (mkSS sid [] 0 false false false :: d_strs st)) []
    end
  | LRemove sid =>
    match find_live sid (d_strs st) with
    | None => Stuck 2
    | Some s =>
      (* Stream::is_closed: pending_send.is_empty() && buffered_send_data == 0 *)
      if is_nil (ss_q s) && (ss_buf s =? 0) then Ok (put st (set_gone s true)) [] else Stuck 3
    end
  | LSendData sid streaming p eos =>
    match find_live sid (d_strs st) with
    | None => Stuck 4
    | Some s =>
      if MAXW <? lenB p then Ok st [ORes false]
      else if negb streaming then Ok st [ORes false]
      else if send_done s then Stuck 5                (* state.rs: not send-streaming after END_STREAM / reset *)
      else Ok (put st (mkSS sid (ss_q s ++ [FData p eos]) (ss_buf s + lenB p) (ss_eos s || eos) (ss_cleared s) false))
              [ORes true]
    end
  | LQueue sid f =>
    match find_live sid (d_strs st) with
    | None => Stuck 6
    | Some s =>
      if is_data f then Stuck 7
      else if send_done s && negb (is_reset f) then Stuck 8
      else Ok (put st (mkSS sid (ss_q s ++ [f]) (ss_buf s) (ss_eos s || frame_eos f) (ss_cleared s) false)) []
    end
  | LClear sid =>
    match find_live sid (d_strs st) with
    | None => Stuck 9
    | Some s =>
      let st1 := put st (mkSS sid [] 0 (ss_eos s) true false) in
      Ok (match d_inflight st with
          | IfData k => if N.eqb k sid then set_codec st1 IfDrop (d_next st1) (d_last st1) else st1
          | _ => st1
          end) []
    end
  | LReclaim => reclaim st
  | LFlushed =>
    match d_next st with
    | None => Stuck 10
    | Some cf => Ok (set_codec st (d_inflight st) None (Some cf)) []      (* overwrites last_data_frame *)
    end
  | LPop sid max_len avail win =>
    match reclaim st with
    | Ok st0 _ =>
      match d_next st0 with
      | Some _ => Stuck 13                               (* has_send_capacity() is false *)
      | None =>
        match find_live sid (d_strs st0) with
        | None => Stuck 14
        | Some s =>
          match ss_q s with
          | [] => Stuck 15
          | FData p eos :: q' => pop_data st0 s p eos q' max_len avail win
          | f :: q' =>
            if negb (is_nothing (d_inflight st0)) then Panic 1
            else Ok (put st0 (set_q s q' (ss_buf s))) [OFrame sid f]
          end
        end
      end
    | r => r
    end
  | LPopReset sid reason =>
    match reclaim st with
    | Ok st0 _ =>
      match d_next st0 with
      | Some _ => Stuck 16
      | None =>
        match find_live sid (d_strs st0) with
        | None => Stuck 17
        | Some s =>
          if negb (is_nil (ss_q s)) then Stuck 18
          else if negb (is_nothing (d_inflight st0)) then Panic 1
          else Ok st0 [OFrame sid (FReset reason)]
        end
      end
    | r => r
    end
  | LPopDropPush sid =>
    match reclaim st with
    | Ok st0 _ =>
      match d_next st0 with
      | Some _ => Stuck 21
      | None =>
        match find_live sid (d_strs st0) with
        | None => Stuck 19
        | Some s =>
          match ss_q s with
          | FPush pr h :: q' => Ok (put st0 (set_q s q' (ss_buf s))) [ODropPush sid pr h]
          | _ => Stuck 20
          end
        end
      end
    | r => r
    end
  end.

Definition init_state (chain : N) : dstate := mkD [] IfNothing None None chain.

Inductive rres :=
| ROk (st : dstate) (outs : list out)          (* outputs of all labels, in order *)
| RFail (k : N) (r : outcome).                 (* label k did not step *)

Fixpoint run (st : dstate) (ls : list label) : rres :=
  match ls with
  | [] => ROk st []
  | l :: ls' =>
    match step st l with
    | Ok st1 o =>
      match run st1 ls' with
      | ROk st2 os => ROk st2 (o ++ os)
      | RFail k r => RFail (N.succ k) r
      end
    | r => RFail 0 r
    end
  end.

(* ------------------------------------------------------------------------------------------- *)
(* the atom stream of a frame sequence: what C01 is about.  RST_STREAM carries no message content. *)

Inductive atom :=
| AByte (b : N)
| AHead (k : hkind) (h : fields)
| APush (promised : N) (h : fields)
| AEos.

Definition eos_atom (e : bool) : list atom := if e then [AEos] else [].

Definition flat1 (f : sframe) : list atom :=
  match f with
  | FHeaders k h e => AHead k h :: eos_atom e
  | FData p e => map AByte p ++ eos_atom e
  | FPush pr h => [APush pr h]
  | FReset _ => []
  end.

Definition flat (l : list sframe) : list atom := flat_map flat1 l.

Definition data1 (f : sframe) : bytes := match f with FData p _ => p | _ => [] end.
Definition payloads (l : list sframe) : bytes := flat_map data1 l.

(* what the application submitted on stream sid and the model accepted, in order *)
Definition submitted1 (sid : N) (l : label) : list sframe :=
  match l with
  | LSendData s streaming p eos =>
    if N.eqb s sid && streaming && negb (MAXW <? lenB p) then [FData p eos] else []
  | LQueue s f => if N.eqb s sid then [f] else []
  | _ => []
  end.
Definition submitted (sid : N) (ls : list label) : list sframe := flat_map (submitted1 sid) ls.

(* what left the stream's queue: frames handed to the codec, and dropped promises *)
Definition handled1 (sid : N) (o : out) : list sframe :=
  match o with
  | OFrame s f => if N.eqb s sid then [f] else []
  | ODropPush s pr h => if N.eqb s sid then [FPush pr h] else []
  | ORes _ => []
  end.
Definition handled (sid : N) (os : list out) : list sframe := flat_map (handled1 sid) os.

Definition sent1 (sid : N) (o : out) : list sframe :=
  match o with OFrame s f => if N.eqb s sid then [f] else [] | _ => [] end.
Definition sent (sid : N) (os : list out) : list sframe := flat_map (sent1 sid) os.

(* the frames handed to the codec, all streams, in wire order *)
Definition wire1 (o : out) : list (N * sframe) := match o with OFrame s f => [(s, f)] | _ => [] end.
Definition wire_frames (os : list out) : list (N * sframe) := flat_map wire1 os.

Definition cleared1 (sid : N) (l : label) : bool := match l with LClear s => N.eqb s sid | _ => false end.
Definition cleared (sid : N) (ls : list label) : bool := existsb (cleared1 sid) ls.

Definition queue_of (sid : N) (st : dstate) : list sframe :=
  match find_s sid (d_strs st) with Some s => ss_q s | None => [] end.

Definition codec_frame (st : dstate) : option cframe :=
  match d_next st with Some cf => Some cf | None => d_last st end.

(* the unwritten remainder of the stream's DATA frame inside the codec, as a frame *)
Definition inflight_of (sid : N) (st : dstate) : list sframe :=
  match d_inflight st, codec_frame st with
  | IfData k, Some cf =>
    if N.eqb k sid && negb (is_nil (cf_rest cf)) then [FData (cf_rest cf) (cf_eos cf)] else []
  | _, _ => []
  end.

(* ------------------------------------------------------------------------------------------- *)
(* wire: an abstract, possibly stateful frame codec (HPACK contexts are the states).
   Interface lemma needed from C12 (frames) and C10/C11 (header blocks): `codec_sync` below, i.e.
   decode after encode is the identity whatever follows on the wire, a strict prefix of an encoding
   is "need more", and the two contexts stay synchronised. *)

Record wcodec (F ES DS : Type) := mkWC {
  wc_enc : ES -> F -> bytes * ES;
  wc_dec : DS -> bytes -> option (F * bytes * DS)        (* None = need more octets *)
}.
Arguments wc_enc {F ES DS}.
Arguments wc_dec {F ES DS}.

Fixpoint enc_all {F ES DS} (c : wcodec F ES DS) (es : ES) (fs : list F) : bytes :=
  match fs with
  | [] => []
  | f :: fs' => let '(bs, es') := wc_enc c es f in bs ++ enc_all c es' fs'
  end.

(* the reader: parse frames while a whole one is available (fuel = an upper bound on their number) *)
Fixpoint dec_all {F ES DS} (c : wcodec F ES DS) (fuel : nat) (ds : DS) (bs : bytes) : list F :=
  match fuel with
  | O => []
  | S k =>
    match wc_dec c ds bs with
    | None => []
    | Some (f, rest, ds') => f :: dec_all c k ds' rest
    end
  end.

Fixpoint is_prefix {A} (eqb : A -> A -> bool) (a b : list A) : bool :=
  match a, b with
  | [], _ => true
  | x :: a', y :: b' => eqb x y && is_prefix eqb a' b'
  | _ :: _, [] => false
  end.

(* ------------------------------------------------------------------------------------------- *)
(* receive side *)

Inductive revent :=
| EHead (h : fields)            (* Event::Headers *)
| EInfo (h : fields)            (* Event::InformationalHeaders *)
| EData (p : bytes)             (* Event::Data *)
| ETrailers (h : fields).       (* Event::Trailers *)

Record rstr := mkRS { rs_id : N; rs_q : list revent }.      (* Stream.pending_recv *)

Inductive rout :=
| RDeliver (sid : N) (e : revent)
| RDropped (sid : N) (e : revent)    (* discarded unseen: handles dropped, or an interim head skipped by poll_response *)
| RPending (sid : N)
| RNone (sid : N)               (* Ready(None): no more of this kind / clean end *)
| RErr (sid : N)
| RBoolean (sid : N) (b : bool).

Inductive routcome :=
| ROkR (st : list rstr) (outs : list rout)
| RStuck (n : N)
| RPanicR (n : N).

Inductive rlabel :=
| RNew (sid : N)
| RRemove (sid : N)
| RRecvHeaders (sid : N) (info : bool) (h : fields)       (* Recv::recv_headers, accepted *)
| RRecvData (sid : N) (p : bytes) (eos : bool)            (* Recv::recv_data, is_recv, accepted *)
| RRecvTrailers (sid : N) (h : fields)                    (* Recv::recv_trailers, accepted *)
| RRecvPush (promised : N) (h : fields)                   (* Recv::recv_push_promise: Headers event on the promised stream *)
| RClearRecv (sid : N)                                    (* clear_recv_buffer (all handles dropped) *)
| RPollData (sid : N) (s : state)
| RPollTrailers (sid : N) (s : state)
| RPollResponse (sid : N) (s : state)
| RPollInfo (sid : N) (s : state)
| RTakeRequest (sid : N)                                  (* take_request / poll_pushed's pop *)
| RIsEndStream (sid : N) (s : state).

Fixpoint find_r (sid : N) (l : list rstr) : option rstr :=
  match l with
  | [] => None
  | s :: l' => if N.eqb (rs_id s) sid then Some s else find_r sid l'
  end.

Fixpoint upd_r (s : rstr) (l : list rstr) : list rstr :=
  match l with
  | [] => []
  | x :: l' => if N.eqb (rs_id x) (rs_id s) then s :: l' else x :: upd_r s l'
  end.

Definition del_r (sid : N) (l : list rstr) : list rstr :=
  filter (fun x => negb (N.eqb (rs_id x) sid)) l.

(* recv.rs schedule_recv / the `None` arms: stream.state.ensure_recv_open()? *)
Definition on_empty (sid : N) (s : state) : list rout :=
  match ensure_recv_open s with
  | RBool true => [RPending sid]
  | RBool false => [RNone sid]
  | _ => [RErr sid]
  end.

Fixpoint skip_info (q : list revent) : list revent :=
  match q with EInfo _ :: q' => skip_info q' | _ => q end.
Fixpoint lead_info (q : list revent) : list revent :=
  match q with EInfo h :: q' => EInfo h :: lead_info q' | _ => [] end.

Definition push_ev (st : list rstr) (sid : N) (e : revent) (code : N) : routcome :=
  match find_r sid st with
  | None => RStuck code
  | Some r => ROkR (upd_r (mkRS sid (rs_q r ++ [e])) st) []
  end.

Definition rstep (st : list rstr) (l : rlabel) : routcome :=
  match l with
  | RNew sid =>
    match find_r sid st with Some _ => RStuck 1 | None => ROkR (mkRS sid [] :: st) [] end
  | RRemove sid =>
    match find_r sid st with None => RStuck 2 | Some r => ROkR (del_r sid st) (map (RDropped sid) (rs_q r)) end
  | RRecvHeaders sid info h => push_ev st sid (if info then EInfo h else EHead h) 3
  | RRecvData sid p eos =>
    (* an empty DATA frame without END_STREAM produces no event *)
    if is_nil p && negb eos then (match find_r sid st with None => RStuck 4 | Some _ => ROkR st [] end)
    else push_ev st sid (EData p) 4
  | RRecvTrailers sid h => push_ev st sid (ETrailers h) 5
  | RRecvPush promised h => push_ev st promised (EHead h) 6
  | RClearRecv sid =>
    match find_r sid st with None => RStuck 7 | Some r => ROkR (upd_r (mkRS sid []) st) (map (RDropped sid) (rs_q r)) end
  | RPollData sid s =>
    match find_r sid st with
    | None => RStuck 8
    | Some r =>
      match rs_q r with
      | EData p :: q' => ROkR (upd_r (mkRS sid q') st) [RDeliver sid (EData p)]
      | _ :: _ => ROkR st [RNone sid]                      (* push_front(event); Ready(None) *)
      | [] => ROkR st (on_empty sid s)
      end
    end
  | RPollTrailers sid s =>
    match find_r sid st with
    | None => RStuck 9
    | Some r =>
      match rs_q r with
      | ETrailers h :: q' => ROkR (upd_r (mkRS sid q') st) [RDeliver sid (ETrailers h)]
      | _ :: _ => ROkR st [RPending sid]
      | [] => ROkR st (on_empty sid s)
      end
    end
  | RPollResponse sid s =>
    match find_r sid st with
    | None => RStuck 10
    | Some r =>
      (* interim heads still queued are skipped (dropped) by poll_response *)
      match skip_info (rs_q r) with
      | EHead h :: q' =>
        ROkR (upd_r (mkRS sid q') st) (map (RDropped sid) (lead_info (rs_q r)) ++ [RDeliver sid (EHead h)])
      | _ :: _ => RPanicR 1                                (* panic!("poll_response called after response returned") *)
      | [] =>
        match ensure_recv_open s with
        | RBool true => ROkR (upd_r (mkRS sid []) st) (map (RDropped sid) (lead_info (rs_q r)) ++ [RPending sid])
        | _ => ROkR (upd_r (mkRS sid []) st) (map (RDropped sid) (lead_info (rs_q r)) ++ [RErr sid])
        end
      end
    end
  | RPollInfo sid s =>
    match find_r sid st with
    | None => RStuck 11
    | Some r =>
      match rs_q r with
      | EInfo h :: q' => ROkR (upd_r (mkRS sid q') st) [RDeliver sid (EInfo h)]
      | EHead _ :: _ => ROkR st [RNone sid]
      | _ => ROkR st (on_empty sid s)
      end
    end
  | RTakeRequest sid =>
    match find_r sid st with
    | None => RStuck 12
    | Some r =>
      match rs_q r with
      | EHead h :: q' => ROkR (upd_r (mkRS sid q') st) [RDeliver sid (EHead h)]
      | _ => RPanicR 2                                     (* unreachable!/panic!: queue must start with Headers *)
      end
    end
  | RIsEndStream sid s =>
    match find_r sid st with
    | None => RStuck 13
    | Some r => ROkR st [RBoolean sid (is_recv_end_stream s && is_nil (rs_q r))]
    end
  end.

Inductive rrres :=
| RROk (st : list rstr) (outs : list rout)
| RRFail (k : N) (r : routcome).

Fixpoint rrun (st : list rstr) (ls : list rlabel) : rrres :=
  match ls with
  | [] => RROk st []
  | l :: ls' =>
    match rstep st l with
    | ROkR st1 o =>
      match rrun st1 ls' with
      | RROk st2 os => RROk st2 (o ++ os)
      | RRFail k r => RRFail (N.succ k) r
      end
    | r => RRFail 0 r
    end
  end.

(* events pushed on / delivered from / discarded from stream sid *)
Definition pushed1 (sid : N) (l : rlabel) : list revent :=
  match l with
  | RRecvHeaders s info h => if N.eqb s sid then [if info then EInfo h else EHead h] else []
  | RRecvData s p eos => if N.eqb s sid && negb (is_nil p && negb eos) then [EData p] else []
  | RRecvTrailers s h => if N.eqb s sid then [ETrailers h] else []
  | RRecvPush s h => if N.eqb s sid then [EHead h] else []
  | _ => []
  end.
Definition pushed (sid : N) (ls : list rlabel) : list revent := flat_map (pushed1 sid) ls.

Definition delivered1 (sid : N) (o : rout) : list revent :=
  match o with RDeliver s e => if N.eqb s sid then [e] else [] | _ => [] end.
Definition delivered (sid : N) (os : list rout) : list revent := flat_map (delivered1 sid) os.

(* delivered or discarded, in the order they left the queue *)
Definition taken1 (sid : N) (o : rout) : list revent :=
  match o with
  | RDeliver s e | RDropped s e => if N.eqb s sid then [e] else []
  | _ => []
  end.
Definition taken (sid : N) (os : list rout) : list revent := flat_map (taken1 sid) os.
Definition dropped1 (sid : N) (o : rout) : bool :=
  match o with RDropped s _ => N.eqb s sid | _ => false end.

Definition is_info (e : revent) : bool := match e with EInfo _ => true | _ => false end.

Definition rqueue_of (sid : N) (st : list rstr) : list revent :=
  match find_r sid st with Some r => rs_q r | None => [] end.

Definition ev_bytes (e : revent) : bytes := match e with EData p => p | _ => [] end.

(* ------------------------------------------------------------------------------------------- *)
(* Correspondence (lock-step): replay the labels recorded from the implementation; compare, at each
   label, the observed outputs.  Bodies are the harness pattern, generated here from
   (stream id, direction, offset, length), so the case files only carry lengths. *)

Fixpoint pat_from (n : nat) (sid who off : N) : bytes :=
  match n with
  | O => []
  | S k => ((sid * 31 + off * 7 + 13 + who * 101) mod 251) :: pat_from k sid who (off + 1)
  end.
Definition patt (sid who off len : N) : bytes := pat_from (N.to_nat len) sid who off.

(* polynomial digest the harness prints for every DATA frame it parses off the wire *)
Definition M64 : N := 18446744073709551616.
Fixpoint digest (acc : N) (l : bytes) : N :=
  match l with [] => acc | b :: l' => digest ((acc * 131 + b) mod M64) l' end.

(* observed frame: (sid, kind: 0 DATA 1 HEADERS 2 PUSH_PROMISE 3 RST_STREAM, length, eos) *)
Definition frame_sig (f : sframe) : N * N * bool :=
  match f with
  | FData p e => (0, lenB p, e)
  | FHeaders _ _ e => (1, 0, e)
  | FPush _ _ => (2, 0, false)
  | FReset _ => (3, 0, false)
  end.

Definition sig_eqb (a b : N * N * bool) : bool :=
  let '(k, n, e) := a in let '(k', n', e') := b in (k =? k') && (n =? n') && Bool.eqb e e'.

(* expectation per label: None = do not compare; Some l = the frames handed to the codec (sid, sig) *)
Definition outs_match (os : list out) (exp : option (list (N * (N * N * bool)))) : bool :=
  match exp with
  | None => true
  | Some l =>
    (fix go (a : list (N * sframe)) (b : list (N * (N * N * bool))) : bool :=
       match a, b with
       | [], [] => true
       | (s, f) :: a', (s', g) :: b' => (s =? s') && sig_eqb (frame_sig f) g && go a' b'
       | _, _ => false
       end) (wire_frames os) l
  end.

(* observed pre-state of the label's stream: (buffered_send_data, pending_send length) *)
Definition pre_match (st : dstate) (l : label) (pre : option (N * N)) : bool :=
  match pre with
  | None => true
  | Some (b, n) =>
    let sid := match l with
               | LNew s | LRemove s | LSendData s _ _ _ | LQueue s _ | LClear s
               | LPop s _ _ _ | LPopReset s _ | LPopDropPush s => s
               | _ => 0 end in
    match find_live sid (d_strs st) with
    | None => false
    | Some s => (ss_buf s =? b) && ((n =? 4294967295) || (N.of_nat (length (ss_q s)) =? n))   (* 2^32-1: length not observed *)
    end
  end.

(* 0 = agreement; otherwise 10*(index+1) + reason (1 pre-state, 2 outputs, 3 Stuck, 4 Panic) *)
Fixpoint check_run (st : dstate) (i : N) (ls : list (label * option (N * N) * option (list (N * (N * N * bool))))) : N :=
  match ls with
  | [] => 0
  | (l, pre, exp) :: ls' =>
    if negb (pre_match st l pre) then 10 * (i + 1) + 1
    else match step st l with
         | Ok st1 o => if outs_match o exp then check_run st1 (i + 1) ls' else 10 * (i + 1) + 2
         | Stuck _ => 10 * (i + 1) + 3
         | Panic _ => 10 * (i + 1) + 4
         end
  end.

Fixpoint run_state (st : dstate) (ls : list (label * option (N * N) * option (list (N * (N * N * bool))))) : option dstate :=
  match ls with
  | [] => Some st
  | (l, _, _) :: ls' => match step st l with Ok st1 _ => run_state st1 ls' | _ => None end
  end.

(* final: in_flight_data_frame code (0 Nothing, 1 DataFrame, 2 Drop) and per stream (sid, buffered, queue length) *)
Definition inflight_code (i : inflight) : N := match i with IfNothing => 0 | IfData _ => 1 | IfDrop => 2 end.

Definition final_ok (st : dstate) (fin : option (N * list (N * (N * N)))) : bool :=
  match fin with
  | None => true
  | Some (ic, ss) =>
    (inflight_code (d_inflight st) =? ic) &&
    forallb (fun x : N * (N * N) => let '(sid, (b, n)) := x in
               match find_live sid (d_strs st) with
               | None => false
               | Some s => (ss_buf s =? b) && (N.of_nat (length (ss_q s)) =? n)
               end) ss &&
    (N.of_nat (length ss) =? N.of_nat (length (filter (fun s => negb (ss_gone s)) (d_strs st))))
  end.

(* wire digests: per stream, the DATA frames the harness parsed off the endpoint's output
   (sid, length, digest) must be the model's DATA frames in order (content check without shipping it) *)
Definition wire_data (os : list out) : list (N * N * N) :=
  flat_map (fun o => match o with
                     | OFrame s (FData p _) => [(s, lenB p, digest 0 p)]
                     | _ => [] end) os.

Definition trip_eqb (a b : N * N * N) : bool :=
  let '(x, y, z) := a in let '(x', y', z') := b in (x =? x') && (y =? y') && (z =? z').

Definition all_outs (st : dstate) (ls : list (label * option (N * N) * option (list (N * (N * N * bool))))) : list out :=
  match run st (map (fun x => fst (fst x)) ls) with ROk _ os => os | RFail _ _ => [] end.

(* records are identified by their serial number (a stream id can have a second, reset-only record after the
   first was unlinked); km maps serial -> stream id for the comparison with the wire *)
Fixpoint lookup (km : list (N * N)) (k : N) : N :=
  match km with [] => k | (a, b) :: km' => if a =? k then b else lookup km' k end.

Definition case_t : Type :=
  N * list (N * N) * list (label * option (N * N) * option (list (N * (N * N * bool)))) * option (N * list (N * (N * N))) * option (list (N * N * N)).

Definition check_datapath (c : case_t) : bool :=
  let '(chain, km, ls, fin, wd) := c in
  let st0 := init_state chain in
  (check_run st0 0 ls =? 0) &&
  match run_state st0 ls with Some st => final_ok st fin | None => false end &&
  match wd with
  | None => true
  | Some l => is_prefix trip_eqb l (map (fun x : N * N * N => let '(s, n, d) := x in (lookup km s, n, d)) (wire_data (all_outs st0 ls)))
  end.

Definition diag_datapath (c : case_t) : N :=
  let '(chain, km, ls, fin, wd) := c in check_run (init_state chain) 0 ls.

(* receive side lock-step: labels with the observed API result
   (0 deliver k n: kind 0 head 1 info 2 data 3 trailers, n = data length; 1 pending; 2 none; 3 err; 4 bool) *)
Definition rout_sig (o : rout) : N * N * N :=
  match o with
  | RDeliver _ (EHead _) => (0, 0, 0)
  | RDeliver _ (EInfo _) => (0, 1, 0)
  | RDeliver _ (EData p) => (0, 2, lenB p)
  | RDeliver _ (ETrailers _) => (0, 3, 0)
  | RDropped _ _ => (9, 0, 0)
  | RPending _ => (1, 0, 0)
  | RNone _ => (2, 0, 0)
  | RErr _ => (3, 0, 0)
  | RBoolean _ b => (4, if b then 1 else 0, 0)
  end.

Fixpoint rcheck_run (st : list rstr) (i : N) (ls : list (rlabel * option (N * N * N) * option N)) : N :=
  match ls with
  | [] => 0
  | (l, exp, qlen) :: ls' =>
    let sid := match l with
               | RNew s | RRemove s | RRecvHeaders s _ _ | RRecvData s _ _ | RRecvTrailers s _ | RRecvPush s _
               | RClearRecv s | RPollData s _ | RPollTrailers s _ | RPollResponse s _ | RPollInfo s _
               | RTakeRequest s | RIsEndStream s _ => s end in
    if negb (match qlen with
             | None => true
             | Some n => N.of_nat (length (rqueue_of sid st)) =? n end) then 10 * (i + 1) + 1
    else match rstep st l with
         | ROkR st1 o =>
           if (match exp, filter (fun x => negb (match x with RDropped _ _ => true | _ => false end)) o with
               | None, _ => true
               | Some e, [x] => trip_eqb (rout_sig x) e
               | Some _, _ => false
               end) then rcheck_run st1 (i + 1) ls' else 10 * (i + 1) + 2
         | RStuck _ => 10 * (i + 1) + 3
         | RPanicR _ => 10 * (i + 1) + 4
         end
  end.

Definition check_recvpath (ls : list (rlabel * option (N * N * N) * option N)) : bool :=
  rcheck_run [] 0 ls =? 0.
