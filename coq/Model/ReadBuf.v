(* Executable model of the receive path of h2's codec:
     tokio_util::codec::LengthDelimitedCodec as configured in src/codec/mod.rs
       (big endian, length_field_length 3 at offset 0, length_adjustment 9, num_skip 0,
        max_frame_length = the local SETTINGS_MAX_FRAME_SIZE),
     src/codec/framed_read.rs  decode_frame / Partial / Continuable / map_err / calc_max_continuation_frames
   as a state machine that is fed arbitrary chunks of octets ([feed]).

   HPACK (`Headers::load_hpack` -> `HeaderBlock::load`) is an explicit parameter [hpack_ops]: the
   reader only needs to know the outcome of loading the bytes buffered so far, which bytes the
   decoder left unconsumed, and whether the block went over size.  Two instances are given:
     [hp_raw]  keeps the concatenated fragments (used by the theorems about framing),
     [hp_lit]  the fragment of HPACK the correspondence harness generates (literal fields
               without indexing, new name, no Huffman), with HeaderBlock::load's size accounting. *)
From H2V Require Import Base.Tac Base.Bytes Gen.FrameConsts Ref.Rfc9113Frame Model.FrameCodec.
Local Open Scope N_scope.

(* ---------------------------------------------------------------------------------------- *)
(* proto::Error values built by framed_read.rs (Initiator::Library throughout) *)
Inductive proto_error :=
| PEReset (sid reason : N)                  (* Error::library_reset *)
| PEGoAway (debug : list N) (reason : N)    (* Error::library_go_away / library_go_away_data *)
| PEIo.                                     (* any other io::Error of the transport *)

(* "header_list_way_too_large" / "too_many_continuations" *)
Definition dbg_header_list_way_too_large : list N :=
  [104;101;97;100;101;114;95;108;105;115;116;95;119;97;121;95;116;111;111;95;108;97;114;103;101].
Definition dbg_too_many_continuations : list N :=
  [116;111;111;95;109;97;110;121;95;99;111;110;116;105;110;117;97;116;105;111;110;115].

(* ---------------------------------------------------------------------------------------- *)
(* the HPACK side, abstractly *)

Inductive hp_outcome :=
| HpOk
| HpNeedMore          (* Err(Hpack(NeedMore(_))) *)
| HpMalformed         (* Err(MalformedMessage) *)
| HpWayTooLarge       (* Err(HeaderListWayTooLarge) *)
| HpOther             (* any other frame::Error *)
| HpUnsupported.      (* input outside the fragment of HPACK an instance models *)

Record hpack_ops (HS : Type) := {
  (* a fresh, empty HeaderBlock for a new HEADERS / PUSH_PROMISE frame; the decoder's
     connection-level state is kept *)
  hp_begin : HS -> HS;
  (* HeaderBlock::load(&mut buf, max_header_list_size, decoder): outcome, the bytes left in
     [buf] (the decoder consumes whole field representations only), new state *)
  hp_load : N -> HS -> list N -> hp_outcome * list N * HS;
  (* HeaderBlock::is_over_size *)
  hp_over : HS -> bool }.
Arguments hp_begin {HS} _ _. Arguments hp_load {HS} _ _ _ _. Arguments hp_over {HS} _ _.

(* ---------------------------------------------------------------------------------------- *)
(* framed_read.rs *)

Definition usize_max : N := 18446744073709551615.

(* calc_max_continuation_frames (header_max / frame_max panics for frame_max = 0;
   set_max_frame_size asserts frame_max >= DEFAULT_MAX_FRAME_SIZE) *)
Definition calc_max_continuation_frames (header_max frame_max : N) : N :=
  let min_frames_for_list := N.max (header_max / frame_max) cont_min_frames_floor in
  let padding := min_frames_for_list / cont_padding_divisor in
  N.max (N.min (min_frames_for_list + padding) usize_max) cont_min_limit.

(* struct Partial { frame: Continuable, buf, continuation_frames_count } -- [pt_frame] is a
   FHeaders / FPushPromise value whose block field is unused ([]) *)
Record partial := { pt_frame : frame; pt_buf : list N; pt_count : N }.

Definition frame_sid (f : frame) : N :=
  match f with
  | FData s _ _ _ => s | FHeaders s _ _ _ => s | FPriority s _ => s | FPushPromise s _ _ _ => s
  | FSettings _ => 0 | FPing _ _ => 0 | FGoAway _ _ _ => 0 | FWindowUpdate s _ => s | FReset s _ => s
  end.

(* From<Continuable> for Frame: set_end_headers() *)
Definition set_end_headers (f : frame) : frame :=
  match f with
  | FHeaders s fl d b => FHeaders s (fl + (if has_bit fl headers_END_HEADERS then 0 else headers_END_HEADERS)) d b
  | FPushPromise s fl p b => FPushPromise s (fl + (if has_bit fl headers_END_HEADERS then 0 else headers_END_HEADERS)) p b
  | _ => f
  end.

Inductive event (HS : Type) :=
| EvFrame (f : frame)               (* Data, Priority, Settings, Ping, GoAway, WindowUpdate, Reset *)
| EvHeaders (f : frame) (hs : HS)   (* Headers / PushPromise (block field unused), with the loaded header block *)
| EvError (e : proto_error)
| EvPanic
| EvUnsupported
| EvOutOfFuel.
Arguments EvFrame {HS} f. Arguments EvHeaders {HS} f hs. Arguments EvError {HS} e.
Arguments EvPanic {HS}. Arguments EvUnsupported {HS}. Arguments EvOutOfFuel {HS}.

(* result of decode_frame *)
Inductive dres (HS : Type) :=
| DNone                             (* Ok(None): partial header block, or ignored frame *)
| DEvent (e : event HS)             (* Ok(Some(frame)) or Err(e): poll_next returns, state survives *)
| DStop (e : event HS).             (* panic / unsupported: nothing runs afterwards *)
Arguments DNone {HS}. Arguments DEvent {HS} e. Arguments DStop {HS} e.

Definition go_away_protocol {HS} : dres HS := DEvent (EvError (PEGoAway [] reason_PROTOCOL_ERROR)).

(* the four-way match after load_hpack, common to the header_block! macro and CONTINUATION *)
Definition hpack_verdict {HS} (oc : hp_outcome) (is_end_headers : bool) (sid : N) : option (dres HS) :=
  match oc with
  | HpOk => None
  | HpNeedMore => if is_end_headers then Some go_away_protocol else None
  | HpMalformed => Some (DEvent (EvError (PEReset sid reason_PROTOCOL_ERROR)))
  | HpWayTooLarge =>
      Some (DEvent (EvError (PEGoAway dbg_header_list_way_too_large reason_ENHANCE_YOUR_CALM)))
  | HpOther => Some go_away_protocol
  | HpUnsupported => Some (DStop EvUnsupported)
  end.

(* map of a failed `load` (decode_frame's map_err closures and the two stream-level cases) *)
Definition load_error_event {HS} (k : kind) (sid : N) (e : frame_error) : dres HS :=
  match e, k with
  | InvalidDependencyId, KHeaders => DEvent (EvError (PEReset sid reason_PROTOCOL_ERROR))
  | InvalidDependencyId, KPushPromise => DEvent (EvError (PEReset sid reason_PROTOCOL_ERROR))
  | InvalidDependencyId, KPriority => DEvent (EvError (PEReset sid reason_PROTOCOL_ERROR))
  | _, _ => go_away_protocol
  end.

Definition strip_block (f : frame) : frame :=
  match f with
  | FHeaders s fl d _ => FHeaders s fl d []
  | FPushPromise s fl p _ => FPushPromise s fl p []
  | _ => f
  end.

Definition frame_flags (f : frame) : N :=
  match f with FHeaders _ fl _ _ => fl | FPushPromise _ fl _ _ => fl | _ => 0 end.

Definition is_header_frame (f : frame) : bool :=
  match f with FHeaders _ _ _ _ => true | FPushPromise _ _ _ _ => true | _ => false end.

Definition frame_block (f : frame) : list N :=
  match f with FHeaders _ _ _ b => b | FPushPromise _ _ _ b => b | _ => [] end.

(* decode_frame(hpack, max_header_list_size, max_continuation_frames, partial_inout, bytes) *)
Definition decode_frame {HS} (ops : hpack_ops HS) (max_hls max_cont : N)
           (pt : option partial) (hs : HS) (bytes : list N)
  : option partial * HS * dres HS :=
  match parse_head bytes with
  | None => (pt, hs, DStop EvPanic)                         (* Head::parse indexes 9 octets *)
  | Some (h, payload) =>
      let k := kind_new (h_kind h) in
      let is_cont := match k with KContinuation => true | _ => false end in
      if (match pt with Some _ => true | None => false end) && negb is_cont
      then (pt, hs, go_away_protocol)                       (* "expected CONTINUATION, got ..." *)
      else
      match load_frame bytes with
      | PPanic => (pt, hs, DStop EvPanic)
      | PErrFrameSize => (pt, hs, DStop EvPanic)             (* not produced by load_frame *)
      | PNotOneFrame => (pt, hs, DStop EvPanic)              (* not produced by load_frame *)
      | PErrPriorityZero => (pt, hs, go_away_protocol)
      | PErrGoAwayStream => (pt, hs, go_away_protocol)
      | PErr k' sid e => (pt, hs, load_error_event k' sid e)
      | POk LdIgnored => (pt, hs, DNone)
      | POk (LdFrame f) =>
          if is_header_frame f then
            (* header_block! *)
            let is_end_headers := has_bit (frame_flags f) headers_END_HEADERS in
            let '(oc, rest, hs2) := hp_load ops max_hls (hp_begin ops hs) (frame_block f) in
            match hpack_verdict oc is_end_headers (frame_sid f) with
            | Some d => (pt, hs2, d)
            | None =>
                if is_end_headers then (pt, hs2, DEvent (EvHeaders (strip_block f) hs2))
                else (Some {| pt_frame := strip_block f; pt_buf := rest; pt_count := 0 |}, hs2, DNone)
            end
          else (pt, hs, DEvent (EvFrame f))
      | POk (LdContinuation sid is_end_headers frag) =>
          match pt with
          | None => (None, hs, go_away_protocol)             (* unexpected CONTINUATION *)
          | Some p =>
              (* partial_inout.take(): from here on the partial is gone unless put back *)
              if negb (frame_sid (pt_frame p) =? sid) then (None, hs, go_away_protocol) else
              let cnt := pt_count p + 1 in
              if negb is_end_headers && (max_cont <? cnt) then
                (None, hs, DEvent (EvError (PEGoAway dbg_too_many_continuations reason_ENHANCE_YOUR_CALM)))
              else
              let count' := if is_end_headers then 0 else cnt in
              if negb (lenN (pt_buf p) =? 0) && hp_over ops hs
                 && (max_hls <? lenN (pt_buf p) + lenN bytes)
              then (None, hs, DEvent (EvError (PEGoAway [] reason_COMPRESSION_ERROR)))
              else
              let buf := pt_buf p ++ frag in
              let '(oc, rest, hs2) := hp_load ops max_hls hs buf in
              match hpack_verdict oc is_end_headers sid with
              | Some d => (None, hs2, d)
              | None =>
                  if is_end_headers then (None, hs2, DEvent (EvHeaders (set_end_headers (pt_frame p)) hs2))
                  else (Some {| pt_frame := pt_frame p; pt_buf := rest; pt_count := count' |}, hs2, DNone)
              end
          end
      end
  end.

(* ---------------------------------------------------------------------------------------- *)
(* tokio_util LengthDelimitedCodec::decode (decode_head / decode_data) *)

Inductive ld_state := LdHead | LdData (n : N).

Inductive ld_res :=
| LdNeed (s : ld_state)                    (* Ok(None): wait for more bytes *)
| LdOut (frame rest : list N)              (* Ok(Some(src.split_to(n))), state back to Head *)
| LdError.                                 (* LengthDelimitedCodecError: length field > max_frame_len *)

Definition ld_data (n : N) (buf : list N) : ld_res :=
  if lenN buf <? n then LdNeed (LdData n) else LdOut (takeN n buf) (dropN n buf).

(* num_head_bytes() = max(length_field_offset + length_field_len, num_skip) = 3: the length is
   read, and checked against max_frame_len, as soon as three octets are buffered *)
Definition ld_decode (max_frame_len : N) (s : ld_state) (buf : list N) : ld_res :=
  match s with
  | LdData n => ld_data n buf
  | LdHead =>
      match buf with
      | l0 :: l1 :: l2 :: _ =>
          let n := (l0 * 256 + l1) * 256 + l2 in
          if max_frame_len <? n then LdError
          else ld_data (n + ld_length_adjustment) buf
      | _ => LdNeed LdHead
      end
  end.

(* ---------------------------------------------------------------------------------------- *)
(* FramedRead as a state machine over chunks *)

Record rstate (HS : Type) := {
  r_buf : list N;                  (* tokio_util FramedImpl read buffer *)
  r_ld : ld_state;
  r_max_frame : N;                 (* LengthDelimitedCodec max_frame_length *)
  r_max_hls : N;                   (* max_header_list_size *)
  r_max_cont : N;                  (* max_continuation_frames *)
  r_partial : option partial;
  r_hs : HS;
  r_dead : bool }.                 (* errored transport / panicked task: nothing is produced any more *)
Arguments r_buf {HS} _. Arguments r_ld {HS} _. Arguments r_max_frame {HS} _. Arguments r_max_hls {HS} _.
Arguments r_max_cont {HS} _. Arguments r_partial {HS} _. Arguments r_hs {HS} _. Arguments r_dead {HS} _.

(* Codec::with_max_recv_frame_size(io, max) followed by set_max_recv_header_list_size(hls) *)
Definition rinit {HS} (hs0 : HS) (max_frame max_hls : N) : rstate HS :=
  {| r_buf := []; r_ld := LdHead; r_max_frame := max_frame; r_max_hls := max_hls;
     r_max_cont := calc_max_continuation_frames max_hls max_frame;
     r_partial := None; r_hs := hs0; r_dead := false |}.

Definition set_core {HS} (st : rstate HS) (buf : list N) (ld : ld_state) (pt : option partial) (hs : HS)
           (dead : bool) : rstate HS :=
  {| r_buf := buf; r_ld := ld; r_max_frame := r_max_frame st; r_max_hls := r_max_hls st;
     r_max_cont := r_max_cont st; r_partial := pt; r_hs := hs; r_dead := dead |}.

(* FramedRead::poll_next's loop, run until the buffered bytes yield nothing more.  Every round
   that continues has consumed a complete frame (>= 9 octets), so [length buf + 1] rounds of fuel
   are enough (Proofs/ReadBufProofs.v pump_fuel_enough); EvOutOfFuel is a distinct event. *)
Fixpoint pump {HS} (ops : hpack_ops HS) (fuel : nat) (st : rstate HS) : rstate HS * list (event HS) :=
  match fuel with
  | O => (set_core st (r_buf st) (r_ld st) (r_partial st) (r_hs st) true, [EvOutOfFuel])
  | S fuel' =>
      if r_dead st then (st, []) else
      match ld_decode (r_max_frame st) (r_ld st) (r_buf st) with
      | LdNeed s => (set_core st (r_buf st) s (r_partial st) (r_hs st) false, [])
      | LdError =>
          (* map_err: LengthDelimitedCodecError -> library_go_away(FRAME_SIZE_ERROR); the inner
             FramedRead is in its `errored` state: the stream then ends *)
          (set_core st (r_buf st) (r_ld st) (r_partial st) (r_hs st) true,
           [EvError (PEGoAway [] reason_FRAME_SIZE_ERROR)])
      | LdOut bytes rest =>
          let '(pt, hs, d) := decode_frame ops (r_max_hls st) (r_max_cont st) (r_partial st) (r_hs st) bytes in
          match d with
          | DNone => pump ops fuel' (set_core st rest LdHead pt hs false)
          | DEvent e =>
              let (st', evs) := pump ops fuel' (set_core st rest LdHead pt hs false) in (st', e :: evs)
          | DStop e => (set_core st rest LdHead pt hs true, [e])
          end
      end
  end.

(* the transport delivered [chunk] (poll_read_buf appended it to the read buffer) and
   poll_next is called until it returns Pending *)
Definition feed {HS} (ops : hpack_ops HS) (st : rstate HS) (chunk : list N) : rstate HS * list (event HS) :=
  let buf := r_buf st ++ chunk in
  pump ops (S (length buf)) (set_core st buf (r_ld st) (r_partial st) (r_hs st) (r_dead st)).

Fixpoint feed_all {HS} (ops : hpack_ops HS) (st : rstate HS) (chunks : list (list N))
  : rstate HS * list (event HS) :=
  match chunks with
  | [] => (st, [])
  | c :: cs =>
      let (st1, e1) := feed ops st c in
      let (st2, e2) := feed_all ops st1 cs in
      (st2, e1 ++ e2)
  end.

(* end of the transport stream (read of 0 bytes): LengthDelimitedCodec::decode_eof reports
   "bytes remaining on stream" when a frame is cut short *)
Inductive eof_result := EofClean | EofIoError | EofDead.
Definition feed_eof {HS} (st : rstate HS) : eof_result :=
  if r_dead st then EofDead else if lenN (r_buf st) =? 0 then EofClean else EofIoError.

(* ---------------------------------------------------------------------------------------- *)
(* instance 1: header blocks as raw octets *)

Definition hp_raw : hpack_ops (list N) :=
  {| hp_begin := fun _ => [];
     hp_load := fun _ acc buf => (HpOk, [], acc ++ buf);
     hp_over := fun _ => false |}.

(* the frame value an event of the raw instance stands for *)
Definition raw_event_frame (e : event (list N)) : option frame :=
  match e with
  | EvFrame f => Some f
  | EvHeaders (FHeaders s fl d _) block => Some (FHeaders s fl d block)
  | EvHeaders (FPushPromise s fl p _) block => Some (FPushPromise s fl p block)
  | _ => None
  end.

(* ---------------------------------------------------------------------------------------- *)
(* instance 2: literal header fields without indexing (first octet 0x00 or 0x10), new name,
   no Huffman coding, names in [a-z0-9-]+, values in printable ASCII -- exactly what
   harness/src/bin/framecodec.rs generates -- with the accounting of HeaderBlock::load
   (frame/headers.rs).  Anything else is HpUnsupported. *)

Inductive int_res := IntOk (v : N) (rest : list N) | IntNeedMore | IntOverflow.

(* hpack/decoder.rs decode_int continuation octets; [bytes] counts octets read so far *)
Fixpoint decode_int_more (fuel : nat) (ret shift bytes : N) (buf : list N) : int_res :=
  match fuel with
  | O => IntOverflow
  | S fuel' =>
      match buf with
      | [] => IntNeedMore
      | b :: rest =>
          let ret' := ret + (b mod 128) * 2 ^ shift in
          if b <? 128 then IntOk ret' rest
          else if bytes + 1 =? 5 then IntOverflow
          else decode_int_more fuel' ret' (shift + 7) (bytes + 1) rest
      end
  end.

Definition decode_int (prefix_mask : N) (buf : list N) : int_res :=
  match buf with
  | [] => IntNeedMore
  | b :: rest =>
      let ret := b mod (prefix_mask + 1) in
      if ret <? prefix_mask then IntOk ret rest
      else decode_int_more 5 ret 0 1 rest
  end.

Inductive str_res := StrOk (s rest : list N) | StrNeedMore | StrOverflow | StrHuffman.

(* try_decode_string, Huffman flag clear *)
Definition decode_str (buf : list N) : str_res :=
  match buf with
  | [] => StrNeedMore
  | b :: _ =>
      if 128 <=? b then StrHuffman else
      match decode_int 127 buf with
      | IntNeedMore => StrNeedMore
      | IntOverflow => StrOverflow
      | IntOk len rest =>
          if lenN rest <? len then StrNeedMore else StrOk (takeN len rest) (dropN len rest)
      end
  end.

Definition name_char_ok (c : N) : bool :=
  ((97 <=? c) && (c <=? 122)) || ((48 <=? c) && (c <=? 57)) || (c =? 45).
Definition value_char_ok (c : N) : bool := (32 <=? c) && (c <=? 126).

Definition s_connection : list N := [99;111;110;110;101;99;116;105;111;110].
Definition s_transfer_encoding : list N := [116;114;97;110;115;102;101;114;45;101;110;99;111;100;105;110;103].
Definition s_upgrade : list N := [117;112;103;114;97;100;101].
Definition s_keep_alive : list N := [107;101;101;112;45;97;108;105;118;101].
Definition s_proxy_connection : list N := [112;114;111;120;121;45;99;111;110;110;101;99;116;105;111;110].
Definition s_te : list N := [116;101].
Definition s_trailers : list N := [116;114;97;105;108;101;114;115].

Record lit_state := {
  lt_fields : list (list N * list N);   (* HeaderMap contents, in insertion order *)
  lt_field_size : N;                    (* HeaderBlock::field_size *)
  lt_over : bool;                       (* HeaderBlock::is_over_size *)
  lt_malformed : bool }.                (* HeaderBlock::is_malformed: outlives one call of load *)

Definition lit_empty : lit_state :=
  {| lt_fields := []; lt_field_size := 0; lt_over := false; lt_malformed := false |}.

(* `self.is_malformed = malformed;` right after Decoder::decode returns, whatever it returned *)
Definition lit_store (st : lit_state) (malformed : bool) : lit_state :=
  {| lt_fields := lt_fields st; lt_field_size := lt_field_size st; lt_over := lt_over st;
     lt_malformed := malformed |}.

(* the closure passed to Decoder::decode plus the loop around it *)
Fixpoint lit_loop (fuel : nat) (max_hls : N) (st : lit_state) (headers_size : N) (malformed : bool)
         (buf : list N) : hp_outcome * list N * lit_state :=
  match fuel with
  | O => (HpUnsupported, buf, lit_store st malformed)
  | S fuel' =>
      match buf with
      | [] => (if malformed then HpMalformed else HpOk, [], lit_store st malformed)
      | b :: after_type =>
          if negb ((b =? 0) || (b =? 16)) then (HpUnsupported, buf, lit_store st malformed) else
          match decode_str after_type with
          | StrNeedMore => (HpNeedMore, buf, lit_store st malformed)
          | StrOverflow => (HpOther, buf, lit_store st malformed)
          | StrHuffman => (HpUnsupported, buf, lit_store st malformed)
          | StrOk name after_name =>
              match decode_str after_name with
              | StrNeedMore => (HpNeedMore, buf, lit_store st malformed)
              | StrOverflow => (HpOther, buf, lit_store st malformed)
              | StrHuffman => (HpUnsupported, buf, lit_store st malformed)
              | StrOk value rest =>
                  if negb (forallb name_char_ok name && negb (lenN name =? 0) && forallb value_char_ok value)
                  then (HpUnsupported, buf, lit_store st malformed) else
                  if list_N_eqb name s_connection || list_N_eqb name s_transfer_encoding
                     || list_N_eqb name s_upgrade || list_N_eqb name s_keep_alive
                     || list_N_eqb name s_proxy_connection
                     || (list_N_eqb name s_te && negb (list_N_eqb value s_trailers))
                  then lit_loop fuel' max_hls st headers_size true rest
                  else
                    let header_size := lenN name + lenN value + 32 in
                    let headers_size' := headers_size + header_size in
                    if N.min (max_hls * MAX_HEADER_LIST_ABUSE_MULTIPLIER) usize_max <? headers_size'
                    then (HpWayTooLarge, rest, lit_store st malformed)   (* ControlFlow::Break after consume() *)
                    else
                      let over := lt_over st || (max_hls <=? headers_size') in
                      let st' :=
                        if over then {| lt_fields := lt_fields st; lt_field_size := lt_field_size st; lt_over := true;
                                        lt_malformed := lt_malformed st |}
                        else {| lt_fields := lt_fields st ++ [(name, value)];
                                lt_field_size := lt_field_size st + header_size; lt_over := false;
                                lt_malformed := lt_malformed st |} in
                      lit_loop fuel' max_hls st' headers_size' malformed rest
              end
          end
      end
  end.

Definition hp_lit : hpack_ops lit_state :=
  {| hp_begin := fun _ => lit_empty;
     hp_load := fun max_hls st buf => lit_loop (S (length buf)) max_hls st (lt_field_size st) (lt_malformed st) buf;
     hp_over := lt_over |}.

(* ---------------------------------------------------------------------------------------- *)
(* correspondence with the implementation (modes parse / malformed / readchunk of
   harness/src/bin/framecodec.rs): what h2::Codec produced, canonicalised *)

Inductive ievent :=
| IFrame (f : frame)
| IHeaders (f : frame) (fields : list (list N * list N)) (over : bool)
| IReset (sid reason : N)
| IGoAway (reason : N) (debug : list N)
| IIo
| IPanic.

Fixpoint fields_eqb (a b : list (list N * list N)) : bool :=
  match a, b with
  | [], [] => true
  | (n1, v1) :: a', (n2, v2) :: b' => list_N_eqb n1 n2 && list_N_eqb v1 v2 && fields_eqb a' b'
  | _, _ => false
  end.

Definition dep_eqb (a b : dependency) : bool :=
  (dep_id a =? dep_id b) && (dep_weight a =? dep_weight b) && Bool.eqb (dep_excl a) (dep_excl b).

Definition opt_dep_eqb (a b : option dependency) : bool :=
  match a, b with None, None => true | Some x, Some y => dep_eqb x y | _, _ => false end.

Definition settings_eqb (a b : settings) : bool :=
  (s_flags a =? s_flags b)
  && opt_N_eqb (s_header_table_size a) (s_header_table_size b)
  && opt_N_eqb (s_enable_push a) (s_enable_push b)
  && opt_N_eqb (s_max_concurrent_streams a) (s_max_concurrent_streams b)
  && opt_N_eqb (s_initial_window_size a) (s_initial_window_size b)
  && opt_N_eqb (s_max_frame_size a) (s_max_frame_size b)
  && opt_N_eqb (s_max_header_list_size a) (s_max_header_list_size b)
  && opt_N_eqb (s_enable_connect_protocol a) (s_enable_connect_protocol b).

Definition frame_eqb (a b : frame) : bool :=
  match a, b with
  | FData s f p d, FData s' f' p' d' => (s =? s') && (f =? f') && opt_N_eqb p p' && list_N_eqb d d'
  | FHeaders s f d b, FHeaders s' f' d' b' => (s =? s') && (f =? f') && opt_dep_eqb d d' && list_N_eqb b b'
  | FPriority s d, FPriority s' d' => (s =? s') && dep_eqb d d'
  | FPushPromise s f p b, FPushPromise s' f' p' b' => (s =? s') && (f =? f') && (p =? p') && list_N_eqb b b'
  | FSettings x, FSettings y => settings_eqb x y
  | FPing a p, FPing a' p' => Bool.eqb a a' && list_N_eqb p p'
  | FGoAway l c d, FGoAway l' c' d' => (l =? l') && (c =? c') && list_N_eqb d d'
  | FWindowUpdate s i, FWindowUpdate s' i' => (s =? s') && (i =? i')
  | FReset s c, FReset s' c' => (s =? s') && (c =? c')
  | _, _ => false
  end.

Definition event_matches (m : event lit_state) (i : ievent) : bool :=
  match m, i with
  | EvFrame f, IFrame f' => frame_eqb f f'
  | EvHeaders f hs, IHeaders f' fields over =>
      frame_eqb f f' && fields_eqb (lt_fields hs) fields && Bool.eqb (lt_over hs) over
  | EvError (PEReset s r), IReset s' r' => (s =? s') && (r =? r')
  | EvError (PEGoAway d r), IGoAway r' d' => (r =? r') && list_N_eqb d d'
  | EvError PEIo, IIo => true
  | EvPanic, IPanic => true
  | _, _ => false
  end.

Fixpoint events_match (ms : list (event lit_state)) (is : list ievent) : bool :=
  match ms, is with
  | [], [] => true
  | m :: ms', i :: is' => event_matches m i && events_match ms' is'
  | _, _ => false
  end.

Definition has_unsupported (ms : list (event lit_state)) : bool :=
  existsb (fun e => match e with EvUnsupported => true | EvOutOfFuel => true | _ => false end) ms.

(* the octets [bs] cut into chunks of the given lengths (what is left over is a last chunk) *)
Fixpoint cut (lens : list N) (bs : list N) : list (list N) :=
  match lens with
  | [] => match bs with [] => [] | _ => [bs] end
  | n :: lens' => takeN n bs :: cut lens' (dropN n bs)
  end.

(* a case: (max_frame_size, max_header_list_size, octets, chunk lengths, implementation events,
   io error at eof).  The implementation is polled until it returns Pending after the last chunk,
   then the transport signals EOF; [eof_io] says whether that produced an io error. *)
Definition check_read (c : N * N * list N * list N * list ievent * bool) : bool :=
  let '(max_frame, max_hls, bs, lens, impl, eof_io) := c in
  let chunks := cut lens bs in
  let (st, evs) := feed_all hp_lit (rinit lit_empty max_frame max_hls) chunks in
  negb (has_unsupported evs) && events_match evs impl
  && (match feed_eof st with
      | EofClean => negb eof_io
      | EofIoError => eof_io
      | EofDead => true
      end).

(* used by the Python side to tell "outside the modelled HPACK fragment" from a disagreement *)
Definition read_supported (c : N * N * list N * list N * list ievent * bool) : bool :=
  let '(max_frame, max_hls, bs, lens, _, _) := c in
  negb (has_unsupported (snd (feed_all hp_lit (rinit lit_empty max_frame max_hls) (cut lens bs)))).

(* the oracle of the search: the reference grammar evaluated on the same octets.  [rfc_events]
   gives, for an octet stream, the RFC-level verdicts frame by frame up to the first rejection. *)
Inductive rfc_event :=
| RAccept (w : wire_frame)
| RReject (code : N).

Fixpoint rfc_walk (max : N) (frames : list (list N)) : list rfc_event :=
  match frames with
  | [] => []
  | f :: fs =>
      match rfc_parse_frame_codec max f with
      | Accept w => RAccept w :: rfc_walk max fs
      | Reject c => [RReject c]
      | NotOneFrame => [RReject 0]
      end
  end.

(* oversize frames are not complete in the stream when the sender stops after the header: cut
   with the declared lengths but stop at the first frame whose length exceeds [max] *)
Fixpoint rfc_stream (fuel : nat) (max : N) (bs : list N) : list rfc_event :=
  match fuel with
  | O => []
  | S fuel' =>
      match declared_length bs with
      | None => []
      | Some len =>
          if max <? len then [RReject FRAME_SIZE_ERROR]
          else if 9 + len <=? olen bs then
            match rfc_parse_frame_codec max (take (9 + len) bs) with
            | Accept w => RAccept w :: rfc_stream fuel' max (drop (9 + len) bs)
            | Reject c => [RReject c]
            | NotOneFrame => [RReject 0]
            end
          else []
      end
  end.

(* ---------------------------------------------------------------------------------------- *)
(* ORACLE for the receive side (lib/props/parts/framecodec.py search_framecodec): the reference
   grammar (Ref/Rfc9113Frame.v) applied to the very octets the implementation was fed, walked in
   lock-step with the events the implementation produced.  No part of the model of h2's frame
   layer is used.  The grammar is the one at the codec boundary (rfc_parse_frame_codec): RST_STREAM
   on stream 0 has to be passed up unchanged (the stream layer refuses it), CONTINUATION on stream
   0 is refused by the CONTINUATION discipline below (no block can be open on stream 0).

   The oracle is exact for framing: frame boundaries, sizes, flags, stream identifiers, padding,
   priority fields, SETTINGS / PING / GOAWAY / WINDOW_UPDATE / RST_STREAM values, and the
   CONTINUATION discipline.  Header *content* is compared when the block lies in the literal
   fragment of HPACK (lit_loop run once over the whole reassembled block, no size limit); where
   h2 refuses a block for reasons of content or size (malformed fields, list too large,
   CONTINUATION flood) the oracle only insists that a refusal is an error event. *)

Definition ievent_is_error (e : ievent) : bool :=
  match e with IReset _ _ => true | IGoAway _ _ => true | _ => false end.

Definition big_limit : N := 1099511627776.

(* reference decoding of a complete block; None when outside the literal fragment *)
Definition ref_fields (block : list N) : option (list (list N * list N)) :=
  match lit_loop (S (length block)) big_limit lit_empty 0 false block with
  | (HpOk, _, st) => Some (lt_fields st)
  | _ => None
  end.

(* h2 may refuse a complete, well-framed header block for reasons of *content*: fields it considers
   malformed, an undecodable block, a header list beyond its limits.  The oracle accepts an error
   event for such a block only when the reference decoding of the block shows such a reason. *)
Definition header_error_plausible (max_hls : N) (w : wire_frame) : bool :=
  (* (for a complete block the flood limit does not apply: only non-final CONTINUATIONs count) *)
  let block := match w with
               | WHeaders _ _ _ _ b => b
               | WPushPromise _ _ _ b => b
               | _ => []
               end in
  match lit_loop (S (length block)) big_limit lit_empty 0 false block with
  | (HpOk, _, st) => max_hls <=? lt_field_size st
  | _ => true
  end.

(* ... and for a block that is still open (no END_HEADERS yet): a content reason in what has arrived so
   far, the size limit, or h2's own CONTINUATION-flood policy (ENHANCE_YOUR_CALM) *)
Definition open_block_octets (o : open_block) : list N :=
  match o with OpenHeaders _ _ _ acc => acc | OpenPush _ _ acc => acc end.

Definition partial_error_plausible (max_hls : N) (block : list N) (e : ievent) : bool :=
  match e with
  | IGoAway r _ => r =? reason_ENHANCE_YOUR_CALM
  | _ => false
  end
  || match lit_loop (S (length block)) big_limit lit_empty 0 false block with
     | (HpOk, _, st) => max_hls <=? lt_field_size st
     | (HpNeedMore, _, st) => max_hls <=? lt_field_size st
     | _ => true
     end.

(* does the delivered header frame say what the reference value says? *)
Definition header_event_matches (w : wire_frame) (max_hls : N) (e : ievent) : bool :=
  match e with
  | IHeaders f fields over =>
      let content_ok block :=
        match ref_fields block with
        | Some fs => if over then true else fields_eqb fs fields
        | None => true
        end in
      match w, f with
      | WHeaders sid es _ prio block, FHeaders sid' fl dep _ =>
          (sid =? sid') && Bool.eqb es (has_bit fl headers_END_STREAM) && has_bit fl headers_END_HEADERS
          && opt_prio_eqb prio dep && content_ok block
      | WPushPromise sid _ promised block, FPushPromise sid' fl promised' _ =>
          (sid =? sid') && has_bit fl headers_END_HEADERS && (promised =? promised') && content_ok block
      | _, _ => false
      end
  | _ => false
  end.

(* [walk]: reference verdicts [rs] (from rfc_stream) against implementation events [is];
   [frames] are the octets of the frames the verdicts belong to *)
Fixpoint oracle_walk (max max_hls : N) (cur : option open_block) (rs : list rfc_event) (frames : list (list N))
         (is : list ievent) : bool :=
  match rs with
  | [] =>
      (* the reference has nothing more to say: neither may the implementation, except for an error
         that h2's own limits / content checks justify on a block that is still open *)
      match is, cur with
      | [], _ => true
      | e :: _, Some o => ievent_is_error e && partial_error_plausible max_hls (open_block_octets o) e
      | _ :: _, None => false
      end
  | RReject code :: _ =>
      let fr := match frames with f :: _ => f | [] => [] end in
      (* the one place where the *code* matters to C12: a frame above the limit *)
      let oversize := match declared_length fr with Some l => max <? l | None => false end in
      match is with
      | IGoAway r _ :: _ => if oversize then r =? reason_FRAME_SIZE_ERROR else true
      | IReset _ _ :: _ => negb oversize
      | _ => false
      end
  | RAccept w :: rs' =>
      let frames' := match frames with _ :: t => t | [] => [] end in
      let fr := match frames with f :: _ => f | [] => [] end in
      let expect_error := match is with e :: _ => ievent_is_error e | [] => false end in
      match cur with
      | Some o =>
          match w with
          | WContinuation s eh frag =>
              if s =? open_stream o then
                if eh then
                  match is with
                  | e :: is' =>
                      if ievent_is_error e
                      then header_error_plausible max_hls (open_close (open_extend o frag))
                           || partial_error_plausible max_hls (open_block_octets (open_extend o frag)) e
                      else header_event_matches (open_close (open_extend o frag)) max_hls e
                           && oracle_walk max max_hls None rs' frames' is'
                  | [] => false
                  end
                else
                  (* a limit (flood, size) may strike in the middle of a block *)
                  (* an error event seen now may belong to a later frame: it is judged where the
                     reference refuses a frame, where the block completes, or at the end *)
                  oracle_walk max max_hls (Some (open_extend o frag)) rs' frames' is
              else expect_error
          | _ => expect_error
          end
      | None =>
          match w with
          | WContinuation _ _ _ => expect_error
          | WUnknown _ _ _ _ => oracle_walk max max_hls None rs' frames' is
          | WHeaders s es false p frag =>
              oracle_walk max max_hls (Some (OpenHeaders s es p frag)) rs' frames' is
          | WPushPromise s false pr frag =>
              oracle_walk max max_hls (Some (OpenPush s pr frag)) rs' frames' is
          | WHeaders _ _ true _ _ =>
              match is with
              | e :: is' => if ievent_is_error e then header_error_plausible max_hls w
                            else header_event_matches w max_hls e && oracle_walk max max_hls None rs' frames' is'
              | [] => false
              end
          | WPushPromise _ true _ _ =>
              match is with
              | e :: is' => if ievent_is_error e then header_error_plausible max_hls w
                            else header_event_matches w max_hls e && oracle_walk max max_hls None rs' frames' is'
              | [] => false
              end
          | _ =>
              match is with
              | IFrame f :: is' => wire_matches w (LdFrame f) && oracle_walk max max_hls None rs' frames' is'
              | _ => false
              end
          end
      end
  end.

(* the frames (octets) the verdicts of rfc_stream refer to, in the same order *)
Fixpoint stream_frames (fuel : nat) (max : N) (bs : list N) : list (list N) :=
  match fuel with
  | O => []
  | S fuel' =>
      match declared_length bs with
      | None => []
      | Some len =>
          if max <? len then [bs]
          else if 9 + len <=? olen bs then take (9 + len) bs :: stream_frames fuel' max (drop (9 + len) bs)
          else []
      end
  end.

Definition oracle_read (c : N * N * list N * list N * list ievent * bool) : bool :=
  let '(max_frame, max_hls, bs, _, impl, _) := c in
  let fuel := S (length bs) in
  (* an oversize frame must be answered with FRAME_SIZE_ERROR, and nothing after it *)
  oracle_walk max_frame max_hls None (rfc_stream fuel max_frame bs) (stream_frames fuel max_frame bs) impl
  && negb (existsb (fun e => match e with IPanic => true | _ => false end) impl).
