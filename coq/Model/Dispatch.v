(* Model of h2's DISPATCH layer for one connection with any number of streams: which State method
   the callers invoke for which received frame or API call, what they queue for emission, what
   leaves the queues, and how they react to the method's verdict.

     /repo/src/proto/streams/streams.rs   Inner::recv_headers / recv_data / recv_reset / recv_window_update /
                                          recv_push_promise / recv_go_away / handle_error / recv_eof / send_reset,
                                          Actions::send_reset / reset_on_recv_stream_err / ensure_not_idle /
                                          may_have_forgotten_stream, Streams::send_request, StreamRef::send_data /
                                          send_trailers / send_reset / send_informational_headers / send_response /
                                          send_push_promise, drop_stream_ref, maybe_cancel
     /repo/src/proto/streams/recv.rs      Recv::open / recv_headers / recv_trailers / recv_data / recv_push_promise /
                                          recv_reset / ensure_not_idle / may_have_created_stream /
                                          maybe_reset_next_stream_id / ensure_can_reserve / enqueue_reset_expiration /
                                          send_pending_refusal / go_away / send_stream_window_updates
     /repo/src/proto/streams/send.rs      Send::open / reserve_local / send_headers / send_interim_informational_headers /
                                          send_push_promise / send_reset / schedule_implicit_reset / send_trailers /
                                          recv_stream_window_update / recv_go_away / handle_error
     /repo/src/proto/streams/prioritize.rs  queue_frame, send_data (state part), clear_queue, pop_frame (every arm),
                                          reclaim_frame_inner / push_back_frame, pop_pending_open
     /repo/src/proto/peer.rs              Dyn::ensure_can_open, is_local_init

   One label = one lock-atomic section (one acquisition of the streams mutex).  The per-stream state
   machine is Model/StreamState.v, reused unchanged.  What this model does not carry enters a label as
   an OBSERVED INPUT (admission verdicts of counts.rs, flow-control verdicts, header validation
   verdicts, whether a handle still reads, which stream a queue yields next, whether a DATA frame is
   written completely); theorems quantify over all their values.  `Stuck n` is caller discipline or a
   guard on unmodelled state, checked by the lock-step; `Panic n` is a Rust assertion that would fire.

   What leaves a stream's queue (`OEmit`) is handed to the codec in that order: order within a stream is
   queue order (Model/DataPath.v proves that the split of DATA frames preserves it:
   C01_send_split_preserves), order across streams is whatever sequence of `LPop` labels occurs.

   No proofs in this file. *)
From H2V Require Import Base.Tac Base.Bytes Model.StreamState.
Local Open Scope N_scope.

(* ---------------------------------------------------------------------------------------------
   constants *)

Inductive role := Client | Server.
Definition is_server (r : role) : bool := match r with Server => true | Client => false end.

Definition MAX_ID : N := 2147483647.                      (* StreamId::MAX = u32::MAX >> 1 *)
Definition NO_ERROR : N := 0.
Definition FLOW_CONTROL_ERROR : N := 3.
Definition STREAM_CLOSED : N := 5.
Definition REFUSED_STREAM : N := 7.
Definition CANCEL : N := 8.
Definition ENHANCE_YOUR_CALM : N := 11.

(* debug data of the library's own GOAWAYs *)
Definition TOO_MANY_INTERNAL_RESETS : list N :=
  [116; 111; 111; 95; 109; 97; 110; 121; 95; 105; 110; 116; 101; 114; 110; 97; 108; 95; 114; 101; 115; 101; 116; 115].
Definition TOO_MANY_RESETS : list N :=
  [116; 111; 111; 95; 109; 97; 110; 121; 95; 114; 101; 115; 101; 116; 115].
Definition TOO_MANY_DATA_FRAMES : list N :=
  [116; 111; 111; 95; 109; 97; 110; 121; 95; 100; 97; 116; 97; 95; 102; 114; 97; 109; 101; 115].
(* Inner::recv_eof: "connection closed because of a broken pipe" *)
Definition CONN_EOF_MSG : list N :=
  [99; 111; 110; 110; 101; 99; 116; 105; 111; 110; 32; 99; 108; 111; 115; 101; 100; 32; 98; 101; 99; 97; 117; 115; 101;
   32; 111; 102; 32; 97; 32; 98; 114; 111; 107; 101; 110; 32; 112; 105; 112; 101].

Definition conn_proto : perror := library_go_away PROTOCOL_ERROR.
Definition lib_reset (sid r : N) : perror := EReset sid r Library.

(* StreamId::next_id *)
Definition next_id (id : N) : option N := if MAX_ID <? id + 2 then None else Some (id + 2).
Definition is_client_init (id : N) : bool := negb (id =? 0) && (id mod 2 =? 1).
Definition is_server_init (id : N) : bool := negb (id =? 0) && (id mod 2 =? 0).
(* peer::Dyn::is_local_init (asserts id != 0: callers' discipline, see the Stuck guards) *)
Definition is_local_init (r : role) (id : N) : bool := Bool.eqb (is_server r) (is_server_init id).

(* state.rs: is_send_awaiting_headers (added with the repair a6c5132; not part of Model/StreamState.v) *)
Definition is_send_awaiting_headers (s : state) : bool :=
  match s with
  | Open AwaitingHeaders _ | HalfClosedRemote AwaitingHeaders | ReservedLocal => true
  | _ => false
  end.

(* ---------------------------------------------------------------------------------------------
   frames, outputs *)

(* a frame of one stream's pending_send queue *)
Inductive qframe :=
| QHeaders (eos info : bool)     (* request / response head (info: interim 1xx response) *)
| QTrailers                      (* HEADERS after the body; always END_STREAM *)
| QData (eos : bool)
| QPush (promised : N)           (* PUSH_PROMISE carried on this stream *)
| QReset (code : N).

(* a frame handed to the codec *)
Inductive wframe :=
| WFrame (sid : N) (f : qframe)
| WWindowUpdate (sid : N).

(* a peer frame the stream's state machine accepted *)
Inductive rxk :=
| RxHeaders (eos info : bool)
| RxEnd                          (* END_STREAM on DATA or trailers *)
| RxPromised                     (* this stream was reserved by the peer's PUSH_PROMISE *)
| RxReset (code : N).

(* recv.rs pushes an event on the stream's pending_recv queue: handed to the application *)
Inductive appk := AHeaders | AInfo | ATrailers | AData | APush.

Inductive uerr :=
| UUnexpectedFrameType | UInactiveStreamId | URejected | UOverflowedStreamId
| UPeerDisabledServerPush | UMalformedHeaders | UPayloadTooBig.

(* what the section returned to its caller *)
Inductive result :=
| ROk
| RIgnored                       (* Ok(()) without acting on the frame *)
| RErr (e : perror)              (* Err(proto::Error): connection error (EGoAway), stream error (EReset), stored error *)
| RUser (u : uerr).              (* Err(UserError) to the application *)

Inductive out :=
| OEmit (f : wframe)             (* handed to the codec, in this order *)
| OQueue (sid : N) (f : qframe)  (* appended to the stream's pending_send *)
| OCleared (sid : N)             (* Prioritize::clear_queue: that stream's queued frames discarded *)
| ORx (sid : N) (k : rxk)
| ORxRefused (sid : N)           (* a peer frame on sid is answered with a stream error / a refusal *)
| OApp (sid : N) (k : appk)
| OOpened (sid : N)              (* a record for sid enters the store *)
| OSurface (sid : N) (r : res)   (* what a handle of sid is told (ensure_recv_open / ensure_reason) *)
| ORes (r : result).

(* ---------------------------------------------------------------------------------------------
   state *)

Record srec := mkS {
  s_id : N;                      (* stream.id *)
  s_state : state;               (* stream.state *)
  s_popen : bool;                (* is_pending_open: waits in pending_open for a concurrency slot *)
  s_ppush : bool;                (* is_pending_push: its PUSH_PROMISE is still queued on the parent *)
  s_rexp : bool;                 (* reset_at.is_some(): in pending_reset_expired, still remembered *)
  s_q : list qframe;             (* pending_send *)
  s_infl : option bool           (* a DATA frame partly written, its remainder held by the codec
                                    (buffered_send_data > 0 with an empty queue): its END_STREAM flag *)
}.

(* The store: a slab of records reached by KEY (handles and queues hold keys) and the map store.ids from
   stream id to key (what a received frame finds).  A record that is closed and flushed is unlinked from
   store.ids while handles or queues may still hold its key; Inner::send_reset may then create a second
   record of the same id.  Keys are the per-record serial numbers the hooks print: the key of a new record is
   an observed input of the label that creates it. *)
Record conn := mkC {
  c_role : role;
  c_push_local : bool;           (* recv.is_push_enabled: this endpoint accepts PUSH_PROMISE *)
  c_push_remote : bool;          (* send.is_push_enabled: the peer accepts PUSH_PROMISE *)
  c_slab : list (N * srec);      (* store.slab: key -> record *)
  c_ids : list (N * N);          (* store.ids: stream id -> key *)
  c_send_next : option N;        (* send.next_stream_id; None = overflowed *)
  c_recv_next : option N;        (* recv.next_stream_id *)
  c_send_max : N;                (* send.max_stream_id: lowered by the peer's GOAWAY *)
  c_recv_max : N;                (* recv.max_stream_id: lowered by our GOAWAY *)
  c_refused : option N;          (* recv.refused: a RST_STREAM(REFUSED_STREAM) owed to the codec *)
  c_conn_error : option perror   (* actions.conn_error *)
}.

Inductive outcome :=
| Ok (st : conn) (outs : list out)
| Stuck (n : N)
| Panic (n : N).

Definition new_rec (sid : N) : srec := mkS sid Idle false false false [] None.

Definition set_state (r : srec) (s : state) : srec := mkS (s_id r) s (s_popen r) (s_ppush r) (s_rexp r) (s_q r) (s_infl r).
Definition set_popen (r : srec) (b : bool) : srec := mkS (s_id r) (s_state r) b (s_ppush r) (s_rexp r) (s_q r) (s_infl r).
Definition set_ppush (r : srec) (b : bool) : srec := mkS (s_id r) (s_state r) (s_popen r) b (s_rexp r) (s_q r) (s_infl r).
Definition set_rexp (r : srec) (b : bool) : srec := mkS (s_id r) (s_state r) (s_popen r) (s_ppush r) b (s_q r) (s_infl r).
Definition set_q (r : srec) (q : list qframe) (i : option bool) : srec :=
  mkS (s_id r) (s_state r) (s_popen r) (s_ppush r) (s_rexp r) q i.

Fixpoint sget {A} (k : N) (l : list (N * A)) : option A :=
  match l with
  | [] => None
  | (k', r) :: l' => if k' =? k then Some r else sget k l'
  end.

Fixpoint sset {A} (k : N) (r : A) (l : list (N * A)) : list (N * A) :=
  match l with
  | [] => [(k, r)]
  | (k', x) :: l' => if k' =? k then (k', r) :: l' else (k', x) :: sset k r l'
  end.

Fixpoint sdel {A} (k : N) (l : list (N * A)) : list (N * A) :=
  match l with
  | [] => []
  | (k', x) :: l' => if k' =? k then l' else (k', x) :: sdel k l'
  end.

Definition with_slab (st : conn) (l : list (N * srec)) : conn :=
  mkC (c_role st) (c_push_local st) (c_push_remote st) l (c_ids st) (c_send_next st) (c_recv_next st)
      (c_send_max st) (c_recv_max st) (c_refused st) (c_conn_error st).
Definition with_ids (st : conn) (l : list (N * N)) : conn :=
  mkC (c_role st) (c_push_local st) (c_push_remote st) (c_slab st) l (c_send_next st) (c_recv_next st)
      (c_send_max st) (c_recv_max st) (c_refused st) (c_conn_error st).
Definition with_send_next (st : conn) (n : option N) : conn :=
  mkC (c_role st) (c_push_local st) (c_push_remote st) (c_slab st) (c_ids st) n (c_recv_next st)
      (c_send_max st) (c_recv_max st) (c_refused st) (c_conn_error st).
Definition with_recv_next (st : conn) (n : option N) : conn :=
  mkC (c_role st) (c_push_local st) (c_push_remote st) (c_slab st) (c_ids st) (c_send_next st) n
      (c_send_max st) (c_recv_max st) (c_refused st) (c_conn_error st).
Definition with_send_max (st : conn) (n : N) : conn :=
  mkC (c_role st) (c_push_local st) (c_push_remote st) (c_slab st) (c_ids st) (c_send_next st) (c_recv_next st)
      n (c_recv_max st) (c_refused st) (c_conn_error st).
Definition with_recv_max (st : conn) (n : N) : conn :=
  mkC (c_role st) (c_push_local st) (c_push_remote st) (c_slab st) (c_ids st) (c_send_next st) (c_recv_next st)
      (c_send_max st) n (c_refused st) (c_conn_error st).
Definition with_refused (st : conn) (o : option N) : conn :=
  mkC (c_role st) (c_push_local st) (c_push_remote st) (c_slab st) (c_ids st) (c_send_next st) (c_recv_next st)
      (c_send_max st) (c_recv_max st) o (c_conn_error st).
Definition with_conn_error (st : conn) (o : option perror) : conn :=
  mkC (c_role st) (c_push_local st) (c_push_remote st) (c_slab st) (c_ids st) (c_send_next st) (c_recv_next st)
      (c_send_max st) (c_recv_max st) (c_refused st) o.
Definition with_push_remote (st : conn) (b : bool) : conn :=
  mkC (c_role st) (c_push_local st) b (c_slab st) (c_ids st) (c_send_next st) (c_recv_next st)
      (c_send_max st) (c_recv_max st) (c_refused st) (c_conn_error st).

(* by key: resolve *)
Definition kget (st : conn) (k : N) : option srec := sget k (c_slab st).
Definition put (st : conn) (k : N) (r : srec) : conn := with_slab st (sset k r (c_slab st)).
(* by stream id: store.find_mut / find_entry *)
Definition iget (st : conn) (sid : N) : option (N * srec) :=
  match sget sid (c_ids st) with
  | Some k => match kget st k with Some r => Some (k, r) | None => None end
  | None => None
  end.
(* store.insert: a new record under a fresh key, linked under its id *)
Definition insert (st : conn) (k : N) (r : srec) : conn :=
  with_ids (put st k r) (sset (s_id r) k (c_ids st)).
Definition is_linked (st : conn) (k : N) : bool := existsb (fun p => snd p =? k) (c_ids st).

(* Prioritize::clear_queue (repair cc6ac6c): a PUSH_PROMISE dropped from a queue will never reach the peer; the promised
   stream - found by its id - is failed on the spot: is_pending_push cleared, its own queue emptied,
   set_reset(CANCEL, Library) whatever its state was; nothing goes on the wire for it *)
Definition CANCEL_ : N := 8.
Definition failed_promise (c : srec) : srec :=
  mkS (s_id c) (Closed (CError (EReset (s_id c) CANCEL_ Library))) (s_popen c) false (s_rexp c) [] None.
Definition fail_promised_one (st : conn) (f : qframe) : conn :=
  match f with
  | QPush p => match iget st p with Some (ck, c) => put st ck (failed_promise c) | None => st end
  | _ => st
  end.
Definition fail_promised (st : conn) (q : list qframe) : conn := fold_left fail_promised_one q st.
Fixpoint has_cleared (o : list out) : bool :=
  match o with [] => false | OCleared _ :: _ => true | _ :: o' => has_cleared o' end.
(* the queue `q` (that of the record before the section) has been discarded if the outputs say so *)
Definition drop_promises (st : conn) (o : list out) (q : list qframe) : conn :=
  if has_cleared o then fail_promised st q else st.
(* what Send::send_reset discards of a record's queue *)
Definition reset_drops (r : srec) : list qframe := if s_popen r then tl (s_q r) else s_q r.

(* Config: role, local_push_enabled, local_next_stream_id (1 for a client, 2 for a server) *)
Definition init (r : role) (push_local : bool) : conn :=
  mkC r push_local true [] [] (Some (if is_server r then 2 else 1)) (Some (if is_server r then 1 else 2))
      MAX_ID MAX_ID None None.

(* ---------------------------------------------------------------------------------------------
   identifier bookkeeping *)

(* Send::may_have_created_stream / Recv::may_have_created_stream *)
Definition below_next (next : option N) (id : N) : bool :=
  match next with Some n => id <? n | None => true end.

(* Actions::may_have_forgotten_stream *)
Definition may_have_forgotten (st : conn) (id : N) : bool :=
  if id =? 0 then false
  else if is_local_init (c_role st) id then below_next (c_send_next st) id
  else below_next (c_recv_next st) id.

(* Actions::ensure_not_idle: true = Ok(()) *)
Definition not_idle (st : conn) (id : N) : bool :=
  if is_local_init (c_role st) id then below_next (c_send_next st) id
  else below_next (c_recv_next st) id.

(* Send::/Recv::maybe_reset_next_stream_id *)
Definition bump_next (next : option N) (id : N) : option N :=
  match next with
  | Some n => if n <=? id then next_id id else next
  | None => None
  end.

Inductive opened := OpErr (e : perror) | OpRefused (st : conn) | OpOpened (st : conn) | OpStuck.

(* Recv::open(id, mode, counts): `can` = counts.can_inc_num_recv_streams() *)
Definition recv_open_id (st : conn) (id : N) (push : bool) (can : bool) : opened :=
  match c_refused st with
  | Some _ => OpStuck                      (* assert!(self.refused.is_none()): the poll loop flushes the refusal first *)
  | None =>
    (* peer.ensure_can_open *)
    if (if is_server (c_role st) then push || negb (is_client_init id)
        else negb push || negb (is_server_init id))
    then OpErr conn_proto
    else match c_recv_next st with
         | None => OpErr conn_proto
         | Some next =>
           if id <? next then OpErr conn_proto
           else let st1 := with_recv_next st (next_id id) in
                if can then OpOpened st1 else OpRefused (with_refused st1 (Some id))
         end
  end.

(* ---------------------------------------------------------------------------------------------
   queue and reset primitives on one record *)

(* Prioritize::queue_frame (and the parked DATA frame of send_data) *)
Definition queue_frame (sid : N) (f : qframe) (r : srec) : srec * list out :=
  (set_q r (s_q r ++ [f]) (s_infl r), [OQueue sid f]).

(* Prioritize::clear_queue: the queue is emptied; a remainder held by the codec is marked Drop *)
Definition clear_queue (sid : N) (r : srec) : srec * list out :=
  (set_q r [] None, [OCleared sid]).

(* Recv::enqueue_reset_expiration: `can` = counts.can_inc_num_reset_streams() *)
Definition enqueue_reset_expiration (can : bool) (r : srec) : srec :=
  if negb (is_local_error (s_state r)) || s_rexp r then r
  else if can then set_rexp r true else r.

(* Send::send_reset *)
Definition send_reset_core (sid reason : N) (i : initiator) (r : srec) : srec * list out :=
  if is_reset (s_state r) then (r, [])                              (* don't double reset *)
  else
    let r1 := set_state r (Closed (CError (EReset sid reason i))) in       (* stream.set_reset *)
    if is_closed (s_state r) && (match s_q r with [] => true | _ => false end)
       && (match s_infl r with None => true | Some _ => false end)
    then (r1, [])                                                   (* closed and flushed: no RST_STREAM *)
    else
      (* a stream not opened yet keeps the HEADERS that open it - the first queued frame - and drops what is queued
         behind them (repair a052906); any other stream drops its whole queue *)
      let '(r2, o2) := if s_popen r1 then (set_q r1 (firstn 1 (s_q r1)) None, [OCleared sid])
                       else clear_queue sid r1 in
      let '(r3, o3) := queue_frame sid (QReset reason) r2 in
      (r3, o2 ++ o3).

(* Actions::send_reset: `quota` = counts.can_inc_num_local_error_resets() (asked for Library only) *)
Definition actions_send_reset (sid reason : N) (i : initiator) (quota can : bool) (r : srec)
  : option (srec * list out) :=
  if (match i with Library => negb quota | _ => false end) then None
  else let '(r1, o1) := send_reset_core sid reason i r in
       Some (enqueue_reset_expiration can r1, o1).

Definition too_many_internal_resets : perror := EGoAway TOO_MANY_INTERNAL_RESETS ENHANCE_YOUR_CALM Library.

(* Actions::reset_on_recv_stream_err *)
Definition reset_on_recv_stream_err (sid : N) (res : result) (quota can : bool) (r : srec)
  : srec * list out * result :=
  match res with
  | RErr (EReset _ reason i) =>
    if quota then
      let '(r1, o1) := send_reset_core sid reason i r in
      (enqueue_reset_expiration can r1, ORxRefused sid :: o1, ROk)
    else (r, [], RErr too_many_internal_resets)
  | _ => (r, [], res)
  end.

(* Send::schedule_implicit_reset *)
Definition schedule_implicit_reset (reason : N) (r : srec) : srec :=
  if is_closed (s_state r) then r else set_state r (Closed (ScheduledLibraryReset reason)).

(* maybe_cancel, called with ref_count == 0 *)
Definition maybe_cancel (ro : role) (can : bool) (r : srec) : srec :=
  if is_closed (s_state r) then r                                   (* not is_canceled_interest *)
  else
    let reason := if is_server ro && is_send_closed (s_state r) && is_recv_streaming (s_state r)
                  then NO_ERROR else CANCEL in
    enqueue_reset_expiration can (schedule_implicit_reset reason r).

(* ---------------------------------------------------------------------------------------------
   observed inputs *)

Inductive hverdict :=
| HOk
| HBad            (* malformed for recv.rs: content-length, :protocol, :status, conversion; oversize without a 431 *)
| HOversize.      (* frame.is_over_size() reached (the checks before it passed) *)

Record hobs := mkH {
  h_can_open : bool;      (* counts.can_inc_num_recv_streams() in Recv::open *)
  h_can_count : bool;     (* ... in Recv::recv_headers for an initial header section (true if already counted) *)
  h_verdict : hverdict;
  h_quota : bool;         (* counts.can_inc_num_local_error_resets() *)
  h_can_reset : bool;     (* counts.can_inc_num_reset_streams() *)
  h_no_method : bool      (* frame.pseudo().method.is_none(): a header block without a request line *)
}.

Inductive dverdict :=
| DOk
| DConnWindow     (* consume_connection_window: GOAWAY FLOW_CONTROL_ERROR *)
| DStreamWindow   (* stream window too small: RST_STREAM FLOW_CONTROL_ERROR *)
| DLenOver        (* dec_content_length failed *)
| DLenUnder.      (* END_STREAM with content-length not exhausted *)

Record dobs := mkD {
  d_verdict : dverdict;
  d_is_recv : bool;       (* stream.is_recv: a RecvStream handle still reads *)
  d_empty : bool;         (* payload empty *)
  d_budget : bool;        (* counts.record_data_frame ok *)
  d_quota : bool;
  d_can_reset : bool
}.

Record robs := mkR {
  r_queued : bool;        (* stream.is_pending_send *)
  r_quota : bool          (* not (is_pending_accept and the remote-reset quota is exhausted) *)
}.

Record wobs := mkW {
  w_overflow : bool;      (* the increment overflows the stream's send window *)
  w_quota : bool;
  w_can_reset : bool
}.

Record pobs := mkP {
  p_can_open : bool;
  p_valid : bool;         (* not over size, request converts, safe and cacheable, content-length fine *)
  p_quota : bool;
  p_can_reset : bool
}.

Record popobs := mkPop {
  pp_partial : bool;      (* the DATA frame is written in part: the remainder stays with the codec *)
  pp_blocked : bool;      (* no stream capacity / peer window for a non-empty DATA frame: put back *)
  pp_can_send : bool      (* counts.can_inc_num_send_streams() for the promised stream *)
}.

Inductive label :=
(* received frames (DynStreams::recv_*, one per frame the codec yields); nk = key of a record the section inserts *)
| LRecvHeaders (sid : N) (eos info : bool) (o : hobs) (nk : N)
| LRecvData (sid : N) (eos : bool) (o : dobs)
| LRecvReset (sid code : N) (o : robs)
| LRecvWindowUpdate (sid : N) (o : wobs)
| LRecvPushPromise (sid promised : N) (o : pobs) (nk : N)
| LRecvPriority (sid : N)
| LRecvGoAway (last code : N) (debug : list N)
| LRecvEof (relabel failed : list N)   (* keys still in pending_send with a scheduled reset when the queues are cleared;
                                          keys of the promised records failed with a dropped PUSH_PROMISE *)
(* the connection's reactions (separate lock sections) *)
| LPoll2Reset (sid code : N) (quota can : bool) (nk : N)   (* DynStreams::send_reset from handle_poll2_result *)
| LHandleError (e : perror) (failed : list N)          (* DynStreams::handle_error; keys of the promised records failed *)
| LGoAwaySent (last : N)                               (* DynStreams::send_go_away *)
| LSendRefusal                                         (* Recv::send_pending_refusal with room in the codec *)
| LRemoteSettingsPush (b : bool)                       (* SETTINGS_ENABLE_PUSH from the peer *)
(* API: a handle holds the KEY k of its record *)
| LSendRequest (eos : bool) (rejected hdr_ok : bool) (nk : N)
| LSendResponse (k : N) (eos : bool) (hdr_ok : bool)       (* send_response and send_pushed_response *)
| LSendInfo (k : N) (eos : bool) (hdr_ok : bool)
| LSendData (k : N) (eos : bool) (too_big : bool)
| LSendTrailers (k : N) (hdr_ok : bool)
| LPushRequest (k : N) (convert_ok hdr_ok : bool) (nk : N)
| LSendReset (k code : N) (can : bool)
| LDropLast (k : N) (can : bool) (kids : list (N * bool))  (* ref_count reaches 0; keys of the un-polled promises *)
| LPollRecv (k : N)                                     (* a read with an empty event queue: ensure_recv_open *)
| LPollReset (k : N) (mode : poll_reset)
(* internal: the queues hold keys *)
| LPop (k : N) (o : popobs)                             (* pop_frame yields this record *)
| LReclaim (k : N)                                      (* push_back_frame of the remainder *)
| LOpenPending (k : N)                                  (* pop_pending_open *)
| LExpire (k : N)                                       (* leaves pending_reset_expired *)
| LSendWindowUpdate (k : N) (has : bool)                (* send_stream_window_updates pops this record *)
| LUnlink (k : N)                                       (* transition_after: Ptr::unlink (removes store.ids[stream.id]) *)
| LRelease (k : N).                                     (* store.remove *)

Definition res1 (st : conn) (o : list out) (r : result) : outcome := Ok st (o ++ [ORes r]).

(* ---------------------------------------------------------------------------------------------
   received HEADERS: Inner::recv_headers + Recv::recv_headers / recv_trailers *)

(* Recv::recv_headers on a record in a state with is_recv_headers, followed by the Oversize arm of
   Inner::recv_headers: record, outputs, result before reset_on_recv_stream_err; None = the
   debug_assert!(sent.is_ok()) of the 431 response fails *)
Definition recv_headers_core (ro : role) (sid : N) (eos info : bool) (o : hobs) (r : srec)
  : option (srec * list out * result) :=
  if info && eos then Some (r, [], RErr (lib_reset sid PROTOCOL_ERROR))
  else
    match recv_open eos info (s_state r) with
    | (s1, RBool initial) =>
      let r1 := set_state r s1 in
      let rx := [ORx sid (RxHeaders eos info)] in
      if initial && negb (h_can_count o) then Some (r1, rx, RErr (lib_reset sid REFUSED_STREAM))
      else
        match h_verdict o with
        | HBad => Some (r1, rx, RErr (lib_reset sid PROTOCOL_ERROR))
        | HOversize =>
          if is_server ro && initial then
            (* 431 response with END_STREAM, then an implicit reset *)
            match send_open true (s_state r1) with
            | (s2, RUnit) =>
              let '(r2, o2) := queue_frame sid (QHeaders true false) (set_state r1 s2) in
              let r3 := enqueue_reset_expiration (h_can_reset o) (schedule_implicit_reset PROTOCOL_ERROR r2) in
              Some (r3, rx ++ o2, ROk)
            | _ => None
            end
          else Some (r1, rx, RErr (lib_reset sid PROTOCOL_ERROR))
        | HOk => Some (r1, rx ++ [OApp sid (if info then AInfo else AHeaders)], ROk)
        end
    | (_, RProtoErr e) => Some (r, [], RErr e)
    | _ => Some (r, [], RErr conn_proto)      (* recv_open returns Ok(bool) or Err(proto) only *)
    end.

(* Recv::recv_trailers (the frame carries END_STREAM) *)
Definition recv_trailers_core (sid : N) (o : hobs) (r : srec) : srec * list out * result :=
  match h_verdict o with
  | HOk =>
    match recv_close (s_state r) with
    | (s1, RUnit) => (set_state r s1, [ORx sid RxEnd; OApp sid ATrailers], ROk)
    | (_, RProtoErr e) => (r, [], RErr e)
    | _ => (r, [], RErr conn_proto)
    end
  | _ => (r, [], RErr (lib_reset sid PROTOCOL_ERROR))      (* declared content-length not exhausted *)
  end.

(* the part of Inner::recv_headers after the record (k, r) of `st` is found or made; `ins` = it has just been made *)
Definition recv_headers_on (st : conn) (sid : N) (eos info : bool) (o : hobs) (k : N) (r : srec) (ins : bool)
  : outcome :=
  let o0 := if ins then [OOpened sid] else [] in
  let wr := fun r' o' => drop_promises (put st k r') o' (reset_drops r) in
  if s_popen r then res1 st o0 (RErr conn_proto)
  else if is_local_error (s_state r) then res1 st o0 RIgnored
  else if is_recv_headers (s_state r) then
    match recv_headers_core (c_role st) sid eos info o r with
    | None => Panic 1
    | Some (r1, o1, res) =>
      let '(r2, o2, res2) := reset_on_recv_stream_err sid res (h_quota o) (h_can_reset o) r1 in
      res1 (wr r2 o2) (o0 ++ o1 ++ o2) res2
    end
  else if negb eos then
    (* trailers without END_STREAM: returned from inside the closure, the reset is left to the caller *)
    res1 st (o0 ++ [ORxRefused sid]) (RErr (lib_reset sid PROTOCOL_ERROR))
  else
    let '(r1, o1, res) := recv_trailers_core sid o r in
    let '(r2, o2, res2) := reset_on_recv_stream_err sid res (h_quota o) (h_can_reset o) r1 in
    res1 (wr r2 o2) (o0 ++ o1 ++ o2) res2.

Definition step_recv_headers (st : conn) (sid : N) (eos info : bool) (o : hobs) (nk : N) : outcome :=
  if sid =? 0 then Stuck 1                                 (* refused by frame::Headers::load *)
  else if c_recv_max st <? sid then res1 st [] RIgnored
  else
    match iget st sid with
    | Some (k, r) => recv_headers_on st sid eos info o k r false
    | None =>
      (* client: any HEADERS on an identifier already used; server (repair e4f0dfd): a header block without a request
         line - a trailer section - on an identifier the peer has already used *)
      if (negb (is_server (c_role st)) || h_no_method o) && may_have_forgotten st sid
      then res1 st [ORxRefused sid] (RErr (lib_reset sid STREAM_CLOSED))
      else match recv_open_id st sid false (h_can_open o) with
           | OpStuck => Stuck 2
           | OpErr e => res1 st [] (RErr e)
           | OpRefused st1 => res1 st1 [ORxRefused sid] RIgnored
           | OpOpened st1 =>
             match kget st1 nk with
             | Some _ => Stuck 40                         (* the key of a new record is fresh *)
             | None => recv_headers_on (insert st1 nk (new_rec sid)) sid eos info o nk (new_rec sid) true
             end
           end
    end.

(* ---------------------------------------------------------------------------------------------
   received DATA: Inner::recv_data + Recv::recv_data *)

Definition conn_flow : perror := library_go_away FLOW_CONTROL_ERROR.

(* Recv::ignore_data *)
Definition ignore_data (o : dobs) : result :=
  match d_verdict o with DConnWindow => RErr conn_flow | _ => RIgnored end.

Definition recv_data_core (sid : N) (eos : bool) (o : dobs) (r : srec) : srec * list out * result :=
  let s := s_state r in
  if negb (is_local_error s) && negb (is_recv_streaming s) then (r, [], RErr conn_proto)
  else if is_local_error s then (r, [], ignore_data o)
  else
    match d_verdict o with
    | DConnWindow => (r, [], RErr conn_flow)
    | DStreamWindow => (r, [], RErr (lib_reset sid FLOW_CONTROL_ERROR))
    | DLenOver => (r, [], RErr (lib_reset sid PROTOCOL_ERROR))
    | v =>
      if eos && (match v with DLenUnder => true | _ => false end)
      then (r, [], RErr (lib_reset sid PROTOCOL_ERROR))
      else
        let closed := if eos then recv_close s else (s, RUnit) in
        match closed with
        | (s1, RUnit) =>
          let r1 := set_state r s1 in
          let rx := if eos then [ORx sid RxEnd] else [] in
          if negb (d_is_recv o) then (r1, rx, ROk)
          else if d_empty o && negb eos then (r1, rx, ROk)
          else (r1, rx ++ [OApp sid AData], ROk)
        | _ => (r, [], RErr conn_proto)
        end
    end.

Definition too_many_data_frames : perror := EGoAway TOO_MANY_DATA_FRAMES ENHANCE_YOUR_CALM Library.

Definition step_recv_data (st : conn) (sid : N) (eos : bool) (o : dobs) : outcome :=
  if sid =? 0 then Stuck 3                                 (* refused by frame::Data::load *)
  else
    match iget st sid with
    | None =>
      if c_recv_max st <? sid then res1 st [] (ignore_data o)
      else if may_have_forgotten st sid then
        match d_verdict o with
        | DConnWindow => res1 st [] (RErr conn_flow)
        | _ => res1 st [ORxRefused sid] (RErr (lib_reset sid STREAM_CLOSED))
        end
      else res1 st [] (RErr conn_proto)
    | Some (k, r) =>
      let '(r1, o1, res) := recv_data_core sid eos o r in
      (* `if res.is_ok() && !is_end_stream`: an ignored frame counts against the budget as well *)
      let res1' := match res with
                   | ROk | RIgnored => if negb eos && negb (d_budget o) then RErr too_many_data_frames else res
                   | x => x
                   end in
      let '(r2, o2, res2) := reset_on_recv_stream_err sid res1' (d_quota o) (d_can_reset o) r1 in
      res1 (drop_promises (put st k r2) o2 (reset_drops r)) (o1 ++ o2) res2
    end.

(* ---------------------------------------------------------------------------------------------
   received RST_STREAM, WINDOW_UPDATE (stream), PUSH_PROMISE, PRIORITY, GOAWAY, end of input *)

Definition too_many_resets : perror := EGoAway TOO_MANY_RESETS ENHANCE_YOUR_CALM Library.

Definition step_recv_reset (st : conn) (sid code : N) (o : robs) : outcome :=
  if sid =? 0 then res1 st [] (RErr conn_proto)
  else if (c_recv_max st <? sid) && negb (is_local_init (c_role st) sid) then res1 st [] RIgnored   (* repair a398950 *)
  else
    match iget st sid with
    | None => if not_idle st sid then res1 st [] RIgnored else res1 st [] (RErr conn_proto)
    | Some (k, r) =>
      if s_popen r && negb (is_server (c_role st)) then res1 st [] (RErr conn_proto)
      else if negb (r_quota o) then res1 st [] (RErr too_many_resets)
      else
        let r1 := set_state r (fst (recv_reset sid code (r_queued o) (s_state r))) in
        let '(r2, o2) := clear_queue sid r1 in                   (* send.handle_error *)
        res1 (drop_promises (put st k r2) o2 (s_q r)) (ORx sid (RxReset code) :: o2) ROk
    end.

Definition step_recv_window_update (st : conn) (sid : N) (o : wobs) : outcome :=
  if sid =? 0 then Stuck 4                                 (* connection window: not part of this model *)
  else
    match iget st sid with
    | None => if not_idle st sid then res1 st [] RIgnored else res1 st [] (RErr conn_proto)
    | Some (k, r) =>
      if s_popen r && negb (is_server (c_role st)) then res1 st [] (RErr conn_proto)
      else if w_overflow o then
        (* Send::recv_stream_window_update resets the stream itself, then the error goes through
           reset_on_recv_stream_err *)
        let '(r1, o1) := send_reset_core sid FLOW_CONTROL_ERROR Library r in
        let '(r2, o2, res2) := reset_on_recv_stream_err sid (RErr (lib_reset sid FLOW_CONTROL_ERROR))
                                                        (w_quota o) (w_can_reset o) r1 in
        res1 (drop_promises (put st k r2) (o1 ++ o2) (reset_drops r)) (o1 ++ o2) res2
      else res1 st [] ROk
    end.

Definition step_recv_push_promise (st : conn) (sid promised : N) (o : pobs) (nk : N) : outcome :=
  if sid =? 0 then Stuck 5                                 (* refused by frame::PushPromise::load *)
  else
    match iget st sid with
    | None => res1 st [] (RErr conn_proto)
    | Some (_, r) =>
      (* repair 28d67d9: a push is associated with a request of ours that the peer has seen *)
      if negb (is_local_init (c_role st) sid) || s_popen r then res1 st [] (RErr conn_proto)
      else if c_recv_max st <? sid then res1 st [] RIgnored
      else if is_local_error (s_state r) then
        (* the parent was reset locally: the promised stream is refused (repair 631577b) *)
        (* repair 60d7633: the promised identifier goes through Recv::open like any other *)
        if negb (c_push_local st) then res1 st [] (RErr conn_proto)
        else match recv_open_id st promised true (p_can_open o) with
             | OpStuck => Stuck 6
             | OpErr e => res1 st [] (RErr e)
             | OpRefused st1 => res1 st1 [ORxRefused promised] RIgnored
             | OpOpened st1 => res1 st1 [ORxRefused promised] (RErr (lib_reset promised CANCEL))
             end
      else
        match ensure_recv_open (s_state r) with
        | RProtoErr e => res1 st [] (RErr e)
        | RBool true =>
          if negb (c_push_local st) then res1 st [] (RErr conn_proto)
          else
            match recv_open_id st promised true (p_can_open o) with
            | OpStuck => Stuck 6
            | OpErr e => res1 st [] (RErr e)
            | OpRefused st1 => res1 st1 [ORxRefused promised] RIgnored
            | OpOpened st1 =>
              match kget st1 nk with
              | Some _ => Stuck 41
              | None =>
                match reserve_remote (s_state (new_rec promised)) with
                | (s1, RUnit) =>
                  let c1 := set_state (new_rec promised) s1 in
                  let rx := [OOpened promised; ORx promised RxPromised] in
                  if p_valid o then res1 (insert st1 nk c1) (rx ++ [OApp promised APush]) ROk
                  else
                    let '(c2, o2, res2) :=
                      reset_on_recv_stream_err promised (RErr (lib_reset promised PROTOCOL_ERROR))
                                               (p_quota o) (p_can_reset o) c1 in
                    res1 (insert st1 nk c2) (rx ++ o2) res2
                | _ => Panic 2
                end
              end
            end
        | _ => res1 st [] (RErr conn_proto)
        end
    end.

(* recv.handle_error + send.handle_error on one record *)
Definition fail_rec (e : perror) (r : srec) : srec :=
  set_q (set_state r (fst (handle_error e (s_state r)))) [] None.

(* store.for_each visits the records linked in store.ids *)
Definition map_linked (st : conn) (f : N -> srec -> srec) : list (N * srec) :=
  map (fun kr => if is_linked st (fst kr) then (fst kr, f (fst kr) (snd kr)) else kr) (c_slab st).

Definition step_recv_go_away (st : conn) (last code : N) (debug : list N) : outcome :=
  if c_send_max st <? last then res1 st [] (RErr conn_proto)
  else
    let e := EGoAway debug code Remote in
    let ro := c_role st in
    let l := map_linked st (fun _ r => if (last <? s_id r) && is_local_init ro (s_id r) then fail_rec e r else r) in
    res1 (with_conn_error (with_slab (with_send_max st last) l) (Some e)) [] ROk.

(* the queues store.for_each clears, one after the other *)
Definition linked_queues (st : conn) : list qframe :=
  flat_map (fun kr => if is_linked st (fst kr) then s_q (snd kr) else []) (c_slab st).

(* store.for_each clears the queues one record after the other, and every record visited goes through transition_after,
   which may unlink it on the spot: a PUSH_PROMISE dropped from a parent's queue fails the promised stream only if that
   stream is still linked at that moment.  The order of the visits (an IndexMap with swap_remove) is not modelled: which
   promised records were failed is an observed input (`failed`, their keys); each must be promised by a queued
   PUSH_PROMISE of a linked record *)
Fixpoint promised_in (sid : N) (q : list qframe) : bool :=
  match q with
  | [] => false
  | QPush p :: q' => (p =? sid) || promised_in sid q'
  | _ :: q' => promised_in sid q'
  end.
Definition fail_keys (st : conn) (failed : list N) : conn :=
  fold_left (fun st' k => match kget st' k with Some c => put st' k (failed_promise c) | None => st' end) failed st.
Definition failed_ok (st : conn) (failed : list N) : bool :=
  forallb (fun k => match kget st k with Some c => promised_in (s_id c) (linked_queues st) | None => false end) failed.

Definition step_handle_error (st : conn) (e : perror) (failed : list N) : outcome :=
  if negb (failed_ok st failed) then Stuck 43
  else res1 (fail_keys (with_conn_error (with_slab st (map_linked st (fun _ r => fail_rec e r))) (Some e)) failed) [] ROk.

Definition conn_eof_error : perror := EIo IO_BROKEN_PIPE (Some CONN_EOF_MSG).

Fixpoint mem_N (x : N) (l : list N) : bool :=
  match l with [] => false | y :: l' => (x =? y) || mem_N x l' end.

(* Inner::recv_eof: every linked record gets recv_eof + clear_queue; clear_queues empties pending_reset_expired and
   pending_open (every record, linked or not), and turns the scheduled resets of the records still in pending_send
   into library resets *)
Definition eof_rec (relabel : list N) (k : N) (r : srec) : srec :=
  set_q (set_state r (fst (recv_eof (s_state r)))) [] None.

Definition unqueue_rec (relabel : list N) (kr : N * srec) : N * srec :=
  let '(k, r) := kr in
  let s2 := match get_scheduled_reset (s_state r) with
            | Some reason => if mem_N k relabel then Closed (CError (EReset (s_id r) reason Library)) else s_state r
            | None => s_state r
            end in
  (k, mkS (s_id r) s2 false (s_ppush r) false (s_q r) (s_infl r)).

Definition step_recv_eof (st : conn) (relabel failed : list N) : outcome :=
  let st1 := match c_conn_error st with
             | None => with_conn_error st (Some conn_eof_error)
             | Some _ => st
             end in
  if negb (failed_ok st failed) then Stuck 44
  else res1 (fail_keys (with_slab st1 (map (unqueue_rec relabel) (map_linked st1 (eof_rec relabel)))) failed) [] ROk.

(* ---------------------------------------------------------------------------------------------
   the connection's reactions *)

(* Inner::send_reset, called by handle_poll2_result for Err(Error::Reset(id, reason, Library)) *)
Definition step_poll2_reset (st : conn) (sid code : N) (quota can : bool) (nk : N) : outcome :=
  if sid =? 0 then Stuck 7
  else
    match iget st sid with
    | Some (k, r) =>
      match actions_send_reset sid code Library quota can r with
      | None => res1 st [] (RErr too_many_internal_resets)
      | Some (r1, o1) => res1 (drop_promises (put st k r1) o1 (reset_drops r)) o1 ROk
      end
    | None =>
      let st1 := if is_local_init (c_role st) sid
                 then with_send_next st (bump_next (c_send_next st) sid)
                 else with_recv_next st (bump_next (c_recv_next st) sid) in
      match kget st1 nk with
      | Some _ => Stuck 42
      | None =>
        match actions_send_reset sid code Library quota can (new_rec sid) with
        | None => res1 (insert st1 nk (new_rec sid)) [OOpened sid] (RErr too_many_internal_resets)
        | Some (r1, o1) => res1 (insert st1 nk r1) (OOpened sid :: o1) ROk
        end
      end
    end.

Definition step_go_away_sent (st : conn) (last : N) : outcome :=
  if c_recv_max st <? last then Panic 3                    (* assert!(self.max_stream_id >= last_processed_id) *)
  else Ok (with_recv_max st last) [].

Definition step_send_refusal (st : conn) : outcome :=
  match c_refused st with
  | Some id => Ok (with_refused st None) [OEmit (WFrame id (QReset REFUSED_STREAM))]
  | None => Ok st []
  end.

(* ---------------------------------------------------------------------------------------------
   API *)

(* Send::send_headers after check_headers *)
Definition send_headers_core (ro : role) (sid : N) (eos : bool) (r : srec) : option (srec * list out) :=
  match send_open eos (s_state r) with
  | (s1, RUnit) =>
    let r1 := set_state r s1 in
    let r2 := if is_local_init ro sid && negb (s_ppush r1) then set_popen r1 true else r1 in   (* queue_open *)
    Some (queue_frame sid (QHeaders eos false) r2)
  | _ => None
  end.

Definition step_send_request (st : conn) (eos rejected hdr_ok : bool) (nk : N) : outcome :=
  match c_conn_error st with
  | Some e => res1 st [] (RErr e)
  | None =>
    match c_send_next st with
    | None => res1 st [] (RUser UOverflowedStreamId)
    | Some id =>
      if rejected then res1 st [] (RUser URejected)
      else if is_server (c_role st) then res1 st [] (RUser UUnexpectedFrameType)
      else
        let st1 := with_send_next st (next_id id) in       (* Send::open *)
        if negb hdr_ok then res1 st1 [] (RUser UMalformedHeaders)   (* the identifier is spent *)
        else
          match kget st1 nk with
          | Some _ => Stuck 8
          | None =>
            match send_headers_core (c_role st) id eos (new_rec id) with
            | Some (r1, o1) => res1 (insert st1 nk r1) (OOpened id :: o1) ROk
            | None => Panic 4
            end
          end
    end
  end.

Definition step_send_response (st : conn) (k : N) (eos hdr_ok : bool) : outcome :=
  match kget st k with
  | None => Stuck 9                                        (* a handle keeps its record in the slab *)
  | Some r =>
    if negb hdr_ok then res1 st [] (RUser UMalformedHeaders)
    else match send_headers_core (c_role st) (s_id r) eos r with
         | Some (r1, o1) => res1 (put st k r1) o1 ROk
         | None => res1 st [] (RUser UUnexpectedFrameType)
         end
  end.

Definition step_send_info (st : conn) (k : N) (eos hdr_ok : bool) : outcome :=
  match kget st k with
  | None => Stuck 10
  | Some r =>
    if is_local_init (c_role st) (s_id r) then Stuck 11   (* only SendResponse has send_informational *)
    else if eos then res1 st [] (RUser UUnexpectedFrameType)
    else if negb hdr_ok then res1 st [] (RUser UMalformedHeaders)
    else if negb (is_send_awaiting_headers (s_state r)) then
      res1 st [] (RUser (if is_closed (s_state r) then UInactiveStreamId else UUnexpectedFrameType))
    else let '(r1, o1) := queue_frame (s_id r) (QHeaders false true) r in res1 (put st k r1) o1 ROk
  end.

Definition step_send_data (st : conn) (k : N) (eos too_big : bool) : outcome :=
  match kget st k with
  | None => Stuck 12
  | Some r =>
    if too_big then res1 st [] (RUser UPayloadTooBig)
    else if negb (is_send_streaming (s_state r)) then
      res1 st [] (RUser (if is_closed (s_state r) then UInactiveStreamId else UUnexpectedFrameType))
    else
      match (if eos then send_close (s_state r) else (s_state r, RUnit)) with
      | (s1, RUnit) =>
        let '(r1, o1) := queue_frame (s_id r) (QData eos) (set_state r s1) in res1 (put st k r1) o1 ROk
      | _ => Panic 5
      end
  end.

Definition step_send_trailers (st : conn) (k : N) (hdr_ok : bool) : outcome :=
  match kget st k with
  | None => Stuck 13
  | Some r =>
    if negb hdr_ok then res1 st [] (RUser UMalformedHeaders)
    else if negb (is_send_streaming (s_state r)) then res1 st [] (RUser UUnexpectedFrameType)
    else
      match send_close (s_state r) with
      | (s1, RUnit) =>
        let '(r1, o1) := queue_frame (s_id r) QTrailers (set_state r s1) in res1 (put st k r1) o1 ROk
      | _ => Panic 6
      end
  end.

(* StreamRef::send_push_promise *)
Definition step_push_request (st : conn) (k : N) (convert_ok hdr_ok : bool) (nk : N) : outcome :=
  match kget st k with
  | None => Stuck 14
  | Some parent =>
    if negb (is_server (c_role st)) || is_local_init (c_role st) (s_id parent) then Stuck 15   (* only SendResponse has push_request *)
    else
      (* Send::reserve_local *)
      match c_send_next st with
      | None => res1 st [] (RUser UOverflowedStreamId)
      | Some id =>
        if c_send_max st <? id then res1 st [] (RUser URejected)
        else
          let st1 := with_send_next st (next_id id) in
          match kget st1 nk with
          | Some _ => Stuck 16
          | None =>
            match reserve_local (s_state (new_rec id)) with
            | (s1, RUnit) =>
              let child := set_ppush (set_state (new_rec id) s1) true in
              (* convert_push_message or Send::send_push_promise fails: the child is unlinked and removed again
                 (repair c395943: also when the request does not convert) *)
              if negb convert_ok then res1 st1 [] (RUser UMalformedHeaders)
              else if negb (c_push_remote st) then res1 st1 [] (RUser UPeerDisabledServerPush)
              else if is_send_closed (s_state parent) then
                res1 st1 [] (RUser (if is_closed (s_state parent) then UInactiveStreamId else UUnexpectedFrameType))
              else if negb hdr_ok then res1 st1 [] (RUser UMalformedHeaders)
              else let '(p1, o1) := queue_frame (s_id parent) (QPush id) parent in
                   res1 (put (insert st1 nk child) k p1) (OOpened id :: o1) ROk
            | _ => Panic 7
            end
          end
      end
  end.

(* StreamRef::send_reset: Actions::send_reset with Initiator::User *)
Definition step_send_reset (st : conn) (k code : N) (can : bool) : outcome :=
  match kget st k with
  | None => Stuck 18
  | Some r =>
    match actions_send_reset (s_id r) code User true can r with
    | Some (r1, o1) => res1 (drop_promises (put st k r1) o1 (reset_drops r)) o1 ROk
    | None => Panic 8                                      (* unreachable!("Initiator::User should not error sending reset") *)
    end
  end.

Fixpoint cancel_kids (ro : role) (kids : list (N * bool)) (l : list (N * srec)) : list (N * srec) :=
  match kids with
  | [] => l
  | (k, can) :: kids' =>
    cancel_kids ro kids' (match sget k l with Some r => sset k (maybe_cancel ro can r) l | None => l end)
  end.

(* drop_stream_ref when the reference count reaches zero *)
Definition step_drop_last (st : conn) (k : N) (can : bool) (kids : list (N * bool)) : outcome :=
  match kget st k with
  | None => Stuck 19
  | Some r =>
    let l1 := sset k (maybe_cancel (c_role st) can r) (c_slab st) in
    Ok (with_slab st (cancel_kids (c_role st) kids l1)) []
  end.

Definition step_poll_recv (st : conn) (k : N) : outcome :=
  match kget st k with
  | None => Stuck 20
  | Some r => Ok st [OSurface (s_id r) (ensure_recv_open (s_state r))]
  end.

Definition step_poll_reset (st : conn) (k : N) (mode : poll_reset) : outcome :=
  match kget st k with
  | None => Stuck 21
  | Some r => Ok st [OSurface (s_id r) (ensure_reason mode (s_state r))]
  end.

(* ---------------------------------------------------------------------------------------------
   internal: what leaves the queues *)

(* Prioritize::pop_frame on the record the pending_send queue yields *)
Definition step_pop (st : conn) (k : N) (o : popobs) : outcome :=
  match kget st k with
  | None => Stuck 22
  | Some r =>
    let sid := s_id r in
    if s_popen r || s_ppush r then Stuck 23               (* not is_send_ready: never in pending_send *)
    else
      match s_q r with
      | QData eos :: q' =>
        let send :=
          match s_infl r with
          | Some _ => Stuck 24                             (* reclaim_frame precedes the next pop *)
          | None =>
            if pp_blocked o then Ok st []
            else if pp_partial o then Ok (put st k (set_q r q' (Some eos))) [OEmit (WFrame sid (QData false))]
            else Ok (put st k (set_q r q' None)) [OEmit (WFrame sid (QData eos))]
          end in
        match get_scheduled_reset (s_state r) with
        | Some reason =>
          if negb (reason =? NO_ERROR) then
            (* discard the buffered DATA, the None arm emits the RST_STREAM on a later visit *)
            let '(r1, o1) := clear_queue sid r in Ok (drop_promises (put st k r1) o1 (s_q r)) o1
          else send
        | None => send
        end
      | QPush promised :: q' =>
        let st1 := put st k (set_q r q' (s_infl r)) in
        match iget st1 promised with
        | None => Ok st1 []                                (* the promised stream is gone: the promise is dropped *)
        | Some (ck, c) =>
          let c1 := set_ppush c false in
          let c2 := match s_q c1 with
                    | [] => c1
                    | _ => if pp_can_send o then c1 else set_popen c1 true
                    end in
          Ok (put st1 ck c2) [OEmit (WFrame sid (QPush promised))]
        end
      | f :: q' => Ok (put st k (set_q r q' (s_infl r))) [OEmit (WFrame sid f)]
      | [] =>
        match get_scheduled_reset (s_state r) with
        | Some reason =>
          Ok (put st k (set_state r (Closed (CError (EReset sid reason Library)))))
             [OEmit (WFrame sid (QReset reason))]
        | None => Ok st []                                 (* dangling entry of pending_send *)
        end
      end
  end.

Definition step_reclaim (st : conn) (k : N) : outcome :=
  match kget st k with
  | None => Stuck 25
  | Some r =>
    match s_infl r with
    | Some eos => Ok (put st k (set_q r (QData eos :: s_q r) None)) []
    | None => Stuck 26
    end
  end.

Definition step_open_pending (st : conn) (k : N) : outcome :=
  match kget st k with
  | None => Stuck 27
  | Some r => if s_popen r then Ok (put st k (set_popen r false)) [] else Stuck 28
  end.

Definition step_expire (st : conn) (k : N) : outcome :=
  match kget st k with
  | None => Stuck 29
  | Some r => if s_rexp r then Ok (put st k (set_rexp r false)) [] else Stuck 30
  end.

Definition step_send_window_update (st : conn) (k : N) (has : bool) : outcome :=
  match kget st k with
  | None => Stuck 31
  | Some r =>
    if is_recv_streaming (s_state r) && has then Ok st [OEmit (WWindowUpdate (s_id r))] else Ok st []
  end.

(* Stream::is_closed: the state is closed and every frame has left the queue and the codec *)
Definition closed_full (r : srec) : bool :=
  is_closed (s_state r) && (match s_q r with [] => true | _ => false end)
  && (match s_infl r with None => true | _ => false end).

(* Counts::transition_after: `if stream.is_closed() { if !stream.is_pending_reset_expiration() { stream.unlink() } }`.
   Ptr::unlink removes store.ids[stream.id] - whatever record that entry names: when the record was unlinked
   before and Inner::send_reset has since made a second record of the same id, the second one loses its link *)
Definition step_unlink (st : conn) (k : N) : outcome :=
  match kget st k with
  | None => Stuck 32
  | Some r =>
    if closed_full r && negb (s_rexp r) then Ok (with_ids st (sdel (s_id r) (c_ids st))) [] else Stuck 33
  end.

(* Stream::is_released as far as this model carries it, then store.remove (the slab entry is freed) *)
Definition step_release (st : conn) (k : N) : outcome :=
  match kget st k with
  | None => Stuck 35
  | Some r =>
    if closed_full r && negb (s_rexp r) && negb (s_popen r) && negb (is_linked st k)
    then Ok (with_slab st (sdel k (c_slab st))) [] else Stuck 36
  end.

(* ---------------------------------------------------------------------------------------------
   the labelled step *)

Definition step (st : conn) (l : label) : outcome :=
  match l with
  | LRecvHeaders sid eos info o nk => step_recv_headers st sid eos info o nk
  | LRecvData sid eos o => step_recv_data st sid eos o
  | LRecvReset sid code o => step_recv_reset st sid code o
  | LRecvWindowUpdate sid o => step_recv_window_update st sid o
  | LRecvPushPromise sid promised o nk => step_recv_push_promise st sid promised o nk
  | LRecvPriority _ => res1 st [] ROk
  | LRecvGoAway last code debug => step_recv_go_away st last code debug
  | LRecvEof relabel failed => step_recv_eof st relabel failed
  | LPoll2Reset sid code quota can nk => step_poll2_reset st sid code quota can nk
  | LHandleError e failed => step_handle_error st e failed
  | LGoAwaySent last => step_go_away_sent st last
  | LSendRefusal => step_send_refusal st
  | LRemoteSettingsPush b => Ok (with_push_remote st b) []
  | LSendRequest eos rejected hdr_ok nk => step_send_request st eos rejected hdr_ok nk
  | LSendResponse k eos hdr_ok => step_send_response st k eos hdr_ok
  | LSendInfo k eos hdr_ok => step_send_info st k eos hdr_ok
  | LSendData k eos too_big => step_send_data st k eos too_big
  | LSendTrailers k hdr_ok => step_send_trailers st k hdr_ok
  | LPushRequest k convert_ok hdr_ok nk => step_push_request st k convert_ok hdr_ok nk
  | LSendReset k code can => step_send_reset st k code can
  | LDropLast k can kids => step_drop_last st k can kids
  | LPollRecv k => step_poll_recv st k
  | LPollReset k mode => step_poll_reset st k mode
  | LPop k o => step_pop st k o
  | LReclaim k => step_reclaim st k
  | LOpenPending k => step_open_pending st k
  | LExpire k => step_expire st k
  | LSendWindowUpdate k has => step_send_window_update st k has
  | LUnlink k => step_unlink st k
  | LRelease k => step_release st k
  end.

(* run: the state after the labels and the log of all outputs, or the first label that is not Ok *)
Inductive run_result :=
| RunOk (st : conn) (log : list out)
| RunStop (at_label : N) (o : outcome).

Fixpoint run_from (st : conn) (log : list out) (i : N) (ls : list label) : run_result :=
  match ls with
  | [] => RunOk st log
  | l :: ls' =>
    match step st l with
    | Ok st1 o => run_from st1 (log ++ o) (i + 1) ls'
    | x => RunStop i x
    end
  end.

Definition run (st : conn) (ls : list label) : run_result := run_from st [] 0 ls.

(* ---------------------------------------------------------------------------------------------
   Correspondence (lib/props/parts/dispatch.py): the hook events of one connection run are projected to
   labels; before every label the observed pre-state of the addressed record (State::verif_code, the
   flags, whether its queue is empty) and the identifier bookkeeping are compared with the model, after
   it the frames queued, the frames handed to the codec, the events handed to the application, the
   queues cleared and the result. *)

Definition initiator_code (i : initiator) : N := match i with User => 0 | Library => 1 | Remote => 2 end.
Definition peer_code (p : peer) : N := match p with AwaitingHeaders => 0 | Streaming => 1 end.
Definition opt_len (m : option (list N)) : N := match m with Some l => N.of_nat (length l) | None => 0 end.

Definition perror_code (tag : N) (e : perror) : N * N * N * N * N * N :=
  match e with
  | EReset sid r i => (tag, 0, r, initiator_code i, sid, 0)
  | EGoAway d r i => (tag, 1, r, initiator_code i, 0, N.of_nat (length d))
  | EIo k m => (tag, 2, k, (match m with Some _ => 1 | None => 0 end), 0, opt_len m)
  end.

(* State::verif_code *)
Definition state_code (s : state) : N * N * N * N * N * N :=
  match s with
  | Idle => (0, 0, 0, 0, 0, 0)
  | ReservedLocal => (1, 0, 0, 0, 0, 0)
  | ReservedRemote => (2, 0, 0, 0, 0, 0)
  | Open l r => (3, peer_code l, peer_code r, 0, 0, 0)
  | HalfClosedLocal p => (4, peer_code p, 0, 0, 0, 0)
  | HalfClosedRemote p => (5, peer_code p, 0, 0, 0, 0)
  | Closed EndStream => (6, 0, 0, 0, 0, 0)
  | Closed (CError e) => perror_code 7 e
  | Closed (ErrorAfterEndStream e) => perror_code 8 e
  | Closed (ScheduledLibraryReset r) => (9, 0, r, 0, 0, 0)
  end.

Definition code_eqb (a b : N * N * N * N * N * N) : bool :=
  let '(a1, a2, a3, a4, a5, a6) := a in
  let '(b1, b2, b3, b4, b5, b6) := b in
  (a1 =? b1) && (a2 =? b2) && (a3 =? b3) && (a4 =? b4) && (a5 =? b5) && (a6 =? b6).

(* observed record: found (0 none, 1 linked, 2 reached by key only), code, pending_open, pending_push,
   reset_at.is_some(), pending_send.is_empty(), buffered_send_data > 0 *)
Definition orec := (N * (N * N * N * N * N * N) * bool * bool * bool * bool * bool)%type.

Definition rec_matches (found : N) (r : srec) (o : orec) : bool :=
  let '(f, code, popen, ppush, rexp, qempty, buffered) := o in
  (f =? found) && code_eqb (state_code (s_state r)) code &&
  Bool.eqb (s_popen r) popen && Bool.eqb (s_ppush r) ppush && Bool.eqb (s_rexp r) rexp &&
  Bool.eqb (match s_q r with [] => true | _ => false end) qempty &&
  (if qempty then Bool.eqb (match s_infl r with Some _ => true | None => false end) buffered else true).

(* how the label addresses its record *)
Inductive addr := ById (sid : N) | ByKey (k : N) | NoAddr.

Definition addr_of (l : label) : addr :=
  match l with
  | LRecvHeaders sid _ _ _ _ | LRecvData sid _ _ | LRecvReset sid _ _ | LRecvWindowUpdate sid _
  | LRecvPushPromise sid _ _ _ | LPoll2Reset sid _ _ _ _ => ById sid
  | LSendResponse k _ _ | LSendInfo k _ _ | LSendData k _ _ | LSendTrailers k _
  | LPushRequest k _ _ _ | LSendReset k _ _ | LDropLast k _ _ | LPollReset k _ => ByKey k
  | _ => NoAddr
  end.

Definition pre_matches (st : conn) (l : label) (o : option orec) : bool :=
  match o with
  | None => true
  | Some ob =>
    match addr_of l with
    | ById sid =>
      match iget st sid with
      | Some (_, r) => rec_matches 1 r ob
      | None => let '(f, _, _, _, _, _, _) := ob in f =? 0
      end
    | ByKey k =>
      match kget st k with
      | Some r => rec_matches (match iget st (s_id r) with
                               | Some (k', _) => if k' =? k then 1 else 2
                               | None => 2
                               end) r ob
      | None => false
      end
    | NoAddr => true
    end
  end.

Definition optn_eqb (o : option N) (v : Z) : bool :=
  match o with None => (v =? -1)%Z | Some x => (Z.of_N x =? v)%Z end.

(* send_next, recv_next, send_max, recv_max, refused (-1 = overflowed / none) *)
Definition ids_match (st : conn) (o : option (Z * Z * Z * Z * Z)) : bool :=
  match o with
  | None => true
  | Some (a, b, c, d, e) =>
    optn_eqb (c_send_next st) a && optn_eqb (c_recv_next st) b &&
    (Z.of_N (c_send_max st) =? c)%Z && (Z.of_N (c_recv_max st) =? d)%Z && optn_eqb (c_refused st) e
  end.

(* prio.queue_frame / prio.pop_other numbering: kind 0 DATA, 1 HEADERS, 2 PUSH_PROMISE, 3 RST_STREAM, 8 WINDOW_UPDATE;
   (sid, kind, end_stream, informational, promised id or reset code) *)
Definition qframe_code (sid : N) (f : qframe) : N * N * bool * bool * N :=
  match f with
  | QData eos => (sid, 0, eos, false, 0)
  | QHeaders eos info => (sid, 1, eos, info, 0)
  | QTrailers => (sid, 1, true, false, 0)
  | QPush p => (sid, 2, false, false, p)
  | QReset c => (sid, 3, false, false, c)
  end.

(* prio.pop_other does not print whether a HEADERS frame is informational *)
Definition wframe_code (f : wframe) : N * N * bool * bool * N :=
  match f with
  | WFrame sid (QHeaders eos _) => (sid, 1, eos, false, 0)
  | WFrame sid q => qframe_code sid q
  | WWindowUpdate sid => (sid, 8, false, false, 0)
  end.

Definition fcode_eqb (a b : N * N * bool * bool * N) : bool :=
  let '(a1, a2, a3, a4, a5) := a in
  let '(b1, b2, b3, b4, b5) := b in
  (a1 =? b1) && (a2 =? b2) && Bool.eqb a3 b3 && Bool.eqb a4 b4 && (a5 =? b5).

Fixpoint list_eqb {A} (eq : A -> A -> bool) (a b : list A) : bool :=
  match a, b with
  | [], [] => true
  | x :: a', y :: b' => eq x y && list_eqb eq a' b'
  | _, _ => false
  end.

Definition appk_code (k : appk) : N :=
  match k with AHeaders => 1 | AInfo => 2 | ATrailers => 3 | AData => 4 | APush => 5 end.

Fixpoint outs_queued (o : list out) : list (N * N * bool * bool * N) :=
  match o with
  | [] => []
  | OQueue sid f :: o' => qframe_code sid f :: outs_queued o'
  | _ :: o' => outs_queued o'
  end.
Fixpoint outs_emitted (o : list out) : list (N * N * bool * bool * N) :=
  match o with
  | [] => []
  | OEmit f :: o' => wframe_code f :: outs_emitted o'
  | _ :: o' => outs_emitted o'
  end.
Fixpoint outs_app (o : list out) : list (N * N) :=
  match o with
  | [] => []
  | OApp sid k :: o' => (sid, appk_code k) :: outs_app o'
  | _ :: o' => outs_app o'
  end.
Fixpoint outs_cleared (o : list out) : list N :=
  match o with
  | [] => []
  | OCleared sid :: o' => sid :: outs_cleared o'
  | _ :: o' => outs_cleared o'
  end.
Fixpoint outs_result (o : list out) : option result :=
  match o with
  | [] => None
  | ORes r :: _ => Some r
  | _ :: o' => outs_result o'
  end.
Fixpoint outs_surface (o : list out) : option res :=
  match o with
  | [] => None
  | OSurface _ r :: _ => Some r
  | _ :: o' => outs_surface o'
  end.

Definition uerr_code (u : uerr) : N :=
  match u with
  | UUnexpectedFrameType => 1 | UInactiveStreamId => 2 | URejected => 3 | UOverflowedStreamId => 4
  | UPeerDisabledServerPush => 5 | UMalformedHeaders => 6 | UPayloadTooBig => 7
  end.

(* observed result: (class, reason, initiator, stream id, debug data)
   class 0 Ok, 1 Err(GoAway), 2 Err(Reset), 3 Err(Io), 4 Err(UserError code = reason), 5 Err(proto error, not looked into) *)
Definition ores := (N * N * N * N * list N)%type.

Definition result_matches (r : option result) (o : ores) : bool :=
  let '(cls, reason, ini, sid, debug) := o in
  match r with
  | None | Some ROk | Some RIgnored => cls =? 0
  | Some (RErr (EGoAway d rs i)) =>
    ((cls =? 1) && (reason =? rs) && (ini =? initiator_code i) && list_N_eqb d debug) || (cls =? 5)
  | Some (RErr (EReset s rs i)) =>
    ((cls =? 2) && (reason =? rs) && (ini =? initiator_code i) && (sid =? s)) || (cls =? 5)
  | Some (RErr (EIo _ _)) => (cls =? 3) || (cls =? 5)
  | Some (RUser u) => (cls =? 4) && (reason =? uerr_code u)
  end.

(* observed poll_reset answer: 0 Pending (Ok(None)), 1 Ready(Ok(reason)), 2 Err(user error), 3 Err(other) *)
Definition surface_matches (r : option res) (o : N * N) : bool :=
  let '(cls, reason) := o in
  match r with
  | Some (RReason None) => cls =? 0
  | Some (RReason (Some x)) => (cls =? 1) && (reason =? x)
  | Some (RUserErr _) => cls =? 2
  | Some (RProtoErr _) => cls =? 3
  | _ => false
  end.

Record expect := mkE {
  e_rec : option orec;
  e_ids : option (Z * Z * Z * Z * Z);
  e_queued : option (list (N * N * bool * bool * N));
  e_emitted : option (list (N * N * bool * bool * N));
  e_app : option (list (N * N));
  e_cleared : option (list N);
  e_res : option ores;
  e_surface : option (N * N);
  e_new : option N                    (* the identifier the section allocated (send_request, push_request) *)
}.

Fixpoint outs_opened_local (ro : role) (o : list out) : option N :=
  match o with
  | [] => None
  | OOpened sid :: o' => if is_local_init ro sid then Some sid else outs_opened_local ro o'
  | _ :: o' => outs_opened_local ro o'
  end.

Definition opt_check {A} (o : option A) (f : A -> bool) : bool :=
  match o with None => true | Some x => f x end.

Definition outs_match (ro : role) (o : list out) (e : expect) : bool :=
  opt_check (e_queued e) (list_eqb fcode_eqb (outs_queued o)) &&
  opt_check (e_emitted e) (list_eqb fcode_eqb (outs_emitted o)) &&
  opt_check (e_app e) (list_eqb (fun a b => (fst a =? fst b) && (snd a =? snd b)) (outs_app o)) &&
  opt_check (e_cleared e) (list_eqb N.eqb (outs_cleared o)) &&
  opt_check (e_res e) (result_matches (outs_result o)) &&
  opt_check (e_surface e) (surface_matches (outs_surface o)) &&
  opt_check (e_new e) (fun n => match outs_opened_local ro o with Some m => m =? n | None => false end).

(* Record shapes no history produces - hypotheses of several theorems, checked here at every label of every run (like the
   Stuck guards): no record stays Idle; a stream whose PUSH_PROMISE is still
   queued, or that waits for a concurrency slot, is one of ours and has received nothing; a stream
   reserved by the peer's PUSH_PROMISE is one of the peer's *)
Definition wf_shape (ro : role) (sid : N) (r : srec) : bool :=
  match s_state r with
  | Idle => false
  | ReservedRemote => negb (is_local_init ro sid)      (* a stream the peer has promised carries the peer's parity *)
  | _ => true
  end &&
  (if s_ppush r then
     negb (s_popen r) && is_server ro && is_local_init ro sid &&
     match s_state r with ReservedLocal | HalfClosedRemote Streaming | Closed _ => true | _ => false end
   else if s_popen r then
     is_local_init ro sid &&
     (if is_server ro
      then match s_state r with HalfClosedRemote Streaming | Closed _ => true | _ => false end
      else match s_state r with
           | Open Streaming AwaitingHeaders | HalfClosedLocal AwaitingHeaders | Closed _ => true
           | _ => false
           end)
   else true).

(* next_stream_id has this endpoint's parity *)
Definition ids_wf (st : conn) : bool :=
  match c_send_next st with Some id => is_local_init (c_role st) id | None => true end.

(* Idle records do exist for a moment: Inner::send_reset inserts a record for an unknown stream and, with the reset quota
   exhausted, returns the GOAWAY error before resetting it (the connection error is recorded by the next section).  They
   are exempt here - the theorems that assume wf_shape do not speak about them - and the shape is only demanded while the
   connection has no error *)
Definition shapes_ok (st : conn) : bool :=
  ids_wf st &&
  match c_conn_error st with
  | Some _ => true
  | None => forallb (fun kr => is_idle (s_state (snd kr)) || wf_shape (c_role st) (s_id (snd kr)) (snd kr)) (c_slab st)
  end.

(* 0 = agreement; otherwise 10 * (index of the label + 1) + reason:
   1 record pre-state differs, 2 identifier bookkeeping differs, 3 outputs differ, 4 model Stuck, 5 model Panic *)
Fixpoint check_run (st : conn) (i : N) (ls : list (label * expect)) : N :=
  match ls with
  | [] => 0
  | (l, e) :: ls' =>
    if negb (shapes_ok st) then 10 * (i + 1) + 6
    else if negb (pre_matches st l (e_rec e)) then 10 * (i + 1) + 1
    else if negb (ids_match st (e_ids e)) then 10 * (i + 1) + 2
    else match step st l with
         | Ok st1 o => if outs_match (c_role st) o e then check_run st1 (i + 1) ls' else 10 * (i + 1) + 3
         | Stuck _ => 10 * (i + 1) + 4
         | Panic _ => 10 * (i + 1) + 5
         end
  end.

(* final state: (sid, code, pending_open, reset_at.is_some()) of every linked record, in any order *)
Definition final_matches (st : conn) (fin : list (N * (N * N * N * N * N * N) * bool * bool)) : bool :=
  (N.of_nat (length fin) =? N.of_nat (length (c_ids st))) &&
  forallb (fun x => let '(sid, code, popen, rexp) := x in
                    match iget st sid with
                    | Some (_, r) => code_eqb (state_code (s_state r)) code && Bool.eqb (s_popen r) popen && Bool.eqb (s_rexp r) rexp
                    | None => false
                    end) fin.

Fixpoint run_labels (st : conn) (ls : list (label * expect)) : option conn :=
  match ls with
  | [] => Some st
  | (l, _) :: ls' => match step st l with Ok st1 _ => run_labels st1 ls' | _ => None end
  end.

Definition dispatch_case :=
  (role * bool * list (label * expect) * option (list (N * (N * N * N * N * N * N) * bool * bool)))%type.

Definition diag_dispatch (c : dispatch_case) : N :=
  let '(ro, push, ls, fin) := c in
  let r := check_run (init ro push) 0 ls in
  if negb (r =? 0) then r
  else match fin, run_labels (init ro push) ls with
       | Some f, Some st => if final_matches st f then 0 else 7
       | _, _ => 0
       end.

Definition check_dispatch (c : dispatch_case) : bool := diag_dispatch c =? 0.

(* for the report of a disagreement: the number of the Stuck / Panic guard the model stopped at (0 = none) *)
Fixpoint stop_code (st : conn) (ls : list (label * expect)) : N :=
  match ls with
  | [] => 0
  | (l, _) :: ls' =>
    match step st l with
    | Ok st1 _ => stop_code st1 ls'
    | Stuck n => n
    | Panic n => 1000 + n
    end
  end.
Definition diag_stop (c : dispatch_case) : N := let '(ro, push, ls, _) := c in stop_code (init ro push) ls.

(* A client built with Builder::initial_stream_id starts its identifiers elsewhere: the same checks from that
   initial state (the step function and every theorem about it are independent of the initial state). *)
Definition init_from (r : role) (push_local : bool) (first : option N) : conn :=
  match first with
  | None => init r push_local
  | Some f =>
    mkC r push_local true [] [] (Some f) (Some (if is_server r then 1 else 2)) MAX_ID MAX_ID None None
  end.

Definition dispatch_case_from := (option N * dispatch_case)%type.

Definition diag_dispatch_from (c : dispatch_case_from) : N :=
  let '(first, (ro, push, ls, fin)) := c in
  let r := check_run (init_from ro push first) 0 ls in
  if negb (r =? 0) then r
  else match fin, run_labels (init_from ro push first) ls with
       | Some f, Some st => if final_matches st f then 0 else 7
       | _, _ => 0
       end.

Definition check_dispatch_from (c : dispatch_case_from) : bool := diag_dispatch_from c =? 0.

Definition diag_stop_from (c : dispatch_case_from) : N :=
  let '(first, (ro, push, ls, _)) := c in stop_code (init_from ro push first) ls.

Lemma init_from_none r p : init_from r p None = init r p.
Proof. reflexivity. Qed.
