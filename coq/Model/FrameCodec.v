(* Executable model of h2's frame layer: src/frame/{head,data,headers,settings,go_away,ping,reset,
   window_update,priority,util,stream_id}.rs -- `load` and `encode` as written, branch by branch,
   including the order of the checks, the error values and the places where the Rust would panic
   (slice index out of range, assert!, debug_assert!, unimplemented!()).

   Header blocks are opaque octet strings here (HPACK is the business of other work packages):
   `Headers::load` / `PushPromise::load` return the fragment next to the frame, and
   `EncodingHeaderBlock::encode` splits an already encoded block.                              *)
From H2V Require Import Base.Tac Base.Bytes Gen.FrameConsts Ref.Rfc9113Frame.
Local Open Scope N_scope.

(* ---------------------------------------------------------------------------------------- *)
(* small helpers *)

Definition lenN (l : list N) : N := N.of_nat (length l).
Definition takeN (n : N) (l : list N) : list N := firstn (N.to_nat n) l.
Definition dropN (n : N) (l : list N) : list N := skipn (N.to_nat n) l.

(* [b] is a single bit (power of two):  f & b == b *)
Definition has_bit (f b : N) : bool := (f / b) mod 2 =? 1.
(* f & b *)
Definition keep_bit (f b : N) : N := if has_bit f b then b else 0.

(* big-endian field writers (BufMut::put_u16 / put_uint(_, 3) / put_u32): values are truncated
   to the field width exactly like `as u8` of the shifted value *)
Definition enc_u16 (v : N) : list N := [(v / 256) mod 256; v mod 256].
Definition enc_u24 (v : N) : list N := [(v / 65536) mod 256; (v / 256) mod 256; v mod 256].
Definition enc_u32 (v : N) : list N :=
  [(v / 16777216) mod 256; (v / 65536) mod 256; (v / 256) mod 256; v mod 256].

(* unpack_octets_4! / u32::from_be_bytes *)
Definition dec_u32 (a b c d : N) : N := ((a * 256 + b) * 256 + c) * 256 + d.
Definition dec_u16 (a b : N) : N := a * 256 + b.

(* outcome of a `load`/`encode` function: value, frame::Error, or a Rust panic *)

(* frame/mod.rs: enum Error *)
Inductive hpack_error := HpkNeedMore | HpkOther.
Inductive frame_error :=
| BadFrameSize
| TooMuchPadding
| InvalidSettingValue
| InvalidWindowUpdateValue
| InvalidPayloadLength
| InvalidPayloadAckSettings
| InvalidStreamId
| MalformedMessage
| HeaderListWayTooLarge
| InvalidDependencyId
| Hpack (e : hpack_error).

Inductive res (A : Type) :=
| Ok (a : A)
| Err (e : frame_error)
| Panic.
Arguments Ok {A} a. Arguments Err {A} e. Arguments Panic {A}.

Definition bind {A B} (r : res A) (k : A -> res B) : res B :=
  match r with Ok a => k a | Err e => Err e | Panic => Panic end.
Notation "x <- e ;; k" := (bind e (fun x => k)) (at level 61, e at next level, right associativity).
Notation "' p <- e ;; k" := (bind e (fun x => match x with p => k end))
  (at level 61, p pattern, e at next level, right associativity).

(* ---------------------------------------------------------------------------------------- *)
(* frame/head.rs *)

Inductive kind :=
| KData | KHeaders | KPriority | KReset | KSettings | KPushPromise | KPing | KGoAway
| KWindowUpdate | KContinuation | KUnknown.

(* Kind::new *)
Definition kind_new (b : N) : kind :=
  if b =? kind_data then KData
  else if b =? kind_headers then KHeaders
  else if b =? kind_priority then KPriority
  else if b =? kind_reset then KReset
  else if b =? kind_settings then KSettings
  else if b =? kind_push_promise then KPushPromise
  else if b =? kind_ping then KPing
  else if b =? kind_go_away then KGoAway
  else if b =? kind_window_update then KWindowUpdate
  else if b =? kind_continuation then KContinuation
  else KUnknown.

Record head := { h_kind : N; h_flag : N; h_sid : N }.

(* frame/stream_id.rs  StreamId::parse: (unpacked & !MASK, unpacked & MASK == MASK) *)
Definition parse_sid (a b c d : N) : N * bool :=
  let unpacked := dec_u32 a b c d in
  (unpacked mod STREAM_ID_MASK, has_bit unpacked STREAM_ID_MASK).

(* Head::parse(&bytes): header[3], header[4], StreamId::parse(&header[5..]) -- needs 9 octets,
   shorter input is a slice-index panic.  Returns the head, the declared length field is not
   looked at (the length-delimited layer already used it). *)
Definition parse_head (bs : list N) : option (head * list N) :=
  match bs with
  | _ :: _ :: _ :: k :: fl :: s0 :: s1 :: s2 :: s3 :: payload =>
      Some ({| h_kind := k; h_flag := fl; h_sid := fst (parse_sid s0 s1 s2 s3) |}, payload)
  | _ => None
  end.

(* Head::encode(payload_len, dst) *)
Definition head_encode (k fl sid payload_len : N) : list N :=
  enc_u24 payload_len ++ [k mod 256; fl mod 256] ++ enc_u32 sid.

(* ---------------------------------------------------------------------------------------- *)
(* frame values (frame/mod.rs enum Frame and the structs behind it) *)

Record dependency := { dep_id : N; dep_weight : N; dep_excl : bool }.

Record settings := {
  s_flags : N;                              (* SettingsFlags(bits & ALL) *)
  s_header_table_size : option N;
  s_enable_push : option N;
  s_max_concurrent_streams : option N;
  s_initial_window_size : option N;
  s_max_frame_size : option N;
  s_max_header_list_size : option N;
  s_enable_connect_protocol : option N }.

Definition settings_default : settings :=
  {| s_flags := 0; s_header_table_size := None; s_enable_push := None;
     s_max_concurrent_streams := None; s_initial_window_size := None; s_max_frame_size := None;
     s_max_header_list_size := None; s_enable_connect_protocol := None |}.
Definition settings_ack : settings :=
  {| s_flags := settings_ACK; s_header_table_size := None; s_enable_push := None;
     s_max_concurrent_streams := None; s_initial_window_size := None; s_max_frame_size := None;
     s_max_header_list_size := None; s_enable_connect_protocol := None |}.

Inductive frame :=
| FData (sid : N) (flags : N) (pad_len : option N) (data : list N)   (* DataFlags(bits & ALL) *)
| FHeaders (sid : N) (flags : N) (dep : option dependency) (block : list N)  (* HeadersFlag(bits), NOT masked *)
| FPriority (sid : N) (dep : dependency)
| FPushPromise (sid : N) (flags : N) (promised : N) (block : list N)  (* PushPromiseFlag(bits), NOT masked *)
| FSettings (s : settings)
| FPing (ack : bool) (payload : list N)
| FGoAway (last : N) (code : N) (debug : list N)
| FWindowUpdate (sid : N) (inc : N)
| FReset (sid : N) (code : N).

(* ---------------------------------------------------------------------------------------- *)
(* frame/util.rs strip_padding *)
Definition strip_padding (payload : list N) : res (N * list N) :=
  let payload_len := lenN payload in
  if payload_len =? 0 then Err TooMuchPadding else
  match payload with
  | [] => Panic                                              (* payload[0] *)
  | pad_len :: rest =>
      if payload_len <=? pad_len then Err TooMuchPadding
      else Ok (pad_len, takeN (payload_len - pad_len - 1) rest)   (* advance(1); truncate(..) *)
  end.

(* frame/data.rs Data::load *)
Definition data_load (h : head) (payload : list N) : res frame :=
  let flags := keep_bit (h_flag h) data_END_STREAM + keep_bit (h_flag h) data_PADDED in
  if h_sid h =? 0 then Err InvalidStreamId else
  if has_bit flags data_PADDED then
    '(pad, data) <- strip_padding payload ;;
    Ok (FData (h_sid h) flags (Some pad) data)
  else Ok (FData (h_sid h) flags None payload).

(* frame/priority.rs StreamDependency::load *)
Definition dependency_load (src : list N) : res dependency :=
  if negb (lenN src =? 5) then Err InvalidPayloadLength else
  match src with
  | a :: b :: c :: d :: w :: _ =>
      let (id, excl) := parse_sid a b c d in
      Ok {| dep_id := id; dep_weight := w; dep_excl := excl |}
  | _ => Panic
  end.

(* frame/priority.rs Priority::load *)
Definition priority_load (h : head) (payload : list N) : res frame :=
  dep <- dependency_load payload ;;
  if dep_id dep =? h_sid h then Err InvalidDependencyId
  else Ok (FPriority (h_sid h) dep).

(* frame/headers.rs Headers::load -- returns the frame with the fragment as its block *)
Definition headers_load (h : head) (src : list N) : res frame :=
  let flags := h_flag h in
  if h_sid h =? 0 then Err InvalidStreamId else
  '(pad, src1) <-
     (if has_bit flags headers_PADDED then
        match src with
        | [] => Err MalformedMessage
        | p :: rest => Ok (p, rest)
        end
      else Ok (0, src)) ;;
  '(dep, src2) <-
     (if has_bit flags headers_PRIORITY then
        if lenN src1 <? 5 then Err MalformedMessage else
        d <- dependency_load (takeN 5 src1) ;;
        if dep_id d =? h_sid h then Err InvalidDependencyId
        else Ok (Some d, dropN 5 src1)
      else Ok (None, src1)) ;;
  src3 <-
     (if 0 <? pad then
        if lenN src2 <? pad then Err TooMuchPadding
        else Ok (takeN (lenN src2 - pad) src2)
      else Ok src2) ;;
  Ok (FHeaders (h_sid h) flags dep src3).

(* frame/headers.rs PushPromise::load (the fragment after the promised id may be empty) *)
Definition push_promise_load (h : head) (src : list N) : res frame :=
  let flags := h_flag h in
  if h_sid h =? 0 then Err InvalidStreamId else
  '(pad, src1) <-
     (if has_bit flags headers_PADDED then
        match src with
        | [] => Err MalformedMessage
        | p :: rest => Ok (p, rest)
        end
      else Ok (0, src)) ;;
  if lenN src1 <? 4 then Err MalformedMessage else
  match src1 with
  | a :: b :: c :: d :: src2 =>
      let promised := fst (parse_sid a b c d) in
      src3 <-
        (if 0 <? pad then
           if lenN src2 <? pad then Err TooMuchPadding
           else Ok (takeN (lenN src2 - pad) src2)
         else Ok src2) ;;
      Ok (FPushPromise (h_sid h) flags promised src3)
  | _ => Panic
  end.

(* frame/settings.rs Settings::load: the loop over payload.chunks(6) *)
Fixpoint settings_loop (p : list N) (s : settings) : res settings :=
  match p with
  | [] => Ok s
  | i0 :: i1 :: v0 :: v1 :: v2 :: v3 :: rest =>
      let id := dec_u16 i0 i1 in
      let val := dec_u32 v0 v1 v2 v3 in
      if id =? setting_id_header_table_size then
        settings_loop rest
          {| s_flags := s_flags s; s_header_table_size := Some val; s_enable_push := s_enable_push s;
             s_max_concurrent_streams := s_max_concurrent_streams s; s_initial_window_size := s_initial_window_size s;
             s_max_frame_size := s_max_frame_size s; s_max_header_list_size := s_max_header_list_size s;
             s_enable_connect_protocol := s_enable_connect_protocol s |}
      else if id =? setting_id_enable_push then
        if val <=? 1 then
          settings_loop rest
            {| s_flags := s_flags s; s_header_table_size := s_header_table_size s; s_enable_push := Some val;
               s_max_concurrent_streams := s_max_concurrent_streams s; s_initial_window_size := s_initial_window_size s;
               s_max_frame_size := s_max_frame_size s; s_max_header_list_size := s_max_header_list_size s;
               s_enable_connect_protocol := s_enable_connect_protocol s |}
        else Err InvalidSettingValue
      else if id =? setting_id_max_concurrent_streams then
        settings_loop rest
          {| s_flags := s_flags s; s_header_table_size := s_header_table_size s; s_enable_push := s_enable_push s;
             s_max_concurrent_streams := Some val; s_initial_window_size := s_initial_window_size s;
             s_max_frame_size := s_max_frame_size s; s_max_header_list_size := s_max_header_list_size s;
             s_enable_connect_protocol := s_enable_connect_protocol s |}
      else if id =? setting_id_initial_window_size then
        if MAX_INITIAL_WINDOW_SIZE <? val then Err InvalidSettingValue
        else
          settings_loop rest
            {| s_flags := s_flags s; s_header_table_size := s_header_table_size s; s_enable_push := s_enable_push s;
               s_max_concurrent_streams := s_max_concurrent_streams s; s_initial_window_size := Some val;
               s_max_frame_size := s_max_frame_size s; s_max_header_list_size := s_max_header_list_size s;
               s_enable_connect_protocol := s_enable_connect_protocol s |}
      else if id =? setting_id_max_frame_size then
        if (DEFAULT_MAX_FRAME_SIZE <=? val) && (val <=? MAX_MAX_FRAME_SIZE) then
          settings_loop rest
            {| s_flags := s_flags s; s_header_table_size := s_header_table_size s; s_enable_push := s_enable_push s;
               s_max_concurrent_streams := s_max_concurrent_streams s; s_initial_window_size := s_initial_window_size s;
               s_max_frame_size := Some val; s_max_header_list_size := s_max_header_list_size s;
               s_enable_connect_protocol := s_enable_connect_protocol s |}
        else Err InvalidSettingValue
      else if id =? setting_id_max_header_list_size then
        settings_loop rest
          {| s_flags := s_flags s; s_header_table_size := s_header_table_size s; s_enable_push := s_enable_push s;
             s_max_concurrent_streams := s_max_concurrent_streams s; s_initial_window_size := s_initial_window_size s;
             s_max_frame_size := s_max_frame_size s; s_max_header_list_size := Some val;
             s_enable_connect_protocol := s_enable_connect_protocol s |}
      else if id =? setting_id_enable_connect_protocol then
        if val <=? 1 then
          settings_loop rest
            {| s_flags := s_flags s; s_header_table_size := s_header_table_size s; s_enable_push := s_enable_push s;
               s_max_concurrent_streams := s_max_concurrent_streams s; s_initial_window_size := s_initial_window_size s;
               s_max_frame_size := s_max_frame_size s; s_max_header_list_size := s_max_header_list_size s;
               s_enable_connect_protocol := Some val |}
        else Err InvalidSettingValue
      else settings_loop rest s                     (* Setting::from_id -> None: ignored *)
  | _ => Panic                                      (* Setting::load indexes raw[0..6] *)
  end.

Definition settings_load (h : head) (payload : list N) : res frame :=
  if negb (h_sid h =? 0) then Err InvalidStreamId else
  let flag := keep_bit (h_flag h) settings_ACK in
  if has_bit flag settings_ACK then
    if negb (lenN payload =? 0) then Err InvalidPayloadLength
    else Ok (FSettings settings_ack)
  else
    if negb (lenN payload mod 6 =? 0) then Err InvalidPayloadAckSettings else
    s <- settings_loop payload settings_default ;;
    Ok (FSettings s).

(* frame/ping.rs Ping::load *)
Definition ping_load (h : head) (bytes : list N) : res frame :=
  if negb (h_sid h =? 0) then Err InvalidStreamId else
  if negb (lenN bytes =? 8) then Err BadFrameSize else
  Ok (FPing (negb (keep_bit (h_flag h) ping_ACK =? 0)) bytes).

(* frame/go_away.rs GoAway::load (the head is not even passed in) *)
Definition go_away_load (payload : list N) : res frame :=
  if lenN payload <? 8 then Err BadFrameSize else
  match payload with
  | a :: b :: c :: d :: e :: f :: g :: i :: debug =>
      Ok (FGoAway (fst (parse_sid a b c d)) (dec_u32 e f g i) debug)
  | _ => Panic
  end.

(* frame/window_update.rs WindowUpdate::load *)
Definition window_update_load (h : head) (payload : list N) : res frame :=
  if negb (lenN payload =? 4) then Err BadFrameSize else
  match payload with
  | a :: b :: c :: d :: _ =>
      let size_increment := dec_u32 a b c d mod SIZE_INCREMENT_MASK in
      if size_increment =? 0 then Err InvalidWindowUpdateValue
      else Ok (FWindowUpdate (h_sid h) size_increment)
  | _ => Panic
  end.

(* frame/reset.rs Reset::load *)
Definition reset_load (h : head) (payload : list N) : res frame :=
  if negb (lenN payload =? 4) then Err InvalidPayloadLength else
  match payload with
  | a :: b :: c :: d :: _ => Ok (FReset (h_sid h) (dec_u32 a b c d))
  | _ => Panic
  end.

(* ---------------------------------------------------------------------------------------- *)
(* one frame as `decode_frame` (codec/framed_read.rs) dispatches it, without the CONTINUATION
   book-keeping and without HPACK *)

Inductive loaded :=
| LdFrame (f : frame)
| LdContinuation (sid : N) (end_headers : bool) (frag : list N)
| LdIgnored.                                         (* Kind::Unknown => Ok(None) *)

Inductive parse_result :=
| POk (l : loaded)
| PErr (k : kind) (sid : N) (e : frame_error)        (* a `load` failed *)
| PErrPriorityZero                                   (* framed_read.rs: PRIORITY on stream 0 *)
| PErrGoAwayStream                                   (* framed_read.rs: GOAWAY on a non-zero stream *)
| PErrFrameSize                                      (* LengthDelimitedCodecError *)
| PNotOneFrame                                       (* not what the length-delimited layer yields *)
| PPanic.

Definition lift (k : kind) (sid : N) (r : res frame) : parse_result :=
  match r with
  | Ok f => POk (LdFrame f)
  | Err e => PErr k sid e
  | Panic => PPanic
  end.

Definition load_frame (bs : list N) : parse_result :=
  match parse_head bs with
  | None => PPanic                                    (* Head::parse on fewer than 9 octets *)
  | Some (h, payload) =>
      let k := kind_new (h_kind h) in
      match k with
      | KSettings => lift k (h_sid h) (settings_load h payload)
      | KPing => lift k (h_sid h) (ping_load h payload)
      | KWindowUpdate => lift k (h_sid h) (window_update_load h payload)
      | KData => lift k (h_sid h) (data_load h payload)
      | KHeaders => lift k (h_sid h) (headers_load h payload)
      | KReset => lift k (h_sid h) (reset_load h payload)
      | KGoAway =>
          if negb (h_sid h =? 0) then PErrGoAwayStream
          else lift k (h_sid h) (go_away_load payload)
      | KPushPromise => lift k (h_sid h) (push_promise_load h payload)
      | KPriority =>
          if h_sid h =? 0 then PErrPriorityZero
          else lift k (h_sid h) (priority_load h payload)
      | KContinuation =>
          POk (LdContinuation (h_sid h) (has_bit (h_flag h) continuation_END_HEADERS) payload)
      | KUnknown => POk LdIgnored
      end
  end.

(* what tokio_util's LengthDelimitedCodec (big endian, 3 octet length field at offset 0,
   length_adjustment 9, num_skip 0) hands over for a complete frame, then `load_frame` *)
Definition model_parse (max_frame_size : N) (bs : list N) : parse_result :=
  match bs with
  | l0 :: l1 :: l2 :: _ =>
      let n := (l0 * 256 + l1) * 256 + l2 in
      if max_frame_size <? n then PErrFrameSize
      else if lenN bs =? n + ld_length_adjustment then load_frame bs
      else PNotOneFrame
  | _ => PNotOneFrame
  end.

(* ---------------------------------------------------------------------------------------- *)
(* encoders *)

(* Data::encode_chunk: the head carries self.flags as they are (a PADDED bit set through
   `set_padded` is emitted although no Pad Length octet is written) *)
Definition data_encode (sid flags : N) (data : list N) : list N :=
  head_encode kind_data flags sid (lenN data) ++ data.

(* Settings::for_each order *)
Definition settings_pairs (s : settings) : list (N * N) :=
  (match s_header_table_size s with Some v => [(setting_id_header_table_size, v)] | None => [] end) ++
  (match s_enable_push s with Some v => [(setting_id_enable_push, v)] | None => [] end) ++
  (match s_max_concurrent_streams s with Some v => [(setting_id_max_concurrent_streams, v)] | None => [] end) ++
  (match s_initial_window_size s with Some v => [(setting_id_initial_window_size, v)] | None => [] end) ++
  (match s_max_frame_size s with Some v => [(setting_id_max_frame_size, v)] | None => [] end) ++
  (match s_max_header_list_size s with Some v => [(setting_id_max_header_list_size, v)] | None => [] end) ++
  (match s_enable_connect_protocol s with Some v => [(setting_id_enable_connect_protocol, v)] | None => [] end).

Fixpoint pairs_encode (ps : list (N * N)) : list N :=
  match ps with
  | [] => []
  | (id, v) :: ps' => enc_u16 id ++ enc_u32 v ++ pairs_encode ps'
  end.

Definition settings_encode (s : settings) : list N :=
  let ps := settings_pairs s in
  head_encode kind_settings (s_flags s) 0 (6 * N.of_nat (length ps)) ++ pairs_encode ps.

Definition go_away_encode (last code : N) (debug : list N) : list N :=
  head_encode kind_go_away 0 0 (8 + lenN debug) ++ enc_u32 last ++ enc_u32 code ++ debug.

Definition ping_encode (ack : bool) (payload : list N) : list N :=
  head_encode kind_ping (if ack then ping_ACK else 0) 0 (lenN payload) ++ payload.

Definition window_update_encode (sid inc : N) : list N :=
  head_encode kind_window_update 0 sid 4 ++ enc_u32 inc.

Definition reset_encode (sid code : N) : list N :=
  head_encode kind_reset 0 sid 4 ++ enc_u32 code.

(* frame/headers.rs EncodingHeaderBlock::encode(head, dst, _, f) on a `Limit` with [limit]
   octets of room: writes head, [prefix] (the promised id of PUSH_PROMISE), as much of the block
   as fits; returns the octets appended and the rest of the block when a CONTINUATION is needed.
   Panics: BufMut::put_* on a Limit without room, the 24-bit `assert!`, and (debug builds) the
   `debug_assert!` that END_HEADERS is set when it has to be cleared. *)
Definition header_block_encode (k flags sid : N) (prefix block : list N) (limit : N)
  : res (list N * option (list N)) :=
  if limit <? HEADER_LEN then Panic else
  let room0 := limit - HEADER_LEN in
  if room0 <? lenN prefix then Panic else
  let room := room0 - lenN prefix in
  let '(part, cont) :=
    if room <? lenN block then (takeN room block, Some (dropN room block))
    else (block, None) in
  let payload_len := lenN prefix + lenN part in
  if 16777216 <=? payload_len then Panic else
  match cont with
  | Some _ =>
      if has_bit flags headers_END_HEADERS
      then Ok (head_encode k (flags - headers_END_HEADERS) sid payload_len ++ prefix ++ part, cont)
      else Panic
  | None => Ok (head_encode k flags sid payload_len ++ prefix ++ part, None)
  end.

(* Headers::encode / PushPromise::encode / Continuation::encode; [max] is the encoder's
   max_frame_size, the Limit is max + HEADER_LEN (limited_write_buf!) *)
Definition headers_encode (max sid flags : N) (block : list N) : res (list N * option (list N)) :=
  if has_bit flags headers_END_HEADERS        (* debug_assert!(self.flags.is_end_headers()) *)
  then header_block_encode kind_headers flags sid [] block (max + HEADER_LEN)
  else Panic.
Definition push_promise_encode (max sid flags promised : N) (block : list N)
  : res (list N * option (list N)) :=
  if has_bit flags headers_END_HEADERS
  then header_block_encode kind_push_promise flags sid (enc_u32 promised) block (max + HEADER_LEN)
  else Panic.
Definition continuation_encode (max sid : N) (block : list N) : res (list N * option (list N)) :=
  header_block_encode kind_continuation headers_END_HEADERS sid [] block (max + HEADER_LEN).

(* all CONTINUATION frames for the rest of a block, as FramedWrite::flush/unset_frame emits them
   one after the other.  [fuel] bounds the number of frames (each carries >= 1 octet when
   max >= 1); running out of fuel is reported, never silently truncated. *)
Inductive enc_result :=
| EOk (bytes : list N)
| EPanic
| EUnsupported                (* Frame::Priority => unimplemented!() *)
| EOutOfFuel.

Fixpoint continuations_encode (fuel : nat) (max sid : N) (rest : list N) : enc_result :=
  match fuel with
  | O => EOutOfFuel
  | S fuel' =>
      match continuation_encode max sid rest with
      | Ok (bytes, None) => EOk bytes
      | Ok (bytes, Some rest') =>
          match continuations_encode fuel' max sid rest' with
          | EOk more => EOk (bytes ++ more)
          | r => r
          end
      | Err _ => EPanic
      | Panic => EPanic
      end
  end.

Definition with_continuations (max sid : N) (r : res (list N * option (list N))) : enc_result :=
  match r with
  | Ok (bytes, None) => EOk bytes
  | Ok (bytes, Some rest) =>
      match continuations_encode (S (length rest)) max sid rest with
      | EOk more => EOk (bytes ++ more)
      | e => e
      end
  | Err _ => EPanic
  | Panic => EPanic
  end.

(* every octet the encoder puts on the wire for one frame value (DATA size limit is checked by
   Encoder::buffer, see Model/WriteBuf.v) *)
Definition encode (max : N) (f : frame) : enc_result :=
  match f with
  | FData sid flags _ data => EOk (data_encode sid flags data)
  | FHeaders sid flags _ block => with_continuations max sid (headers_encode max sid flags block)
  | FPushPromise sid flags promised block =>
      with_continuations max sid (push_promise_encode max sid flags promised block)
  | FSettings s => EOk (settings_encode s)
  | FGoAway last code debug => EOk (go_away_encode last code debug)
  | FPing ack payload => EOk (ping_encode ack payload)
  | FWindowUpdate sid inc => EOk (window_update_encode sid inc)
  | FReset sid code => EOk (reset_encode sid code)
  | FPriority _ _ => EUnsupported
  end.

(* ---------------------------------------------------------------------------------------- *)
(* what the encoder assumes about the values it is handed (constructors of frame/*.rs and the
   callers in proto/): field ranges of the Rust types, flags the constructors can produce, and the
   two size conditions nobody checks on the send path *)

Definition u32_ok (v : N) : bool := v <? 4294967296.
Definition sid_ok (v : N) : bool := v <? 2147483648.             (* StreamId::from asserts the MSB is clear *)
Definition opt_ok (o : option N) : bool := match o with Some v => u32_ok v | None => true end.

Definition settings_wf (s : settings) : bool :=
  ((s_flags s =? 0) || ((s_flags s =? settings_ACK) && (lenN (pairs_encode (settings_pairs s)) =? 0)))
  && opt_ok (s_header_table_size s)
  && (match s_enable_push s with Some v => v <=? 1 | None => true end)           (* set_enable_push(bool) *)
  && opt_ok (s_max_concurrent_streams s)
  && (match s_initial_window_size s with Some v => v <=? MAX_INITIAL_WINDOW_SIZE | None => true end)
  && (match s_max_frame_size s with                                              (* set_max_frame_size asserts *)
      | Some v => (DEFAULT_MAX_FRAME_SIZE <=? v) && (v <=? MAX_MAX_FRAME_SIZE) | None => true end)
  && opt_ok (s_max_header_list_size s)
  && (match s_enable_connect_protocol s with Some v => v <=? 1 | None => true end).

Definition frame_wf (max : N) (f : frame) : bool :=
  match f with
  | FData sid flags pad data =>
      (* Data::new asserts !stream_id.is_zero(); only END_STREAM can be set without `unstable` *)
      sid_ok sid && negb (sid =? 0) && ((flags =? 0) || (flags =? data_END_STREAM))
      && (match pad with None => true | Some _ => false end)
      && (lenN data <=? max)                                      (* else Encoder::buffer -> PayloadTooBig *)
      && bytes_ok data
  | FHeaders sid flags dep block =>
      sid_ok sid && negb (sid =? 0)
      && ((flags =? headers_END_HEADERS) || (flags =? headers_END_HEADERS + headers_END_STREAM))
      && (match dep with None => true | Some _ => false end)
      && bytes_ok block
  | FPushPromise sid flags promised block =>
      sid_ok sid && negb (sid =? 0) && (flags =? headers_END_HEADERS) && sid_ok promised
      && bytes_ok block
  | FSettings s => settings_wf s
  | FPing _ payload => (lenN payload =? 8) && bytes_ok payload
  | FGoAway last code debug =>
      sid_ok last && u32_ok code && (8 + lenN debug <=? max) && bytes_ok debug    (* nobody checks the size *)
  | FWindowUpdate sid inc =>
      sid_ok sid && (0 <? inc) && (inc <? 2147483648)             (* peers reject 0; bit 31 is reserved *)
  | FReset sid code => sid_ok sid && negb (sid =? 0) && u32_ok code     (* callers reset real streams only *)
  | FPriority _ _ => false                                         (* cannot be sent *)
  end.

(* ---------------------------------------------------------------------------------------- *)
(* relation between the model's values and the RFC wire values (Ref/Rfc9113Frame.v) *)

Definition prio_of_dep (d : dependency) : priority_fields :=
  {| pf_exclusive := dep_excl d; pf_dependency := dep_id d; pf_weight := dep_weight d |}.

(* the wire value of a frame that fits into one wire frame (headers without CONTINUATION) *)
Definition wire_value_of (f : frame) : wire_frame :=
  match f with
  | FData sid flags pad data => WData sid (has_bit flags data_END_STREAM) pad data
  | FHeaders sid flags dep block =>
      WHeaders sid (has_bit flags headers_END_STREAM) (has_bit flags headers_END_HEADERS)
               (option_map prio_of_dep dep) block
  | FPriority sid dep => WPriority sid (prio_of_dep dep)
  | FPushPromise sid flags promised block =>
      WPushPromise sid (has_bit flags headers_END_HEADERS) promised block
  | FSettings s => WSettings (has_bit (s_flags s) settings_ACK) (settings_pairs s)
  | FPing ack payload => WPing ack payload
  | FGoAway last code debug => WGoAway last code debug
  | FWindowUpdate sid inc => WWindowUpdate sid inc
  | FReset sid code => WRstStream sid code
  end.

Definition opt_N_eqb (a b : option N) : bool :=
  match a, b with
  | None, None => true
  | Some x, Some y => x =? y
  | _, _ => false
  end.

Definition prio_eqb (p : priority_fields) (d : dependency) : bool :=
  Bool.eqb (pf_exclusive p) (dep_excl d) && (pf_dependency p =? dep_id d) && (pf_weight p =? dep_weight d).

Definition opt_prio_eqb (p : option priority_fields) (d : option dependency) : bool :=
  match p, d with
  | None, None => true
  | Some x, Some y => prio_eqb x y
  | _, _ => false
  end.

(* a received SETTINGS: each field is the last value of its identifier in wire order (6.5.3) *)
Definition settings_match (ack : bool) (ps : list (N * N)) (s : settings) : bool :=
  Bool.eqb ack (has_bit (s_flags s) settings_ACK) && (s_flags s =? bit_if ack settings_ACK)
  && opt_N_eqb (setting_value ps S_HEADER_TABLE_SIZE None) (s_header_table_size s)
  && opt_N_eqb (setting_value ps S_ENABLE_PUSH None) (s_enable_push s)
  && opt_N_eqb (setting_value ps S_MAX_CONCURRENT_STREAMS None) (s_max_concurrent_streams s)
  && opt_N_eqb (setting_value ps S_INITIAL_WINDOW_SIZE None) (s_initial_window_size s)
  && opt_N_eqb (setting_value ps S_MAX_FRAME_SIZE None) (s_max_frame_size s)
  && opt_N_eqb (setting_value ps S_MAX_HEADER_LIST_SIZE None) (s_max_header_list_size s)
  && opt_N_eqb (setting_value ps S_ENABLE_CONNECT_PROTOCOL None) (s_enable_connect_protocol s).

(* [wire_matches w l]: the model's loaded value [l] says exactly what the RFC value [w] says.
   The model keeps undefined flag bits of HEADERS / PUSH_PROMISE (HeadersFlag is not masked on
   load); they carry no meaning and are not compared. *)
Definition wire_matches (w : wire_frame) (l : loaded) : bool :=
  match w, l with
  | WData sid es pad data, LdFrame (FData sid' flags pad' data') =>
      (sid =? sid') && Bool.eqb es (has_bit flags data_END_STREAM)
      && Bool.eqb (match pad with Some _ => true | None => false end) (has_bit flags data_PADDED)
      && (flags =? bit_if es data_END_STREAM + bit_if (has_bit flags data_PADDED) data_PADDED)
      && opt_N_eqb pad pad' && list_N_eqb data data'
  | WHeaders sid es eh prio frag, LdFrame (FHeaders sid' flags dep block) =>
      (sid =? sid') && Bool.eqb es (has_bit flags headers_END_STREAM)
      && Bool.eqb eh (has_bit flags headers_END_HEADERS)
      && opt_prio_eqb prio dep && list_N_eqb frag block
  | WPriority sid p, LdFrame (FPriority sid' d) => (sid =? sid') && prio_eqb p d
  | WRstStream sid code, LdFrame (FReset sid' code') => (sid =? sid') && (code =? code')
  | WSettings ack ps, LdFrame (FSettings s) => settings_match ack ps s
  | WPushPromise sid eh promised frag, LdFrame (FPushPromise sid' flags promised' block) =>
      (sid =? sid') && Bool.eqb eh (has_bit flags headers_END_HEADERS)
      && (promised =? promised') && list_N_eqb frag block
  | WPing ack opaque, LdFrame (FPing ack' payload) => Bool.eqb ack ack' && list_N_eqb opaque payload
  | WGoAway last code debug, LdFrame (FGoAway last' code' debug') =>
      (last =? last') && (code =? code') && list_N_eqb debug debug'
  | WWindowUpdate sid inc, LdFrame (FWindowUpdate sid' inc') => (sid =? sid') && (inc =? inc')
  | WContinuation sid eh frag, LdContinuation sid' eh' frag' =>
      (sid =? sid') && Bool.eqb eh eh' && list_N_eqb frag frag'
  | WUnknown _ _ _ _, LdIgnored => true
  | _, _ => false
  end.

(* agreement of the two parsers on one input.  The reference is the grammar at the codec boundary
   (Ref: rfc_parse_frame_codec): RST_STREAM / CONTINUATION on stream 0 are handed up unchanged and
   refused above the codec -- by proto/streams/streams.rs recv_reset, and by decode_frame's
   CONTINUATION book-keeping (Proofs/ReadBufProofs.v continuation_stream_zero_refused). *)
Definition agree (m : parse_result) (r : rfc_result) : bool :=
  match m, r with
  | POk l, Accept w => wire_matches w l
  | PErr _ _ _, Reject _ => true
  | PErrPriorityZero, Reject _ => true
  | PErrGoAwayStream, Reject _ => true
  | PErrFrameSize, Reject code => code =? FRAME_SIZE_ERROR
  | PNotOneFrame, NotOneFrame => true
  | _, _ => false
  end.

(* ---------------------------------------------------------------------------------------- *)
(* correspondence with the implementation (lib/props/parts/framecodec.py, mode serialize):
   the harness built [f] through h2's constructors, pushed it through Codec over a transport that
   accepts everything, and recorded the octets; [block] of header frames is the HPACK block the
   implementation produced (opaque here), extracted from the recorded octets by the harness'
   own frame reader. *)
Definition enc_result_eqb (r : enc_result) (impl : option (list N)) : bool :=
  match r, impl with
  | EOk bytes, Some bs => list_N_eqb bytes bs
  | EPanic, None => true
  | EUnsupported, None => true
  | _, _ => false
  end.

(* Encoder::buffer refuses a DATA payload above max_frame_size (UserError::PayloadTooBig) *)
Definition check_serialize (c : N * frame * option (list N)) : bool :=
  let '(max, f, impl) := c in
  match f with
  | FData _ _ _ data =>
      if max <? lenN data then (match impl with None => true | Some _ => false end)
      else enc_result_eqb (encode max f) impl
  | _ => enc_result_eqb (encode max f) impl
  end.
