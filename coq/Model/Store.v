(* Model of the stream-record life cycle of h2 (src/proto/streams/store.rs, stream.rs, the reference
   counting of streams.rs, Counts::transition_after of counts.rs, and the idle-close decision of
   proto/connection.rs / client.rs).

   State: the slab (index -> record), the id map (stream id -> index), per record the ref_count and
   the six queue-membership flags (is_pending_send, is_pending_send_capacity, is_pending_accept,
   is_pending_window_update, is_pending_open, reset_at.is_some()), Inner.refs, the intrusive queues
   abstracted to lists of keys (one list of (queue, key) pairs: the sub-list of a queue is its
   FIFO order), the concurrency counters (the Counts model, embedded), and three ghosts: the
   multiset of live handles (each a store::Key plus the serial of the record it was created for),
   the number of live `Streams` objects, and per record the last observed `is_closed()` plus an
   "owed" mark (a reason to keep the record went away and transition_after has not looked yet).

   Labels are the hooked primitives (hooks/apply_store_hooks.py): Store::insert, Ptr::unlink,
   Ptr::remove, Queue::push / push_front / pop, OpaqueStreamRef::new / clone, drop_stream_ref,
   Streams::clone / drop, has_streams_or_other_references, maybe_close_connection_if_no_streams,
   Counts::transition_after, every other counts.rs call (passed through to the Counts model), and
   Quiesce (end of a harness step: every lock has been released).

   The slab index chosen by slab::Slab::insert and everything owned by the state machine
   (is_closed, is_scheduled_reset, local/remote) are observed inputs; theorems quantify over all
   their values.  Slot reuse is explicit: a removed index may be given to a later insert. *)
From H2V Require Import Base.Tac Model.Counts.
Local Open Scope N_scope.

Inductive fid := FSend | FCap | FAccept | FWu | FOpen | FReset.
(* KPpp p: Stream.pending_push_promises of the record with serial p (uses the NextAccept link and flag) *)
Inductive qid := KSend | KCap | KAccept | KWu | KOpen | KReset | KPpp (parent : N).

Definition flag_of (q : qid) : fid :=
  match q with
  | KSend => FSend | KCap => FCap | KAccept => FAccept | KWu => FWu | KOpen => FOpen | KReset => FReset
  | KPpp _ => FAccept
  end.

Definition fid_eqb (a b : fid) : bool :=
  match a, b with
  | FSend, FSend | FCap, FCap | FAccept, FAccept | FWu, FWu | FOpen, FOpen | FReset, FReset => true
  | _, _ => false
  end.

Definition qid_eqb (a b : qid) : bool :=
  match a, b with
  | KSend, KSend | KCap, KCap | KAccept, KAccept | KWu, KWu | KOpen, KOpen | KReset, KReset => true
  | KPpp x, KPpp y => x =? y
  | _, _ => false
  end.

Definition all_fids : list fid := [FSend; FCap; FAccept; FWu; FOpen; FReset].

(* store::Key: slab index and stream id (the ABA guard) *)
Definition key := (N * N)%type.
Definition key_eqb (a b : key) : bool := (fst a =? fst b) && (snd a =? snd b).

Record rec := mkR {
  r_serial : N;            (* ghost: identity of the record *)
  r_id : N;
  r_ref : N;
  r_fl : fid -> bool;
  r_closed : bool;         (* ghost: is_closed() as last seen by transition_after (false for a new record) *)
  r_owed : bool            (* ghost: a pop / handle drop happened and transition_after has not run since *)
}.

Definition with_ref (r : rec) (n : N) : rec := mkR (r_serial r) (r_id r) n (r_fl r) (r_closed r) (r_owed r).
Definition with_flag (r : rec) (f : fid) (b : bool) : rec :=
  mkR (r_serial r) (r_id r) (r_ref r) (fun g => if fid_eqb f g then b else r_fl r g) (r_closed r) (r_owed r).
Definition with_owed (r : rec) (b : bool) : rec := mkR (r_serial r) (r_id r) (r_ref r) (r_fl r) (r_closed r) b.
Definition with_seen (r : rec) (c : bool) : rec := mkR (r_serial r) (r_id r) (r_ref r) (r_fl r) c false.

Definition any_flag (r : rec) : bool := existsb (r_fl r) all_fids.
Definition no_flags (r : rec) : bool := negb (any_flag r).
Definition has_reason (r : rec) : bool := (0 <? r_ref r) || any_flag r || negb (r_closed r).

Definition new_rec (serial id : N) : rec := mkR serial id 0 (fun _ => false) false false.

(* association lists keyed by N *)
Fixpoint alook {A} (k : N) (l : list (N * A)) : option A :=
  match l with [] => None | (k', v) :: l' => if k' =? k then Some v else alook k l' end.
Fixpoint adel {A} (k : N) (l : list (N * A)) : list (N * A) :=
  match l with [] => [] | (k', v) :: l' => if k' =? k then adel k l' else (k', v) :: adel k l' end.
Definition aset {A} (k : N) (v : A) (l : list (N * A)) : list (N * A) := (k, v) :: adel k l.
Definition amem {A} (k : N) (l : list (N * A)) : bool := match alook k l with Some _ => true | None => false end.

Record sstate := mkS {
  slab : list (N * rec);
  ids : list (N * N);              (* stream id -> slab index *)
  refs : N;                        (* Inner.refs *)
  nstreams : N;                    (* ghost: live Streams objects (the connection's own and SendRequest clones) *)
  handles : list (key * N);        (* ghost: live OpaqueStreamRefs: key and the serial they were created for *)
  qs : list (qid * key);
  cs : cstate
}.

Definition set_slab (st : sstate) (s : list (N * rec)) : sstate :=
  mkS s (ids st) (refs st) (nstreams st) (handles st) (qs st) (cs st).
Definition set_ids (st : sstate) (i : list (N * N)) : sstate :=
  mkS (slab st) i (refs st) (nstreams st) (handles st) (qs st) (cs st).
Definition set_qs (st : sstate) (q : list (qid * key)) : sstate :=
  mkS (slab st) (ids st) (refs st) (nstreams st) (handles st) q (cs st).
Definition set_cs (st : sstate) (c : cstate) : sstate :=
  mkS (slab st) (ids st) (refs st) (nstreams st) (handles st) (qs st) c.
Definition set_refs (st : sstate) (n m : N) (h : list (key * N)) : sstate :=
  mkS (slab st) (ids st) n m h (qs st) (cs st).

(* Store::index / index_mut: the slot must be occupied by a record with the key's id, else
   panic!("dangling store key") *)
Definition resolve (st : sstate) (k : key) : option rec :=
  match alook (fst k) (slab st) with
  | Some r => if r_id r =? snd k then Some r else None
  | None => None
  end.

Definition put (st : sstate) (k : key) (r : rec) : sstate := set_slab st (aset (fst k) r (slab st)).

(* queues *)
Fixpoint qfirst (q : qid) (l : list (qid * key)) : option key :=
  match l with [] => None | (q', k) :: l' => if qid_eqb q q' then Some k else qfirst q l' end.
Fixpoint qlast (q : qid) (l : list (qid * key)) : option key :=
  match l with
  | [] => None
  | (q', k) :: l' => match qlast q l' with Some x => Some x | None => if qid_eqb q q' then Some k else None end
  end.
Fixpoint qdel_first (q : qid) (l : list (qid * key)) : list (qid * key) :=
  match l with [] => [] | (q', k) :: l' => if qid_eqb q q' then l' else (q', k) :: qdel_first q l' end.

(* handles *)
Definition h_eqb (a b : key * N) : bool := key_eqb (fst a) (fst b) && (snd a =? snd b).
Fixpoint hmem (h : key * N) (l : list (key * N)) : bool :=
  match l with [] => false | x :: l' => h_eqb h x || hmem h l' end.
Fixpoint hdel (h : key * N) (l : list (key * N)) : list (key * N) :=
  match l with [] => [] | x :: l' => if h_eqb h x then l' else x :: hdel h l' end.

Inductive sout :=
| OBool (b : bool) | OKey (k : key) | ONone | OWakeConn | OGoAwayNow | OCounts (o : cout).

Inductive soutcome :=
| SOk (st : sstate) (outs : list sout)
| SStuck (n : N)
| SPanic (n : N).

(* what transition_after reads from the state machine and its caller *)
Record sobs := mkSO {
  so_closed : bool;          (* stream.is_closed() *)
  so_reset_counted : bool;   (* the is_reset_counted argument *)
  so_sched : bool;           (* state.is_scheduled_reset() *)
  so_local : bool            (* peer.is_local_init(id) *)
}.

Inductive slabel :=
| LCounts (l : clabel)                     (* any call into counts.rs except transition_after *)
| LInsert (idx serial id : N)              (* Store::insert / VacantEntry::insert; idx = index chosen by the slab *)
| LUnlink (id : N)                         (* Ptr::unlink called directly (send_request / send_push_promise error paths) *)
| LRemove (k : key)                        (* Ptr::remove called directly (same paths) *)
| LPush (q : qid) (k : key)
| LPushFront (q : qid) (k : key)
| LPop (q : qid)
| LHNew (k : key)                          (* refs += 1; OpaqueStreamRef::new *)
| LHClone (k : key) (serial : N)           (* OpaqueStreamRef::clone of the handle (k, serial) *)
| LHDrop (k : key) (serial : N) (closed : bool)   (* drop_stream_ref up to the wake-up; closed = stream.is_closed() *)
| LHDropEnd                                (* end of drop_stream_ref: `if me.refs == 1 { wake }` (fix 6b1d165) *)
| LSClone | LSDrop                         (* Streams::clone / Streams::drop *)
| LQueryRefs                               (* has_streams_or_other_references *)
| LMaybeClose                              (* maybe_close_connection_if_no_streams *)
| LTransitionAfter (k : key) (o : sobs)
| LQuiesce.

Definition has_streams (c : cstate) : bool := negb (num_send c =? 0)%Z || negb (num_recv c =? 0)%Z.
Definition busy (st : sstate) : bool := has_streams (cs st) || (1 <? refs st).

Definition sstep (st : sstate) (l : slabel) : soutcome :=
  match l with
  | LCounts cl =>
    match cl with
    | TransitionAfter _ _ => SStuck 30
    | _ => match cstep (cs st) cl with
           | COk c outs => SOk (set_cs st c) (map OCounts outs)
           | CStuck n => SStuck (100 + n)
           | CPanic n => SPanic (100 + n)
           end
    end
  | LInsert idx serial id =>
    if amem idx (slab st) then SStuck 1          (* the slab hands out vacant slots only *)
    else if amem id (ids st) then SStuck 10      (* assert!(self.ids.insert(id, index).is_none()): ids handed out by Send::open /
                                                    Recv::open / find_entry(Vacant) are new; that discipline is not modelled here *)
    else SOk (set_ids (set_slab st ((idx, new_rec serial id) :: slab st)) ((id, idx) :: ids st)) []
  | LUnlink id => SOk (set_ids st (adel id (ids st))) []
  | LRemove k =>
    match alook (fst k) (slab st) with
    | None => SPanic 3                            (* slab.remove: invalid key *)
    | Some r =>
      if negb (r_id r =? snd k) then SPanic 4     (* assert_eq!(stream.id, self.key.stream_id) *)
      else if negb ((r_ref r =? 0) && no_flags r) then SStuck 2   (* direct removal: only a record nobody has seen *)
      else if existsb (fun e => snd e =? fst k) (ids st) then SStuck 3   (* unlinked first *)
      else SOk (set_slab st (adel (fst k) (slab st))) []
    end
  | LPush q k =>
    match resolve st k with
    | None => SPanic 5
    | Some r =>
      if r_fl r (flag_of q) then SOk st [OBool false]
      else match (match qlast q (qs st) with Some t => resolve st t | None => Some r end) with
           | None => SPanic 6                      (* set_next on the tail *)
           | Some _ => SOk (set_qs (put st k (with_flag r (flag_of q) true)) (qs st ++ [(q, k)])) [OBool true]
           end
    end
  | LPushFront q k =>
    match resolve st k with
    | None => SPanic 5
    | Some r =>
      if r_fl r (flag_of q) then SOk st [OBool false]
      else SOk (set_qs (put st k (with_flag r (flag_of q) true)) ((q, k) :: qs st)) [OBool true]
    end
  | LPop q =>
    match qfirst q (qs st) with
    | None => SOk st [ONone]
    | Some k =>
      match resolve st k with
      | None => SPanic 7
      | Some r => SOk (set_qs (put st k (with_owed (with_flag r (flag_of q) false) true)) (qdel_first q (qs st))) [OKey k]
      end
    end
  | LHNew k =>
    match resolve st k with
    | None => SPanic 8
    | Some r => SOk (set_refs (put st k (with_ref r (r_ref r + 1))) (refs st + 1) (nstreams st) ((k, r_serial r) :: handles st)) []
    end
  | LHClone k s =>
    if negb (hmem (k, s) (handles st)) then SStuck 4
    else match resolve st k with
         | None => SPanic 9
         | Some r => SOk (set_refs (put st k (with_ref r (r_ref r + 1))) (refs st + 1) (nstreams st) ((k, r_serial r) :: handles st)) []
         end
  | LHDrop k s closed =>
    if negb (hmem (k, s) (handles st)) then SStuck 5
    else if refs st =? 0 then SPanic 10            (* me.refs -= 1 *)
    else match resolve st k with
         | None => SPanic 11
         | Some r =>
           if r_ref r =? 0 then SPanic 12          (* assert!(self.ref_count > 0) *)
           else SOk (set_refs (put st k (with_owed (with_ref r (r_ref r - 1)) true)) (refs st - 1) (nstreams st) (hdel (k, s) (handles st)))
                    (if (r_ref r - 1 =? 0) && closed then [OWakeConn] else [])
         end
  | LHDropEnd => SOk st (if refs st =? 1 then [OWakeConn] else [])
  | LSClone =>
    if nstreams st =? 0 then SStuck 6
    else SOk (set_refs st (refs st + 1) (nstreams st + 1) (handles st)) []
  | LSDrop =>
    if nstreams st =? 0 then SStuck 7
    else if refs st =? 0 then SPanic 13
    else SOk (set_refs st (refs st - 1) (nstreams st - 1) (handles st)) (if refs st - 1 =? 1 then [OWakeConn] else [])
  | LQueryRefs => SOk st [OBool (busy st)]
  | LMaybeClose =>
    if nstreams st =? 0 then SStuck 8              (* called by the connection, which owns a Streams *)
    else SOk st (if busy st then [] else [OGoAwayNow])
  | LTransitionAfter k o =>
    match resolve st k with
    | None => SPanic 14
    | Some r =>
      match cstep (cs st) (TransitionAfter (r_serial r) (mkT (so_closed o) (r_fl r FReset) (so_reset_counted o) (so_sched o) (so_local o))) with
      | CStuck n => SStuck (100 + n)
      | CPanic n => SPanic (100 + n)
      | COk c _ =>
        let unlinked := so_closed o && negb (r_fl r FReset) in
        let released := so_closed o && (r_ref r =? 0) && no_flags r in
        let st1 := set_cs (if unlinked then set_ids st (adel (r_id r) (ids st)) else st) c in
        if released then SOk (set_slab st1 (adel (fst k) (slab st1))) [OBool unlinked; OBool true]
        else SOk (put st1 k (with_seen r (so_closed o))) [OBool unlinked; OBool false]
      end
    end
  | LQuiesce =>
    if existsb (fun e => r_owed (snd e) && negb (has_reason (snd e))) (slab st) then SStuck 9
    else SOk (set_slab st (map (fun e => (fst e, with_owed (snd e) false)) (slab st))) []
  end.

Definition sinit (ms mr : option Z) (mlr mrr : Z) (mle : option Z) : sstate :=
  mkS [] [] 1 1 [] [] (cinit ms mr mlr mrr mle).

Fixpoint srun (st : sstate) (ls : list slabel) : option (sstate * list (list sout)) + (N * soutcome) :=
  match ls with
  | [] => inl (Some (st, []))
  | l :: ls' =>
    match sstep st l with
    | SOk st1 o =>
      match srun st1 ls' with
      | inl (Some (st2, os)) => inl (Some (st2, o :: os))
      | inl None => inl None
      | inr (k, r) => inr (N.succ k, r)
      end
    | r => inr (0, r)
    end
  end.

(* ---------------------------------------------------------------------------------------------
   Correspondence: observed pre-state of the record the label works on (serial, ref_count, flag
   mask), Inner.refs, store sizes, the ten counters, and the observed outputs. *)

Definition b2n (b : bool) : N := if b then 1 else 0.
Definition mask_of (r : rec) : N :=
  b2n (r_fl r FSend) + 2 * b2n (r_fl r FCap) + 4 * b2n (r_fl r FAccept) + 8 * b2n (r_fl r FWu) +
  16 * b2n (r_fl r FOpen) + 32 * b2n (r_fl r FReset).

Record sexpect := mkSE {
  se_rec : option (key * (N * N * N));        (* key; serial, ref_count, flag mask *)
  se_refs : option N;
  se_sizes : option (N * N);                  (* ids.len(), slab.len() *)
  se_linked : option (N * option N);          (* stream id, ids.get(id) *)
  se_counts : option cexpect;
  se_outs : option (list sout)
}.

Definition optn_eqb (a b : option N) : bool :=
  match a, b with Some x, Some y => x =? y | None, None => true | _, _ => false end.

Definition scheck_pre (st : sstate) (e : sexpect) : bool :=
  (match se_rec e with
   | None => true
   | Some (k, (s, rc, m)) =>
     match resolve st k with
     | Some r => (r_serial r =? s) && (r_ref r =? rc) && (mask_of r =? m)
     | None => false
     end
   end) &&
  (match se_refs e with None => true | Some n => refs st =? n end) &&
  (match se_sizes e with None => true | Some (a, b) => (N.of_nat (length (ids st)) =? a) && (N.of_nat (length (slab st)) =? b) end) &&
  (match se_linked e with None => true | Some (id, oi) => optn_eqb (alook id (ids st)) oi end) &&
  (match se_counts e with None => true | Some ce => ccheck_pre (cs st) ce end).

Definition sout_eqb (a b : sout) : bool :=
  match a, b with
  | OBool x, OBool y => Bool.eqb x y
  | OKey x, OKey y => key_eqb x y
  | ONone, ONone | OWakeConn, OWakeConn | OGoAwayNow, OGoAwayNow => true
  | OCounts (CBool x), OCounts (CBool y) => Bool.eqb x y
  | _, _ => false
  end.
Fixpoint souts_eqb (a b : list sout) : bool :=
  match a, b with
  | [], [] => true
  | x :: a', y :: b' => sout_eqb x y && souts_eqb a' b'
  | _, _ => false
  end.

(* result: 0 = agreement; otherwise 100 * (index + 1) + reason (1 pre-state, 2 outputs, 3 Stuck, 4 Panic)
   and, for Stuck / Panic, 1000000 * code on top *)
Fixpoint scheck_run (st : sstate) (i : N) (ls : list (slabel * sexpect)) : N :=
  match ls with
  | [] => 0
  | (l, e) :: ls' =>
    if negb (scheck_pre st e) then 100 * (i + 1) + 1
    else match sstep st l with
         | SOk st1 o =>
           match se_outs e with
           | Some eo => if souts_eqb o eo then scheck_run st1 (i + 1) ls' else 100 * (i + 1) + 2
           | None => scheck_run st1 (i + 1) ls'
           end
         | SStuck n => 100 * (i + 1) + 3 + 1000000 * n
         | SPanic n => 100 * (i + 1) + 4 + 1000000 * n
         end
  end.

Definition diag_store (c : (option Z * option Z * Z * Z * option Z) * list (slabel * sexpect)) : N :=
  let '((ms, mr, mlr, mrr, mle), ls) := c in scheck_run (sinit ms mr mlr mrr mle) 0 ls.
Definition check_store (c : (option Z * option Z * Z * Z * option Z) * list (slabel * sexpect)) : bool :=
  diag_store c =? 0.
