#!/bin/sh
# developer convenience: every thorough check in sequence (hours); prints verdict lines and wall time.
# `touch /verif/.build/stop_sweep` makes it stop before the next property.
cd "$(dirname "$0")"
rm -f .build/stop_sweep
for p in ${*:-C03 C02 C16 C19 C18 C06 C04 C07 C09 C17 C01 C08 C10 C11 C12 C13 C14 C15 C20 C05}; do
  [ -e .build/stop_sweep ] && { echo "-- stopped before $p"; break; }
  s=$(date +%s)
  ./check $p --tier thorough 2>&1 | grep -E "^(OK|VIOLATION|KNOWN-FINDING)" | cut -c1-200
  echo "-- $p took $(( $(date +%s) - s )) s"
done
