#!/bin/sh
# Build the framework from files on disk only (offline): translator output, Coq development,
# correspondence harness.  Everything lands under /verif/.build or next to the sources (git-ignored).
set -e
cd "$(dirname "$0")"
export CARGO_NET_OFFLINE=true
mkdir -p .build evidence replays
python3 translator/gen.py
sh coq/files.sh
( cd coq && timeout 3000 make -j16 )
cp /repo/Cargo.lock harness/Cargo.lock 2>/dev/null || true
( cd harness && timeout 3000 cargo build --offline --quiet --bins )
echo setup-ok
