#!/bin/sh
# Build the framework from files on disk only (offline): translator output, Coq development,
# correspondence harness.  Everything lands under /verif/.build or next to the sources (git-ignored).
# Each check rebuilds exactly what it needs from /repo's working tree, so a failure of an unrelated
# file here is reported but does not abort the setup.
cd "$(dirname "$0")"
export CARGO_NET_OFFLINE=true
mkdir -p .build evidence replays
python3 translator/gen.py || echo "setup-warning: translator failed"
sh coq/files.sh
( cd coq && timeout 3000 make -j16 -k >/verif/.build/coq-setup.log 2>&1 ) || { echo "setup-warning: some Coq files did not build"; grep -E "^File|Error" /verif/.build/coq-setup.log | head -20; }
cp /repo/Cargo.lock harness/Cargo.lock 2>/dev/null || true
( cd harness && timeout 3000 cargo build --offline --quiet --bins ) || echo "setup-warning: some harness binaries did not build"
echo setup-ok
